from ._h import S
M = 'selector_map.py'
C = 'config.py'
SEEDS = [
  S('shallow-tree-copy', 'C08.copy', M, "    sm._selector_tree = copy.deepcopy(self._selector_tree)", "    sm._selector_tree = self._selector_tree.copy()", 'F5 re-introduced'),
  S('aliased-map-copy', 'C08.copy', M, "    sm._selector_map = self._selector_map.copy()", "    sm._selector_map = self._selector_map"),
  S('eq-typo', 'C08.hasheq', C, "  def __eq__(self, other):\n    # Equality ignores", "  def __equal__(self, other):\n    # Equality ignores", 'F6 re-introduced'),
  S('eq-compares-given-selector', 'C08.hasheq', C, "    return self.scope_selector_arg == other.scope_selector_arg", "    return (self.scope, self.given_selector, self.arg_name) == (other.scope, other.given_selector, other.arg_name)"),
  S('minus-zero-slice', 'C08.minimal', M, "          start = -max(i, 1)", "          start = -i", 'F7 re-introduced'),
  S('pop-leaves-map', 'C08.sync', M, "    value = self._selector_map.pop(complete_selector)\n", "    value = self._selector_map[complete_selector]\n"),
  S('pop-leaves-tree', 'C08.sync', M, "    selector_components.append(_TERMINAL_KEY)\n    nodes[-1][_TERMINAL_KEY] = None\n    for component, node in zip(reversed(selector_components), reversed(nodes)):\n      if not node[component]:\n        node.pop(component)\n", ""),
  S('clear-leaves-tree', 'C08.sync', M, "    self._selector_tree.clear()\n    self._selector_map.clear()", "    self._selector_map.clear()"),
  S('setitem-map-only', 'C08.sync', M, "    for component in selector_components[::-1]:\n      node = node.setdefault(component, {})\n    node[_TERMINAL_KEY] = complete_selector\n", "    if complete_selector not in self._selector_map:\n      pass\n"),
  S('exact-match-precedence-removed', 'C08.exact-first', M, "    if partial_selector in self._selector_map:\n      return [partial_selector]\n", ""),
  S('ambiguity-returns-first', 'C08.exact-first', M, "    if len(matching_selectors) > 1:\n      err_str = \"Ambiguous selector '{}', matches {}.\"\n      raise KeyError(err_str.format(partial_selector, matching_selectors))\n", ""),
  S('store-keyed-by-given-selector', 'C08.complete-keys', C, "    return self.scope, self.complete_selector\n", "    return self.scope, self.given_selector\n"),
  S('reference-key-by-given', 'C08.complete-keys', C, "    return ('/'.join(self._scopes), self._configurable.selector)", "    return ('/'.join(self._scopes), self._selector)"),
  S('lookup-returns-given', 'C08.complete-keys', C, "    if selector:\n      selector = selector.selector\n", "    if selector:\n      selector = fn_or_cls_or_selector.split('/')[-1]\n"),
  S('registry-exact-only', 'C08.funnel', C, "      return _REGISTRY.get_match(selector)", "      return _REGISTRY.get(selector)"),
  # the `next(<values of the matches>, default)` form of get_match is right only behind the ambiguity guard (it is accepted there:
  # refactors/C08re); without the guard it returns the first of several matches
  S('first-or-default-without-ambiguity-guard', 'C08.exact-first', M, "    if not matching_selectors:\n      return default\n    if len(matching_selectors) > 1:\n      err_str = \"Ambiguous selector '{}', matches {}.\"\n      raise KeyError(err_str.format(partial_selector, matching_selectors))\n    return self._selector_map[matching_selectors[0]]\n", "    return next(map(self._selector_map.__getitem__, matching_selectors), default)\n"),
  S('first-or-default-generator-without-guard', 'C08.exact-first', M, "    if not matching_selectors:\n      return default\n    if len(matching_selectors) > 1:\n      err_str = \"Ambiguous selector '{}', matches {}.\"\n      raise KeyError(err_str.format(partial_selector, matching_selectors))\n    return self._selector_map[matching_selectors[0]]\n", "    if len(matching_selectors) > 2:\n      raise KeyError(partial_selector)\n    return next((self._selector_map[s] for s in matching_selectors), default)\n"),
  # a key property spelled `property(operator.attrgetter(...))` is read like the method it replaces
  dict(name='attrgetter-key-by-given-selector', rule='C08.complete-keys', note='', edits=[
      (C, "import logging\n", "import logging\nimport operator\n"),
      (C, "  @property\n  def config_key(self):\n    return self.scope, self.complete_selector\n", "  config_key = property(operator.attrgetter('scope', 'given_selector'))\n")]),
]
