from _common import *
import numpy as np
with gin.config_scope('outer'):
  try:
    with gin.config_scope(np.array([1, 2])): pass
  except Exception: pass
  inside = gin.current_scope()
try:
  after = gin.current_scope(); ok = (inside == ['outer'] and after == [])
  done(not ok, "inside outer after invalid nested scope: %r; after: %r" % (inside, after))
except IndexError:
  done(True, "scope stack emptied: inside outer block scope was %r; current_scope() now raises IndexError" % inside)
