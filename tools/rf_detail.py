#!/venv/bin/python
"""rf_detail.py <refactor-id> [props...]: apply a kept refactoring to a scratch worktree of /repo, print the alarm lines."""
import json, subprocess, sys, os
sys.path.insert(0, os.path.dirname(os.path.abspath(__file__)))
from scratch import scratch
rid = sys.argv[1]
d = '/verif/refactors/' + rid
if not os.path.isdir(d):
  d = '/verif/seeded/' + rid
def sh(c): return subprocess.run(c, shell=True, capture_output=True, text=True)
props = sys.argv[2:]
if not props:
  meta = json.load(open(d + '/meta.json'))
  props = sorted(meta.get('alarms_now') or meta.get('alarms_first_run') or {})
with scratch(d + '/patch.diff') as (wt, applied):
  assert applied, 'patch does not apply'
  for p in props:
    r = sh('/verif/check %s --no-write --repo %s' % (p, wt))
    out = [l for l in r.stdout.splitlines() if 'rule=' in l or l.strip().startswith('at ') or 'ANALYSIS-ERROR' in l or 'Traceback' in l or 'File "' in l or 'Error' in l]
    print('==', rid, p, 'exit', r.returncode)
    print('\n'.join(x[:700] for x in out))
    if r.returncode == 2: print(r.stderr[-1500:])
