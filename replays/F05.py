from _common import *
from gin import selector_map
m = selector_map.SelectorMap(); m['a.b'] = 1
c = m.copy(); m['x.b'] = 2
try:
  v = c.get_match('b')
  done(v != 1, "copy unaffected by later insert into original (get_match('b') == %r)" % v)
except KeyError as e:
  done(True, "copy shares tree with original: %s" % e)
