"""C13 Registration is transparent to the registered function or class."""
import ast

from ..cfg import pair_leaks, describe_path, witness
from ..core import AnalysisError, u, walk_local, enclosing_stmt
from ..lib import (construct, std_facts, def_of, facts_imply, facts_at,
                   calls_of_node, returns_of, kwarg, in_subtree)
from ..resolve import store_accesses

MK = 'config._make_configurable'


def avoid_flag(call):
  k = kwarg(call, 'avoid_class_mutation')
  return isinstance(k, ast.Constant) and k.value is True


def run(ctx):
  prog = ctx.prog
  ctx.assume('T1', 'T11')
  mk = ctx.func(MK)
  # ---- C13.identity
  reg = ctx.func('config.register')
  pd = reg.nested.get('perform_decoration')
  if pd is None:
    raise AnalysisError('register.perform_decoration vanished')
  rv = [r.value for r in returns_of(pd) if r.value is not None]
  ok = len(rv) == 1 and isinstance(rv[0], ast.Name) and rv[0].id == pd.params[0]
  ctx.check(ok, 'C13.identity', construct(reg), 'gin.register hands back the very object it was given',
            'gin.register returns `%s` instead of the object it was given: direct Python calls would receive injected values'
            % [u(x) for x in rv], pd.loc(), instance='returns-original')
  for q, label in (('config.register.perform_decoration', 'register'), ('config.external_configurable', 'external_configurable'),
                   ('config.ParseContext._register', 'dynamic registration')):
    fn = ctx.func(q)
    calls = [c for c in walk_local(fn.node) if isinstance(c, ast.Call) and prog.resolve_call(fn, c) == MK]
    if not calls:
      # delegation to another of the three entry points (which is checked in its own right) with the object as first argument
      entry = {q2 for q2, _l in (('config.external_configurable', ''), ('config.ParseContext._register', ''))} - {q}
      deleg = [c for c in walk_local(fn.node) if isinstance(c, ast.Call) and prog.resolve_call(fn, c) in entry
               and c.args and isinstance(c.args[0], ast.Name)]
      if deleg:
        ctx.hold('C13.identity', construct(fn), '%s registers through %s (checked there), handing it the object itself' % (label, u(deleg[0].func)),
                 fn.loc(deleg[0]), instance=label)
        ctx.hold('C13.identity', construct(fn), '%s registers the object itself' % label, fn.loc(deleg[0]), instance=label + ':object')
        continue
    ctx.check(bool(calls) and all(avoid_flag(c) for c in calls), 'C13.identity', construct(fn),
              '%s registers without mutating the class (avoid_class_mutation=True)' % label,
              '%s no longer passes avoid_class_mutation=True: the original class\'s __init__/__new__ would be replaced in place' % label,
              fn.loc(), instance=label)
    first = calls[0].args[0] if calls and calls[0].args else None
    ctx.check(first is not None and isinstance(first, ast.Name), 'C13.identity', construct(fn), '%s registers the object itself' % label,
              '%s registers `%s`' % (label, u(first) if first is not None else None), fn.loc(), instance=label + ':object')
  from .common import inverse_lookup_by_equality
  inverse_lookup_by_equality(ctx, 'C13.identity')
  dec = ctx.func('config._decorate_fn_or_cls')
  g, facts = std_facts(prog, dec)
  sets = [n for n in g.live_nodes() if any(u(c.func) == 'setattr' for c in calls_of_node(n))]
  ctx.expect_at_least('in-place class mutation sites', len(sets), 1)
  ok = all(('c', 'avoid_class_mutation', False) in facts[n.id] for n in sets)
  ctx.check(ok, 'C13.identity', construct(dec), 'the class is mutated in place only when avoid_class_mutation is false',
            'setattr on the class is reachable with avoid_class_mutation=True', dec.loc(), instance='setattr-branch')
  dflt = [d for a, d in zip(mk.node.args.args[-len(mk.node.args.defaults):], mk.node.args.defaults) if a.arg == 'avoid_class_mutation']
  ctx.check(dflt and isinstance(dflt[0], ast.Constant) and dflt[0].value is False, 'C13.identity', construct(mk),
            'gin.configurable keeps the in-place default (returns the decorated object)', 'default of avoid_class_mutation changed', mk.loc(), instance='default')

  # ---- C13.atomic
  g, facts = std_facts(prog, mk)
  decn = [n for n in g.live_nodes() if any(prog.resolve_call(mk, c) == dec.qual for c in calls_of_node(n))]
  if not decn:
    raise AnalysisError('_make_configurable no longer calls _decorate_fn_or_cls')
  dn = decn[0]
  rejects = [n for n in g.live_nodes() if n.kind == 'raise_stmt' or
             any(prog.resolve_call(mk, c) == 'config._validate_parameters' for c in calls_of_node(n))]
  def conds(n):
    return ' & '.join(sorted('%s=%s' % (f[1], f[2]) for f in facts[n.id] if f[0] == 'c'))
  expected = {
      'locked configuration': lambda n: n.kind == 'raise_stmt' and 'config_is_locked()=True' in conds(n),
      'invalid name': lambda n: n.kind == 'raise_stmt' and 'MODULE_RE.match(name)=False' in conds(n),
      'invalid module': lambda n: n.kind == 'raise_stmt' and 'MODULE_RE.match(module)=False' in conds(n),
      'different object under an existing name': lambda n: n.kind == 'raise_stmt' and 'selector in _REGISTRY' in conds(n),
      'both lists given': lambda n: n.kind == 'raise_stmt' and 'allowlist=True' in conds(n) and 'denylist=True' in conds(n),
      'allowlist of wrong type': lambda n: n.kind == 'raise_stmt' and 'isinstance(allowlist, (list, tuple))=False' in conds(n),
      'denylist of wrong type': lambda n: n.kind == 'raise_stmt' and 'isinstance(denylist, (list, tuple))=False' in conds(n),
      'unknown name in the allowlist': lambda n: any(prog.resolve_call(mk, c) == 'config._validate_parameters' and len(c.args) > 1 and u(c.args[1]) == 'allowlist' for c in calls_of_node(n)),
      'unknown name in the denylist': lambda n: any(prog.resolve_call(mk, c) == 'config._validate_parameters' and len(c.args) > 1 and u(c.args[1]) == 'denylist' for c in calls_of_node(n)),
  }
  for label, pred in expected.items():
    hits = [n for n in rejects if pred(n)]
    late = [n for n in hits if g.reaches(dn.id, n.id)]
    ctx.check(bool(hits) and not late, 'C13.atomic', construct(mk),
              'rejection of %s precedes the decoration and the registry writes' % label,
              ('rejection of %s (line %d) can happen after the class/function has been decorated: a rejected registration leaves a mutated class or a half-registered entry'
               % (label, late[0].lineno)) if late else 'registration no longer rejects: %s' % label,
              mk.loc(late[0].ast) if late else mk.loc(), instance=label)
  late = [n for n in rejects if g.reaches(dn.id, n.id)]
  ctx.check(not late, 'C13.atomic', construct(mk),
            'all %d rejections precede the decoration and the registry writes' % len(rejects),
            'rejection `%s` (line %d) can happen after the class/function has been decorated'
            % (late[0].text(), late[0].lineno) if late else '', mk.loc(late[0].ast) if late else mk.loc(), sites=len(rejects), instance='rejections-first')
  _, acc = store_accesses(prog, 'config', ['_REGISTRY', '_INVERSE_REGISTRY'])
  ws = [a for a in acc if a.func is mk and a.kind == 'write']
  wn = [g.nodes_for(enclosing_stmt(a.node))[0] for a in ws]
  ok = bool(wn) and all(g.reaches(dn.id, n.id) for n in wn)
  after = set()
  for n in wn:
    after |= {i for i in g.reachable_from(n.id) if i != n.id}
  tail = [g.nodes[i] for i in after if g.nodes[i].ast is not None and g.nodes[i] not in wn and g.nodes[i].kind != 'return']
  ctx.check(ok and not tail, 'C13.atomic', construct(mk), 'the two registry writes are the last effects, after the decoration succeeded',
            'registry writes are not the last effects (%s)' % [n.text() for n in tail][:2], mk.loc(), instance='registry-last')
  # duplicate guard
  def atom(e):
    t = u(e).replace(' ', '')
    if t == '_INTERACTIVE_MODE':
      return 'interactive'
    if t == 'selectorin_REGISTRY':
      return 'present'
    if t == '_REGISTRY[selector].wrappedisfn_or_cls':
      return 'same'
    return None
  for n in sorted(wn, key=lambda x: x.lineno)[:1]:
    miss = facts_imply(facts[n.id], [('a different object under an existing full name is rejected outside interactive mode', 'interactive or (not present) or same')], atom)
    ctx.check(not miss, 'C13.duplicate', construct(mk), 'registration proceeds only if interactive, or the name is new, or it is the same object',
              'the duplicate guard no longer rejects a different object under an existing name (counter-example %s)' % (miss[0][1] if miss else ''),
              mk.loc(), instance='guard')

  # ---- C13.wraps
  wants = [
      ('config._make_gin_wrapper.gin_wrapper', lambda f: f.outer.params[0]),
      ('config._decorate_with_scope.scope_decorator.scoping_wrapper', lambda f: f.outer.params[0]),
      ('config._make_meta_call_wrapper.meta_call_wrapper', lambda f: 'cls_meta.__call__'),
  ]
  for q, target in wants:
    f = ctx.func(q)
    decs = [d for d in f.node.decorator_list if isinstance(d, ast.Call) and u(d.func) == 'functools.wraps']
    ok = len(decs) == 1 and len(decs[0].args) == 1 and u(decs[0].args[0]) == target(f)
    ctx.check(ok, 'C13.wraps', construct(f), 'the stand-in copies name, docstring, module and signature of what it wraps (functools.wraps(%s))' % target(f),
              '%s is no longer decorated with functools.wraps(%s): the configurable loses the original\'s name, docstring and signature'
              % (f.name, target(f)), f.loc(), instance='wraps')
    outer_rets = [r for r in returns_of(f.outer) if r.value is not None]
    ctx.check(any(u(r.value) == f.name for r in outer_rets), 'C13.wraps', construct(f.outer), 'the factory returns that stand-in',
              'the factory no longer returns %s' % f.name, f.outer.loc(), instance='returned')
  ew = ctx.func('config._ensure_wrappability')
  attrs = {n.attr for n in walk_local(ew.node) if isinstance(n, ast.Attribute) and isinstance(n.ctx, ast.Store)}
  ctx.check({'__name__', '__doc__', '__wrapped__'} <= attrs, 'C13.wraps', construct(ew), 'the builtin shim carries __name__, __doc__ and __wrapped__',
            'the builtin shim sets only %s' % sorted(attrs), ew.loc(), instance='shim')

  # ---- C13.metadata
  meta_attrs = None
  src_ok = False
  # names that denote the class being decorated
  cls_names = {dec.params[1]} if len(dec.params) > 1 else set()
  for n in walk_local(dec.node):
    if isinstance(n, ast.Assign) and len(n.targets) == 1 and isinstance(n.targets[0], ast.Name) and isinstance(n.value, ast.Name) \
        and n.value.id in cls_names:
      cls_names.add(n.targets[0].id)
  for n in walk_local(dec.node):
    if isinstance(n, ast.DictComp) and isinstance(n.generators[0].iter, (ast.Tuple, ast.List)):
      meta_attrs = {e.value for e in n.generators[0].iter.elts if isinstance(e, ast.Constant)}
      v = n.value
      src_ok = isinstance(v, ast.Call) and u(v.func) == 'getattr' and len(v.args) == 2 and u(v.args[0]) in cls_names \
          and u(v.args[1]) == u(n.generators[0].target) and u(n.key) == u(n.generators[0].target)
  need = {'__module__', '__name__', '__qualname__', '__doc__'}
  ctx.check(meta_attrs is not None and need <= meta_attrs and src_ok, 'C13.metadata', construct(dec),
            'the dynamic subclass copies %s from the original' % sorted(need),
            'the dynamic subclass copies only %s' % sorted(meta_attrs or ()), dec.loc(), instance='copied')
  # the metaclass built with type(<meta>)(...), and the class it is called to build
  metas = {u(n.targets[0]) for n in walk_local(dec.node) if isinstance(n, ast.Assign) and isinstance(n.value, ast.Call)
           and isinstance(n.value.func, ast.Call) and u(n.value.func.func) == 'type'}
  mkcls = [n for n in walk_local(dec.node) if isinstance(n, ast.Call) and isinstance(n.func, ast.Name) and n.func.id in metas]
  ok = len(mkcls) == 1 and len(mkcls[0].args) == 3 and isinstance(mkcls[0].args[1], ast.Tuple) and len(mkcls[0].args[1].elts) == 1 \
      and u(mkcls[0].args[1].elts[0]) in cls_names and isinstance(mkcls[0].args[0], ast.Attribute) and mkcls[0].args[0].attr == '__name__' \
      and u(mkcls[0].args[0].value) in cls_names
  ctx.check(ok, 'C13.metadata', construct(dec), 'the configurable class has the original as its only base and the same name',
            'the dynamic subclass is built as `%s`' % [u(n) for n in mkcls], dec.loc(), instance='bases')
  mcw = ctx.func('config._make_meta_call_wrapper.meta_call_wrapper')
  g2, facts2 = std_facts(prog, mcw)
  swaps = [n for n in g2.live_nodes() if n.kind == 'stmt' and isinstance(n.ast, ast.Assign) and u(n.ast.targets[0]) == mcw.params[0] and u(n.ast.value) == 'cls']
  ok = bool(swaps) and all(any(fct[0] == 'c' and fct[2] is True and fct[1].replace(' ', '') == '%s.__bases__==(cls,)' % mcw.params[0] for fct in facts2[n.id]) for n in swaps)
  rv = [r for r in returns_of(mcw) if r.value is not None]
  ok = ok and len(rv) == 1 and isinstance(rv[0].value, ast.Call) and u(rv[0].value.func) == 'cls_meta.__call__' and u(rv[0].value.args[0]) == mcw.params[0]
  if not ok and not swaps and len(rv) == 1 and isinstance(rv[0].value, ast.Call) and u(rv[0].value.func) == 'cls_meta.__call__' and rv[0].value.args:
    # the same choice written as an expression: cls_meta.__call__(cls if P.__bases__ == (cls,) else P, ...)
    from ..lib import expand_expr, facts_at
    a0 = expand_expr(facts_at(g2, facts2, rv[0]) or frozenset(), rv[0].value.args[0])
    P = mcw.params[0]
    if isinstance(a0, ast.IfExp):
      t = u(a0.test).replace(' ', '')
      ok = (t == '%s.__bases__==(cls,)' % P and u(a0.body) == 'cls' and u(a0.orelse) == P) or \
          (t in ('%s.__bases__!=(cls,)' % P, 'not%s.__bases__==(cls,)' % P) and u(a0.orelse) == 'cls' and u(a0.body) == P)
  ctx.check(ok, 'C13.metadata', construct(mcw), 'constructing Gin\'s direct subclass yields an instance of the original class itself',
            'the metaclass call wrapper no longer substitutes the original class for Gin\'s direct subclass', mcw.loc(), instance='instance-of-original')
  gd, fd = std_facts(prog, dec)
  plain = [n for n in gd.live_nodes() if n.kind == 'stmt' and isinstance(n.ast, ast.Assign) and u(n.ast.value) == 'cls_meta.__call__']
  subst = [n for n in gd.live_nodes() if n.kind == 'stmt' and isinstance(n.ast, ast.Assign) and isinstance(n.ast.value, ast.Call)
           and prog.resolve_call(dec, n.ast.value) == 'config._make_meta_call_wrapper']
  if not plain or not subst:
    raise AnalysisError('_decorate_fn_or_cls no longer chooses between `cls_meta.__call__` and `_make_meta_call_wrapper(cls)` in its own body: '
                        'where the choice is made now cannot be read off this function')
  ok = bool(plain) and bool(subst) and all(('c', 'method_overrides', True) in fd[n.id] for n in plain) and \
      all(('c', 'method_overrides', False) in fd[n.id] for n in subst)
  ctx.check(ok, 'C13.metadata', construct(dec), 'the original-class substitution is used exactly when no registered methods need overriding',
            'the choice between plain and substituting metaclass call changed', dec.loc(), instance='no-overrides')

  method_detection(ctx, 'C13.method-detection')
  inverse_lookup(ctx, 'C13.lookup')
  from .common import rehoming_rules
  rehoming_rules(ctx, 'C13.atomic', 'C13.metadata')

  # ---- C13.interactive
  im = ctx.func('config.interactive_mode')
  g3 = prog.cfg(im)
  acq = [n for n in g3.live_nodes() if any(prog.resolve_call(im, c) == 'config.enter_interactive_mode' for c in calls_of_node(n))]
  rel = [n for n in g3.live_nodes() if any(prog.resolve_call(im, c) == 'config.exit_interactive_mode' for c in calls_of_node(n))]
  # the block may also write the flag itself (saving and restoring the previous mode)
  def flag_store(n, on):
    a_ = n.ast if n.kind == 'stmt' else None
    if not (isinstance(a_, ast.Assign) and len(a_.targets) == 1 and u(a_.targets[0]) == '_INTERACTIVE_MODE'):
      return False
    is_true = isinstance(a_.value, ast.Constant) and a_.value.value is True
    return is_true if on else not is_true
  acq += [n for n in g3.live_nodes() if flag_store(n, True)]
  rel += [n for n in g3.live_nodes() if flag_store(n, False)]
  if not acq:
    raise AnalysisError('interactive_mode: no statement that switches interactive mode on was recognised')
  leaks = pair_leaks(g3, [n.id for n in acq], [n.id for n in rel])
  ctx.check(not leaks, 'C13.interactive', construct(im), 'interactive mode is switched off on every exit of the block',
            'interactive mode stays on when the block exits by %s' % (leaks[0][1] if leaks else ''), im.loc(), sites=len(g3.live_nodes()),
            path=describe_path(g3, leaks[0][2]) if leaks and leaks[0][2] else None)
  for q, val in (('config.enter_interactive_mode', True), ('config.exit_interactive_mode', False)):
    f = ctx.func(q)
    ok = any(isinstance(n, ast.Assign) and u(n.targets[0]) == '_INTERACTIVE_MODE' and isinstance(n.value, ast.Constant) and n.value.value is val
             for n in walk_local(f.node)) and any(isinstance(n, ast.Global) and '_INTERACTIVE_MODE' in n.names for n in walk_local(f.node))
    ctx.check(ok, 'C13.interactive', construct(f), 'sets the mode flag to %s' % val, '%s no longer sets the module flag to %s' % (f.name, val), f.loc(), instance='flag')
  ctx.borrow('C11', 'C11.signature', 'C13.atomic')



def method_detection(ctx, rule):
  prog = ctx.prog
  # ---- C13.method-detection: what counts as "a registered method that needs overriding"
  fm = ctx.func('config._find_registered_methods')
  ism = fm.nested.get('is_method')
  if ism is None:
    raise AnalysisError('_find_registered_methods.is_method vanished')
  g5, facts5 = std_facts(prog, ism)
  p5 = ism.params[0]

  def atom_m(e):
    t = u(e).replace(' ', '')
    if t == 'inspect.isfunction(%s)' % p5:
      return 'is_function'
    if t == '%s.__module__==base.__module__' % p5:
      return 'same_module'
    if t == 'getattr(base,%s.__name__,None)==%s' % (p5, p5):
      return 'is_class_attr'
    # (temporaries such as `qualname_parts` are replaced by their definitions in the facts)
    if t == "%s.__qualname__.split('.')[-2]==base.__name__" % p5:
      return 'qual_parent_is_class'
    if t == "len(%s.__qualname__.split('.'))>1" % p5:
      return 'qualified'
    return None
  trues = [n for n in g5.live_nodes() if n.kind == 'return' and isinstance(n.ast.value, ast.Constant) and n.ast.value.value is True]
  ctx.expect_at_least('positive returns of is_method', len(trues), 1)
  qdef_ok = True
  for n in trues:
    miss = facts_imply(facts5[n.id], [('a plain function', 'is_function'), ('defined in the class\'s module', 'same_module'),
                                      ('reachable under its own name on the class', 'is_class_attr'),
                                      ('whose qualified name has the class as parent', 'qualified and qual_parent_is_class')], atom_m)
    ctx.check(not miss and qdef_ok, rule, construct(ism),
              'a class attribute counts as a method to override only if it is a function of the class\'s module, reachable under its own name, whose __qualname__ parent is the class',
              'is_method accepts attributes that are not methods of the class (missing: %s): a registered helper held as a class attribute makes '
              'Gin build a method-overriding subclass, so instances are no longer exactly the original class (and no longer pickle)'
              % ', '.join(l for l, _ in miss), ism.loc(n.ast), instance='is_method')



def inverse_lookup(ctx, rule):
  """Lookup by object: the registry is consulted for the object itself before
  any __wrapped__ step (a registered object may itself carry __wrapped__)."""
  prog = ctx.prog
  f = ctx.func('config._inverse_lookup')
  uw = [c for c in walk_local(f.node) if isinstance(c, ast.Call) and u(c.func) == 'inspect.unwrap']
  ok = False
  why = 'no registry-aware unwrapping found'
  for c in uw:
    stop = [k.value for k in c.keywords if k.arg == 'stop']
    if stop and isinstance(stop[0], ast.Lambda) and isinstance(stop[0].body, ast.Compare) and isinstance(stop[0].body.ops[0], ast.In) \
        and u(stop[0].body.comparators[0]) == '_INVERSE_REGISTRY' and u(stop[0].body.left) == stop[0].args.args[0].arg:
      ok = True
  loops = [n for n in walk_local(f.node) if isinstance(n, ast.While)]
  for lp in loops:
    steps = [b for b in walk_local(lp) if isinstance(b, ast.Assign) and u(b.value).endswith('.__wrapped__')]
    tested_first = ' not in _INVERSE_REGISTRY' in u(lp.test)
    if steps and tested_first:
      ok = True
    elif steps:
      why = 'the hand-written unwrap loop steps to `__wrapped__` before testing whether the current object is registered'
  got = [c for c in walk_local(f.node) if isinstance(c, ast.Call) and u(c.func) == '_INVERSE_REGISTRY.get']
  ctx.check(ok and got, rule, construct(f),
            'an object is looked up in the inverse registry before each step along its __wrapped__ chain',
            'lookup by original object can step over a registered object (%s): a registered function that already carries a functools.wraps '
            'decorator is no longer found through the original object' % why, f.loc(), instance='registry-aware-unwrap')
