#!/venv/bin/python
"""False-alarm probe: behaviour-preserving rewrites of a scratch copy of
/repo/gin, then all 20 quick checks must still exit 0.

modes:
  rename   - consistently rename every local variable (not parameters) of every function: x -> x_rn
  strings  - rewrite every string constant used in a raise / format message
  unparse  - only round-trip through ast.unparse (drops comments, reflows code)
usage: alpha.py <mode> [file.py ...]   (default files: the five core modules)
"""
import ast, os, shutil, subprocess, sys, tempfile

CORE = ['config.py', 'config_parser.py', 'selector_map.py', 'utils.py', 'resource_reader.py']
FN = (ast.FunctionDef, ast.AsyncFunctionDef)


def own_bindings(fn):
  """(params, locals, declared global/nonlocal) of fn's own scope."""
  a = fn.args
  params = {x.arg for x in a.posonlyargs + a.args + a.kwonlyargs}
  if a.vararg: params.add(a.vararg.arg)
  if a.kwarg: params.add(a.kwarg.arg)
  locs, glob = set(), set()
  stack = list(fn.body)
  while stack:
    n = stack.pop()
    if isinstance(n, FN + (ast.ClassDef,)):
      glob.add(n.name)   # nested def/class names are anchors: never renamed
      continue
    if isinstance(n, ast.Lambda):
      continue
    if isinstance(n, (ast.Global, ast.Nonlocal)):
      glob.update(n.names)
    if isinstance(n, ast.Name) and isinstance(n.ctx, (ast.Store, ast.Del)):
      locs.add(n.id)
    if isinstance(n, ast.ExceptHandler) and n.name:
      locs.add(n.name)
    if isinstance(n, (ast.ListComp, ast.SetComp, ast.DictComp, ast.GeneratorExp)):
      # comprehension targets are their own scope; leave them alone
      for g in n.generators:
        stack.append(g.iter)
      continue
    stack.extend(ast.iter_child_nodes(n))
  return params, locs - glob - params, glob


def rename_in(node, mapping):
  """Renames Name ids per mapping in node's subtree, respecting nested scopes that rebind."""
  if isinstance(node, FN):
    p, l, g = own_bindings(node)
    inner = {k: v for k, v in mapping.items() if k not in p and k not in l}
    for d in node.decorator_list: rename_in(d, mapping)
    for d in node.args.defaults + [x for x in node.args.kw_defaults if x]: rename_in(d, mapping)
    for st in node.body: rename_in(st, inner)
    return
  if isinstance(node, ast.Lambda):
    a = node.args
    p = {x.arg for x in a.posonlyargs + a.args + a.kwonlyargs} | ({a.vararg.arg} if a.vararg else set()) | ({a.kwarg.arg} if a.kwarg else set())
    rename_in(node.body, {k: v for k, v in mapping.items() if k not in p})
    return
  if isinstance(node, (ast.ListComp, ast.SetComp, ast.DictComp, ast.GeneratorExp)):
    bound = {x.id for g in node.generators for x in ast.walk(g.target) if isinstance(x, ast.Name)}
    inner = {k: v for k, v in mapping.items() if k not in bound}
    for c in ast.iter_child_nodes(node): rename_in(c, inner)
    return
  if isinstance(node, ast.ClassDef):
    for c in ast.iter_child_nodes(node): rename_in(c, mapping)
    return
  if isinstance(node, ast.Name) and node.id in mapping:
    node.id = mapping[node.id]
  if isinstance(node, ast.ExceptHandler) and node.name in mapping:
    node.name = mapping[node.name]
  if isinstance(node, FN + (ast.ClassDef,)) and False:
    pass
  for c in ast.iter_child_nodes(node):
    rename_in(c, mapping)


def do_rename(tree):
  def visit(fn):
    p, l, g = own_bindings(fn)
    mapping = {x: x + '_rn' for x in l if not (x.startswith('__'))}
    # nested def names are locals too: rename the def itself
    for st in ast.walk(fn):
      pass
    for st in fn.body:
      rename_in(st, mapping)
    # rename nested function/class definitions bound in this scope
    stack = list(fn.body)
    while stack:
      n = stack.pop()
      if isinstance(n, FN + (ast.ClassDef,)):
        if n.name in mapping: n.name = mapping[n.name]
        continue
      stack.extend(ast.iter_child_nodes(n))
    # recurse into nested functions (their own locals)
    stack = list(fn.body)
    while stack:
      n = stack.pop()
      if isinstance(n, FN):
        visit(n); continue
      stack.extend(ast.iter_child_nodes(n))
  for n in tree.body:
    if isinstance(n, FN): visit(n)
    elif isinstance(n, ast.ClassDef):
      for m in n.body:
        if isinstance(m, FN): visit(m)


def do_strings(tree):
  for n in ast.walk(tree):
    if isinstance(n, ast.Raise) or (isinstance(n, ast.Assign) and any('err' in ast.unparse(t) or 'msg' in ast.unparse(t) or 'fmt' in ast.unparse(t) for t in n.targets)):
      for c in ast.walk(n):
        if isinstance(c, ast.Constant) and isinstance(c.value, str) and len(c.value) > 12 and ' ' in c.value:
          c.value = 'Reworded: ' + c.value


def do_swapif(tree):
  """if c: A else: B  ->  if not c: B else: A   (only plain if/else, no elif chains)"""
  for n in ast.walk(tree):
    if isinstance(n, ast.If) and n.orelse and not (len(n.orelse) == 1 and isinstance(n.orelse[0], ast.If)):
      n.test = ast.UnaryOp(op=ast.Not(), operand=n.test)
      n.body, n.orelse = n.orelse, n.body


def do_elseify(tree):
  """if c: ...return/raise ; REST   ->   if c: ...return/raise else: REST"""
  def term(st):
    return isinstance(st, (ast.Return, ast.Raise, ast.Continue, ast.Break))
  for n in ast.walk(tree):
    for fld in ('body', 'orelse', 'finalbody'):
      body = getattr(n, fld, None)
      if not isinstance(body, list) or isinstance(n, ast.If) and fld == 'orelse' and len(body) == 1 and isinstance(body[0], ast.If):
        continue
      for i, st in enumerate(body):
        if isinstance(st, ast.If) and not st.orelse and st.body and term(st.body[-1]) and i + 1 < len(body):
          rest = body[i + 1:]
          if any(isinstance(r, (ast.FunctionDef, ast.ClassDef)) for r in rest):
            continue
          st.orelse = rest
          del body[i + 1:]
          break


def do_fstring(tree):
  """'..{}..'.format(a, b) with plain positional fields  ->  f'..{a}..{b}..'  (every occurrence)."""
  import re
  class T(ast.NodeTransformer):
    def visit_Call(self, n):
      self.generic_visit(n)
      if isinstance(n.func, ast.Attribute) and n.func.attr == 'format' and isinstance(n.func.value, ast.Constant) and isinstance(n.func.value.value, str) \
          and not n.keywords and n.args and not any(isinstance(a, ast.Starred) for a in n.args):
        tmpl = n.func.value.value
        parts = re.split(r'(\{\{|\}\}|\{\})', tmpl)
        if any(('{' in x or '}' in x) and x not in ('{{', '}}', '{}') for x in parts) or parts.count('{}') != len(n.args):
          return n
        vals, k = [], 0
        for x in parts:
          if x == '{}':
            vals.append(ast.FormattedValue(value=n.args[k], conversion=-1, format_spec=None)); k += 1
          elif x:
            vals.append(ast.Constant(value=x.replace('{{', '{').replace('}}', '}')))
        return ast.copy_location(ast.JoinedStr(values=vals), n)
      return n
  T().visit(tree)


def do_hints(tree):
  """Adds `-> Any`-style annotations to every un-annotated parameter and return of every function."""
  for n in ast.walk(tree):
    if isinstance(n, FN):
      for a in n.args.posonlyargs + n.args.args + n.args.kwonlyargs:
        if a.annotation is None and a.arg not in ('self', 'cls'):
          a.annotation = ast.Constant(value='Any')
      if n.returns is None and n.name != '__init__':
        n.returns = ast.Constant(value='Any')


def do_guard(tree):
  """for ...: if c: BODY   ->   for ...: if not c: continue; BODY     (loop bodies that are one plain `if` without else)"""
  for n in ast.walk(tree):
    if isinstance(n, (ast.For, ast.While)) and len(n.body) == 1 and isinstance(n.body[0], ast.If) and not n.body[0].orelse and not n.orelse:
      i = n.body[0]
      n.body = [ast.If(test=ast.UnaryOp(op=ast.Not(), operand=i.test), body=[ast.Continue()], orelse=[])] + i.body


def do_kwcalls(tree):
  """Calls of module-level functions of the same file with simple positional arguments -> keyword arguments (after the first)."""
  sigs = {}
  for st in tree.body:
    if isinstance(st, ast.FunctionDef) and not st.args.vararg and not st.args.posonlyargs and not st.decorator_list:
      sigs[st.name] = [a.arg for a in st.args.args]
  for n in ast.walk(tree):
    if isinstance(n, ast.Call) and isinstance(n.func, ast.Name) and n.func.id in sigs and not n.keywords and len(n.args) >= 2 \
        and not any(isinstance(a, ast.Starred) for a in n.args) and len(n.args) <= len(sigs[n.func.id]):
      ps = sigs[n.func.id]
      n.keywords = [ast.keyword(arg=ps[i], value=a) for i, a in enumerate(n.args) if i >= 1]
      n.args = n.args[:1]


def do_annassign(tree):
  """`self.x = v` in __init__ and single-name assignments in functions -> annotated assignments `x: 'Any' = v`."""
  class T(ast.NodeTransformer):
    def __init__(self): self.depth = 0
    def visit_FunctionDef(self, n):
      self.depth += 1
      old = getattr(self, 'glob', set())
      self.glob = {x for g in ast.walk(n) if isinstance(g, (ast.Global, ast.Nonlocal)) for x in g.names}
      self.generic_visit(n)
      self.glob = old
      self.depth -= 1
      return n
    def visit_Assign(self, n):
      if self.depth and len(n.targets) == 1 and not (isinstance(n.targets[0], ast.Name) and n.targets[0].id in self.glob) and isinstance(n.targets[0], (ast.Name, ast.Attribute)) and not isinstance(n.value, ast.Tuple):
        return ast.copy_location(ast.AnnAssign(target=n.targets[0], annotation=ast.Constant(value='Any'), value=n.value, simple=int(isinstance(n.targets[0], ast.Name))), n)
      return n
  T().visit(tree)


def do_attrs(tree):
  """Renames one private instance attribute per class (the first one stored in the class): self._x -> self._x_rn, everywhere in the file."""
  for st in tree.body:
    if isinstance(st, ast.ClassDef):
      first = None
      for m in st.body:
        if isinstance(m, FN) and m.args.args:
          for n in ast.walk(m):
            if isinstance(n, ast.Attribute) and isinstance(n.ctx, ast.Store) and isinstance(n.value, ast.Name) and n.value.id == m.args.args[0].arg \
                and n.attr.startswith('_') and not n.attr.startswith('__'):
              first = first or n.attr
      if first:
        for n in ast.walk(tree):
          if isinstance(n, ast.Attribute) and n.attr == first:
            n.attr = first + '_rn'
          elif isinstance(n, ast.Constant) and n.value == first:
            n.value = first + '_rn'


def do_params(tree):
  """Renames the parameters of private module-level functions (`_f(a, b)` -> `_f(a_rn, b_rn)`), keyword call sites updated."""
  priv = {}
  for st in tree.body:
    if isinstance(st, ast.FunctionDef) and st.name.startswith('_') and not st.name.startswith('__') and not st.decorator_list \
        and not st.args.vararg and not st.args.kwarg:
      ps = [a.arg for a in st.args.posonlyargs + st.args.args + st.args.kwonlyargs]
      glob = {x for g in ast.walk(st) if isinstance(g, (ast.Global, ast.Nonlocal)) for x in g.names}
      if set(ps) & glob:
        continue
      priv[st.name] = (st, ps)
  for name, (fn, ps) in priv.items():
    mapping = {p_: p_ + '_rn' for p_ in ps}
    for a in fn.args.posonlyargs + fn.args.args + fn.args.kwonlyargs:
      a.arg = mapping[a.arg]
    for st in fn.body:
      rename_in(st, mapping)
    # nested functions see the parameters as free variables
    for n in ast.walk(fn):
      if isinstance(n, FN) and n is not fn:
        own = {a.arg for a in ast.walk(n.args) if isinstance(a, ast.arg)} | {x.id for x in ast.walk(n) if isinstance(x, ast.Name) and isinstance(x.ctx, ast.Store)}
        for x in ast.walk(n):
          if isinstance(x, ast.Name) and x.id in mapping and x.id not in own:
            x.id = mapping[x.id]
  for n in ast.walk(tree):
    if isinstance(n, ast.Call) and isinstance(n.func, ast.Name) and n.func.id in priv:
      for k in n.keywords:
        if k.arg in priv[n.func.id][1]:
          k.arg = k.arg + '_rn'


def main():
  mode = sys.argv[1]
  files = sys.argv[2:] or CORE
  tmp = tempfile.mkdtemp(prefix='ginsa_alpha_')
  try:
    shutil.copytree('/repo/gin', os.path.join(tmp, 'gin'), ignore=shutil.ignore_patterns('__pycache__'))
    for f in files:
      p = os.path.join(tmp, 'gin', f)
      tree = ast.parse(open(p).read())
      if mode == 'rename': do_rename(tree)
      elif mode == 'strings': do_strings(tree)
      elif mode == 'swapif': do_swapif(tree)
      elif mode == 'fstring': do_fstring(tree)
      elif mode == 'hints': do_hints(tree)
      elif mode == 'params': do_params(tree)
      elif mode == 'attrs': do_attrs(tree)
      elif mode == 'annassign': do_annassign(tree)
      elif mode == 'guard': do_guard(tree)
      elif mode == 'kwcalls': do_kwcalls(tree)
      elif mode == 'elseify':
        for _ in range(6): do_elseify(tree)
      src = ast.unparse(ast.fix_missing_locations(tree))
      compile(src, p, 'exec')
      open(p, 'w').write(src + '\n')
    # sanity: the rewritten package still passes its own test-suite
    if '--test' in os.environ.get('ALPHA_OPTS', ''):
      shutil.copytree('/repo/tests', os.path.join(tmp, 'tests'))
      r = subprocess.run(['/venv/bin/python', '-m', 'pytest', '-q', '-p', 'no:cacheprovider', '-x', 'tests/config_test.py', 'tests/config_parser_test.py', 'tests/selector_map_test.py',
                          '--deselect', 'tests/config_test.py::ConfigTest::testConfigStrDynamicRegistration'], cwd=tmp, capture_output=True, text=True)
      print('tests on rewritten copy:', r.stdout.strip().splitlines()[-1])
    r = subprocess.run(['/verif/tools/all.py', 'quick', '--repo', tmp, '--no-write'], capture_output=True, text=True)
    for l in r.stdout.splitlines():
      if ' exit 0 ' not in l: print(l[:600])
    print('mode', mode, 'files', files, '->', 'ALL PASS' if r.returncode == 0 else 'SOME FAIL')
    if os.environ.get('ALPHA_KEEP'): print('kept', tmp); return
  finally:
    if not os.environ.get('ALPHA_KEEP'): shutil.rmtree(tmp, ignore_errors=True)
main()
