#!/venv/bin/python
"""rf_detail.py <refactor-id> [props...]: apply a kept refactoring to /repo, print the alarm lines, restore."""
import json, subprocess, sys, os
rid = sys.argv[1]
d = '/verif/refactors/' + rid
if not os.path.isdir(d):
  d = '/verif/seeded/' + rid
def sh(c): return subprocess.run(c, shell=True, capture_output=True, text=True)
props = sys.argv[2:]
if not props:
  meta = json.load(open(d + '/meta.json'))
  props = sorted(meta.get('alarms_now') or meta.get('alarms_first_run') or {})
assert sh('git -C /repo status --porcelain --untracked-files=no').stdout.strip() == ''
assert sh('git -C /repo apply %s/patch.diff' % d).returncode == 0
try:
  for p in props:
    r = sh('/verif/check %s --no-write' % p)
    out = [l for l in r.stdout.splitlines() if 'rule=' in l or l.strip().startswith('at ') or 'ANALYSIS-ERROR' in l or 'Traceback' in l or 'File "' in l or 'Error' in l]
    print('==', rid, p, 'exit', r.returncode)
    print('\n'.join(x[:700] for x in out))
    if r.returncode == 2: print(r.stderr[-1500:])
finally:
  sh('git -C /repo checkout -- .')
