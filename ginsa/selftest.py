"""Seeded-variant self-test (DESIGN.md section 8), run by the thorough tier.

Each seed is a small textual edit of /repo/gin (located by its unique text,
never by line number) that breaks one rule instance while the package still
compiles.  The edit is applied to a scratch copy under a fresh temporary
directory outside /repo and /verif, the property's rules are run on it, and
the copy is removed.  A seed whose text no longer occurs (because /repo was
edited) is skipped and counted; a seed that applies but is not reported by
the expected rule is a checker defect.
"""
import concurrent.futures
import importlib
import os
import shutil
import tempfile

from .core import REPO


def load_seeds(pid):
  try:
    mod = importlib.import_module('seeds.' + pid.lower())
  except ImportError:
    return []
  return list(mod.SEEDS)


def apply_seed(seed, repo=None):
  """Returns path of scratch repo copy, or None if not applicable."""
  src = os.path.join(repo or REPO, 'gin')
  tmp = tempfile.mkdtemp(prefix='ginsa_seed_')
  shutil.copytree(src, os.path.join(tmp, 'gin'), ignore=shutil.ignore_patterns('__pycache__'))
  for rel, old, new in seed['edits']:
    p = os.path.join(tmp, 'gin', rel)
    with open(p) as f:
      s = f.read()
    if s.count(old) != 1:
      shutil.rmtree(tmp, ignore_errors=True)
      return None
    s = s.replace(old, new)
    try:
      compile(s, p, 'exec')
    except SyntaxError:
      shutil.rmtree(tmp, ignore_errors=True)
      return None
    with open(p, 'w') as f:
      f.write(s)
  return tmp


def run_seed(args):
  pid, seed, repo = args
  from .report import run_property
  tmp = apply_seed(seed, repo)
  if tmp is None:
    return dict(name=seed['name'], status='skipped', detail='edit text not found in the current tree')
  try:
    code, obs, out = run_property(pid, 'quick', 0, tmp, write=False, quiet=True)
    if code == 2:
      return dict(name=seed['name'], status='analysis-error', detail=out[-1][:300] if out else '')
    bad = [o for o in obs if not o.ok]
    hit = [o for o in bad if o.rule == seed['rule']]
    if hit:
      return dict(name=seed['name'], status='reported', rule=seed['rule'], construct=hit[0].construct,
                  detail=hit[0].what[:200])
    return dict(name=seed['name'], status='MISSED', rule=seed['rule'],
                detail='violations reported by: %s' % sorted({o.rule for o in bad}))
  finally:
    shutil.rmtree(tmp, ignore_errors=True)


def load_seeded(pid):
  """Independently produced breaking changes kept under /verif/seeded/<pid><x>/."""
  import glob
  import json
  root = os.path.join(os.path.dirname(os.path.dirname(os.path.abspath(__file__))), 'seeded')
  out = []
  for d in sorted(glob.glob(os.path.join(root, pid + '?'))):
    try:
      meta = json.load(open(os.path.join(d, 'meta.json')))
    except Exception:
      continue
    now = meta.get('checks_that_report_it_now', {}).get(pid, {})
    if now.get('exit') != 1:
      continue   # recorded miss (documented in DESIGN.md), not part of the self-test
    out.append(dict(name='seeded/' + os.path.basename(d), patch=os.path.join(d, 'patch.diff'), rules=now.get('rules', [])))
  return out


def run_seeded(args):
  pid, item, repo = args
  import subprocess
  from .report import run_property
  src = os.path.join(repo or REPO, 'gin')
  tmp = tempfile.mkdtemp(prefix='ginsa_seeded_')
  try:
    shutil.copytree(src, os.path.join(tmp, 'gin'), ignore=shutil.ignore_patterns('__pycache__'))
    r = subprocess.run(['patch', '-p1', '-s', '-f', '-d', tmp, '-i', item['patch']], capture_output=True, text=True)
    if r.returncode != 0:
      return dict(name=item['name'], status='skipped', detail='patch does not apply to the current tree')
    code, obs, out = run_property(pid, 'quick', 0, tmp, write=False, quiet=True)
    if code == 2:
      return dict(name=item['name'], status='analysis-error', detail=out[-1][:300] if out else '')
    bad = sorted({o.rule for o in obs if not o.ok})
    if code == 1:
      return dict(name=item['name'], status='reported', rule=','.join(bad)[:200], detail='')
    return dict(name=item['name'], status='MISSED', rule=','.join(item['rules']), detail='no violation reported')
  finally:
    shutil.rmtree(tmp, ignore_errors=True)


def selftest(pid, repo=None, jobs=None):
  seeds = load_seeds(pid)
  seeded = load_seeded(pid)
  if seeded:
    with concurrent.futures.ProcessPoolExecutor(max_workers=min(16, len(seeded))) as ex:
      seeded_results = list(ex.map(run_seeded, [(pid, s, repo) for s in seeded]))
  else:
    seeded_results = []
  if not seeds:
    return dict(seeds=len(seeded), results=seeded_results)
  jobs = jobs or min(16, len(seeds))
  with concurrent.futures.ProcessPoolExecutor(max_workers=jobs) as ex:
    results = list(ex.map(run_seed, [(pid, s, repo) for s in seeds]))
  return dict(seeds=len(seeds) + len(seeded), results=results + seeded_results)
