from _common import *
class E(Exception):
  def __new__(cls, code): return super().__new__(cls, code)
  def __init__(self, code): self.code = code
@gin.configurable
def f(): raise E(3)
try: f()
except E as e: done(False, "E(3) arrives as E")
except TypeError as e: done(True, "exception class with required __new__ arg arrives as TypeError: %s" % e)
