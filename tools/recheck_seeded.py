#!/venv/bin/python
"""Re-runs every quick check against every kept seeded change (patch applied to
a scratch worktree of /repo, tools/scratch.py) and records the result
in seeded/<id>/meta.json (key checks_that_report_it_now) and seeded/SUMMARY.md."""
import concurrent.futures, glob, json, os, subprocess, sys
sys.path.insert(0, os.path.dirname(os.path.abspath(__file__)))
from scratch import scratch
def sh(cmd): return subprocess.run(cmd, shell=True, capture_output=True, text=True)
def run(a):
  p, wt = a
  r = subprocess.run(['/verif/check', p, '--no-write', '--repo', wt], capture_output=True, text=True)
  rules = sorted({l.split('rule=')[1].split()[0] for l in r.stdout.splitlines() if 'rule=' in l})
  return p, r.returncode, rules
rows = []
only = sys.argv[1:]
for d in sorted(glob.glob('/verif/seeded/C*')):
  sid = os.path.basename(d)
  if only and sid not in only: continue
  with scratch(d + '/patch.diff') as (wt, applied):
    if not applied: rows.append((sid, 'APPLY-FAIL', {}, {})); continue
    with concurrent.futures.ThreadPoolExecutor(16) as ex:
      res = {p: (c, rules) for p, c, rules in ex.map(run, [('C%02d' % i, wt) for i in range(1, 21)]) if c != 0}
  meta = json.load(open(d + '/meta.json'))
  first = meta.get('checks_that_report_it', {})
  meta['checks_that_report_it_now'] = {p: {'exit': c, 'rules': r} for p, (c, r) in res.items()}
  json.dump(meta, open(d + '/meta.json', 'w'), indent=1)
  rows.append((sid, meta.get('summary', ''), first, res))
  print(sid, {p: c for p, (c, r) in res.items()})
with open('/verif/seeded/SUMMARY.md', 'w') as f:
  f.write('# Independently produced breaking changes (sub-agents) and the checks that report them\n\n')
  f.write('Each change was confirmed in a fresh scratch worktree (demo exits 0 clean / 1 patched; 128 stable tests unchanged).\n')
  f.write('"first run" = the checks as they were when the change arrived; "now" = after the strengthening it prompted.\n\n')
  f.write('| id | change | first run: own property / others | now: rules of the own property that report it | other checks now |\n|---|---|---|---|---|\n')
  for sid, summ, first, res in rows:
    pid = sid[:3]
    f_own = 'exit %s' % first[pid]['exit'] if pid in first else 'missed'
    f_oth = ', '.join('%s' % p for p in first if p != pid) or '-'
    own = ', '.join(res[pid][1]) if pid in res and res[pid][0] == 1 else ('exit %s' % res[pid][0] if pid in res else 'MISSED')
    oth = ', '.join(p for p in res if p != pid) or '-'
    f.write('| %s | %s | %s / %s | %s | %s |\n' % (sid, summ.replace('|', '/')[:160], f_own, f_oth, own, oth))
