from ._h import S
C = 'config.py'
SEEDS = [
  S('defaults-not-copied', 'C07.record', C, "    operative_parameter_values = initial_configurable_defaults.copy()", "    operative_parameter_values = initial_configurable_defaults"),
  S('bindings-not-recorded', 'C07.record', C, "    operative_parameter_values.update(new_kwargs)\n", ""),
  S('record-after-evaluation', 'C07.record', C, "    operative_parameter_values.update(new_kwargs)\n", "    operative_parameter_values.update(copy.deepcopy(new_kwargs))\n", 'evaluated results recorded').copy(),
  S('keyword-supplied-recorded', 'C07.record', C, "    for k in kwargs:\n      if k not in caller_required_kwargs:\n        operative_parameter_values.pop(k, None)\n", ""),
  S('positional-supplied-recorded', 'C07.record', C, "    for k in arg_names:\n      if k not in required_arg_names:\n        operative_parameter_values.pop(k, None)\n", "    for k in arg_names:\n      if k in required_arg_names:\n        operative_parameter_values.pop(k, None)\n"),
  S('record-replaced-not-merged', 'C07.record', C, "      op_cfg.update(operative_parameter_values)", "      op_cfg.clear()\n      op_cfg.update(operative_parameter_values)"),
  S('record-key-without-scope', 'C07.record', C, "      op_cfg = _OPERATIVE_CONFIG.setdefault((scope_str, current_selector), {})", "      op_cfg = _OPERATIVE_CONFIG.setdefault(('', current_selector), {})"),
  S('denylist-clause-dropped', 'C07.defaults', C, "    if allowlist_fail or denylist_fail or not representable:", "    if allowlist_fail or not representable:"),
  S('allowlist-inverted', 'C07.defaults', C, "    allowlist_fail = allowlist and k not in allowlist", "    allowlist_fail = allowlist and k in allowlist"),
  S('unrepresentable-defaults-kept', 'C07.defaults', C, "    if allowlist_fail or denylist_fail or not representable:", "    if allowlist_fail or denylist_fail:"),
  S('constants-get-sections', 'C07.sections', C, "      if configurable_.wrapped in (macro, _retrieve_constant):  # pylint: disable=comparison-with-callable\n        continue\n", ""),
  S('macro-value-unchecked', 'C07.present', C, "      if 'value' not in config:\n        continue  # The macro was used (in a failed call) but never bound.\n", "", 'F4 re-introduced'),
]
