"""C19 Dynamic registration resolves names through the file's own imports."""
import ast

from ..cfg import witness
from ..core import AnalysisError, u, walk_local, enclosing_stmt
from ..lib import (construct, std_facts, def_of, facts_at, calls_of_node,
                   returns_of, in_subtree, kwarg, copy_kind, facts_imply, expand_expr, format_sites)
from ..resolve import store_accesses
from .common import allowed_stores, instance_state

PCX = 'config.ParseContext'


def en_nodes_region(g, en, n):
  """`n` if it shares its guard with one of the enabling nodes (same statement list), else nothing."""
  par = getattr(n.ast, 'parent', None)
  return [n] if any(getattr(e.ast, 'parent', None) is par for e in en) else []


def run(ctx):
  prog = ctx.prog
  c = ctx.cls(PCX)
  ccon = 'gin/config.py::ParseContext'
  # ---- C19.per-file
  instance_state(ctx, 'C19.per-file', PCX, {'_import_manager', '_imports', '_symbol_table', '_symbol_source', '_dynamic_registration'},
                 'a per-context cache of resolved names goes stale when configuring a method re-registers its class (existing references '
                 'are re-initialised through get_configurable and must see the new registration)')
  allowed_stores(ctx, 'C19.own-imports', {PCX + '.get_configurable': {'_REGISTRY'}, PCX + '._resolve_selector': set(),
                                          PCX + '.process_import': set()},
                 'dynamic names resolve only through this file\'s own symbol table')
  init = c.methods['__init__']
  tables = {}
  for n in walk_local(init.node):
    if isinstance(n, ast.Assign) and isinstance(n.targets[0], ast.Attribute) and u(n.targets[0].value) == 'self':
      tables[n.targets[0].attr] = n.value
  for name in ('_imports', '_symbol_table', '_symbol_source'):
    v = tables.get(name)
    ctx.check(v is not None and copy_kind(v) == 'FRESH' and isinstance(v, (ast.List, ast.Dict)), 'C19.per-file', ccon,
              '%s is a fresh per-instance table' % name, '%s is initialised from `%s`: files would share one table' % (name, u(v) if v is not None else None),
              init.loc(), instance=name)
  shared = [n for n, v, st in c.class_level_assigns() if v is not None and not isinstance(v, ast.Constant)]
  ctx.check(not shared, 'C19.per-file', ccon, 'no class-level mutable attribute', 'class-level attribute(s) %s are shared by every file\'s context' % shared,
            'gin/config.py:%d' % c.node.lineno, instance='class-attrs')
  pc = ctx.func('config.parse_config')
  withs = [it for n in walk_local(pc.node) if isinstance(n, ast.With) for it in n.items
           if isinstance(it.context_expr, ast.Call) and prog.resolve_call(pc, it.context_expr) == 'config._parse_scope']
  ok = len(withs) == 1 and not withs[0].context_expr.args and not withs[0].context_expr.keywords and withs[0].optional_vars is not None
  ctx.check(ok, 'C19.per-file', construct(pc), 'every parse call (hence every included file) opens its own parse context',
            'parse_config no longer opens a fresh parse scope per call', pc.loc(), instance='per-parse')
  ps = ctx.func('config._parse_scope')
  fresh = [cc for cc in walk_local(ps.node) if isinstance(cc, ast.Call) and prog.resolve_call(ps, cc) == PCX]
  ctx.check(bool(fresh), 'C19.per-file', construct(ps), 'the scope constructs a new ParseContext', '_parse_scope reuses a context', ps.loc(), instance='new-context')
  ctxvar = u(withs[0].optional_vars) if withs and withs[0].optional_vars is not None else None
  uses = [cc for cc in walk_local(pc.node) if isinstance(cc, ast.Call) and isinstance(cc.func, ast.Attribute) and cc.func.attr in ('process_import', 'get_configurable')]
  ctx.check(bool(uses) and all(u(cc.func.value) == ctxvar for cc in uses), 'C19.per-file', construct(pc), 'imports are processed in, and block targets resolved through, this parse\'s own context',
            'imports / block targets use %s, not the context opened for this parse' % sorted({u(cc.func.value) for cc in uses}), pc.loc(), instance='own-context')

  # ---- C19.own-imports
  gc = c.methods['get_configurable']
  g, facts = std_facts(prog, gc)
  _, acc = store_accesses(prog, 'config', ['_REGISTRY'])
  dyn_reg = []
  for a in acc:
    if a.func is gc:
      fs = facts_at(g, facts, enclosing_stmt(a.node)) or frozenset()
      if ('c', 'self._dynamic_registration', False) not in fs:
        dyn_reg.append(a)
  ctx.check(not dyn_reg, 'C19.own-imports', construct(gc), 'under dynamic registration the static registry\'s suffix matching is not consulted',
            'the dynamic branch falls back to the static registry at %s: a name not provided by the file\'s own imports would resolve anyway'
            % [a.loc() for a in dyn_reg], gc.loc(), instance='no-registry')
  rs = [n for n in g.live_nodes() if any(prog.resolve_call(gc, cc) == PCX + '._resolve_selector' for cc in calls_of_node(n))]
  ok = bool(rs) and all(('c', 'self._dynamic_registration', True) in facts[n.id] for n in rs)
  ctx.check(ok, 'C19.own-imports', construct(gc), 'dynamic names are resolved by _resolve_selector', 'the dynamic branch no longer resolves through _resolve_selector', gc.loc(), instance='resolver')
  rsf = c.methods['_resolve_selector']
  g2, facts2 = std_facts(prog, rsf)
  # every read of the symbol table: .get(K, ...), [K], K in ...
  lookups = []
  for n in walk_local(rsf.node):
    if isinstance(n, ast.Call) and u(n.func) == 'self._symbol_table.get' and n.args:
      lookups.append((n, n.args[0]))
    elif isinstance(n, ast.Subscript) and u(n.value) == 'self._symbol_table' and isinstance(n.ctx, ast.Load):
      lookups.append((n, n.slice))
    elif isinstance(n, ast.Compare) and len(n.ops) == 1 and isinstance(n.ops[0], (ast.In, ast.NotIn)) and u(n.comparators[0]) == 'self._symbol_table':
      lookups.append((n, n.left))
  others = [n for n in walk_local(rsf.node) if isinstance(n, ast.Name) and n.id in ('_REGISTRY', '_PARSE_CONTEXTS', 'globals', 'sys')]
  nameerr = [n for n in g2.live_nodes() if n.kind == 'raise_stmt' and isinstance(n.ast.exc, ast.Call) and u(n.ast.exc.func) == 'NameError']

  def first_component(n, key):
    fs = None
    for cn in g2.live_nodes():
      if cn.ast is not None and cn.kind in ('stmt', 'test', 'return', 'raise_stmt') and in_subtree(n, cn.ast):
        fs = facts2[cn.id] if fs is None else (fs & facts2[cn.id])
    return u(expand_expr(fs or frozenset(), key)).replace(' ', '') in ("selector.split('.')[0]", 'attr_names[0]') or \
        (isinstance(key, ast.Name) and first_of_split(fs or frozenset(), key.id))
  def first_of_split(fs, name):
    d = (def_of(fs, name) or '').replace(' ', '')
    if not (d.startswith('unpack[0](') and d.endswith(')')):
      return False
    inner = d[len('unpack[0]('):-1]
    if inner == "selector.split('.')":
      return True
    try:
      return u(expand_expr(fs, ast.parse(inner, mode='eval').body)).replace(' ', '') == "selector.split('.')"
    except SyntaxError:
      return False
  def on_miss(n):
    fs = facts2[n.id]
    for fct in fs:
      if fct[0] != 'c':
        continue
      t = fct[1].replace(' ', '')
      if fct[2] is False and t.endswith('inself._symbol_table'):
        return True
      if fct[2] is True and ' is ' in fct[1]:
        l_, r_ = [x.strip() for x in fct[1].split(' is ', 1)]
        d = def_of(fs, l_) or ''
        if d.startswith('self._symbol_table.get(') and d.rstrip(')').endswith(r_):
          return True
    return False
  ok = bool(lookups) and not others and bool(nameerr) and all(first_component(n, k) for n, k in lookups) and all(on_miss(n) for n in nameerr)
  ctx.check(ok, 'C19.own-imports', construct(rsf), 'the first component is looked up only in this context\'s symbol table; a miss is a NameError',
            'first-component lookup changed (lookups: %s, other sources: %s)' % ([u(x) for x, _k in lookups], [x.id for x in others]), rsf.loc(), instance='first-component')
  chain = [n for n in walk_local(rsf.node) if isinstance(n, ast.Call) and u(n.func) == 'getattr' and len(n.args) == 3]
  aerr = any(isinstance(n, ast.Raise) and isinstance(n.exc, ast.Call) and u(n.exc.func) == 'AttributeError' for n in walk_local(rsf.node))
  ctx.check(bool(chain) and aerr, 'C19.own-imports', construct(rsf), 'later components are followed as attributes; a miss is an AttributeError',
            'attribute-chain resolution changed', rsf.loc(), instance='attributes')

  lk = [cc for cc in walk_local(gc.node) if isinstance(cc, ast.Call) and prog.resolve_call(gc, cc) == 'config._inverse_lookup']
  okx = bool(lk) and all(len(cc.args) == 1 and not any(k.arg == 'allow_decorators' and not (isinstance(k.value, ast.Constant) and k.value.value is False) for k in cc.keywords)
                         for cc in lk)
  ctx.check(okx, 'C19.exact-object', construct(gc), 'the resolved object itself is looked up (decorated wrappers of a registered function are objects of their own)',
            'the lookup of the resolved object accepts decorators of an already registered function: a name that resolves to a functools.wraps wrapper is '
            'configured as the inner function, not as the exact object the name denotes', gc.loc(), instance='lookup-exact')
  msf = ctx.func('config.ImportManager.minimal_selector')
  g_ms, f_ms = std_facts(prog, msf)
  # the name part of the emitted `<module selector>.<name>`
  parts = {u(ops[1]) for r in returns_of(msf) if r.value is not None for _n, tmpl, ops in format_sites(r.value) if tmpl == '{}.{}' and len(ops) == 2}
  nm = [a for a in walk_local(msf.node) if isinstance(a, ast.Assign) and len(a.targets) == 1 and u(a.targets[0]) in parts]
  okq = bool(nm) and all(u(expand_expr(facts_at(g_ms, f_ms, a) or frozenset(), a.value)) == 'configurable_.wrapped.__qualname__' for a in nm)
  ctx.check(okq, 'C19.unique-names', construct(msf), 'without an import source a selector is <module selector>.<__qualname__> (nested classes and methods keep their path)',
            'emitted selectors use `%s` instead of the qualified name: nested classes / methods are emitted as names that do not resolve' % [u(a.value) for a in nm],
            msf.loc(), instance='qualname')
  # ---- C19.guards
  pi = c.methods['process_import']
  g3, facts3 = std_facts(prog, pi)
  rz = [n for n in g3.live_nodes() if n.kind == 'raise_stmt']
  conds = {n.id: {(f[1], f[2]) for f in facts3[n.id] if f[0] == 'c'} for n in rz}
  def has(pred):
    return any(pred(cs) for cs in conds.values())
  ctx.check(has(lambda cs: ('statement.alias', True) in cs and any(t.startswith('statement.is_from and') or t == 'statement.is_from' for t, p in cs if p)),
            'C19.guards', construct(pi), 'an aliased __gin__ import is rejected', 'aliased __gin__ imports are no longer rejected', pi.loc(), instance='aliased-enable')
  # "this is the dynamic_registration feature", in either spelling (the part after `__gin__.`, or the whole module path)
  def is_dr(cs, pol):
    return ("feature == 'dynamic_registration'", pol) in cs or ("statement.module == '__gin__.dynamic_registration'", pol) in cs \
        or ("'dynamic_registration' == feature", pol) in cs or ("'__gin__.dynamic_registration' == statement.module", pol) in cs
  ctx.check(has(lambda cs: ('self._imports', True) in cs and is_dr(cs, True)),
            'C19.guards', construct(pi), 'enabling dynamic registration after another import is rejected', 'a late enabling statement is no longer rejected', pi.loc(), instance='late-enable')
  def switches_on(fn_node):
    return any(isinstance(a, ast.Assign) and any(u(t) == 'self._dynamic_registration' for t in a.targets) and u(a.value) == 'True'
               for a in walk_local(fn_node))
  enablers = {m_.qual for m_ in c.methods.values() if m_ is not pi and switches_on(m_.node)}
  en = [n for n in g3.live_nodes() if any(prog.resolve_call(pi, cc) in enablers for cc in calls_of_node(n)) or
        (n.kind == 'stmt' and isinstance(n.ast, ast.Assign) and any(u(t) == 'self._dynamic_registration' for t in n.ast.targets) and u(n.ast.value) == 'True')]
  def atom_pi(e):
    t = u(e)
    if t == 'self._imports':
      return 'has_imports'
    if t == 'statement.alias':
      return 'aliased'
    return None
  miss = []
  for n in en:
    miss += facts_imply(facts3[n.id], [('no earlier import', 'not has_imports'), ('not aliased', 'not aliased')], atom_pi)
  ctx.check(bool(en) and not miss, 'C19.guards', construct(pi), 'dynamic registration is switched on only by an un-aliased statement that precedes every other import',
            'dynamic registration can be switched on although: %s' % ', '.join(l for l, _ in miss) if miss else 'the enabling statement no longer enables dynamic registration',
            pi.loc(), instance='enable-conditions')
  ctx.check(has(lambda cs: is_dr(cs, False)),
            'C19.guards', construct(pi), 'an unknown __gin__ feature is rejected', 'unknown __gin__ features are no longer rejected', pi.loc(), instance='unknown-feature')
  def _feature_whole():
    # the feature compared is *everything* after `__gin__.` (so `__gin__.dynamic_registration.x` is an unknown feature, not the known one)
    fdefs = [a for a in walk_local(pi.node) if isinstance(a, ast.Assign) and any(
        (isinstance(t, ast.Name) and t.id == 'feature') or (isinstance(t, ast.Tuple) and any(isinstance(e, ast.Name) and e.id == 'feature' for e in t.elts))
        for t in a.targets)]
    for a in fdefs:
      t0 = a.targets[0]
      v = a.value
      vt = u(v).replace(' ', '').replace('"', "'")
      M = 'statement.module'
      verdict = None
      if isinstance(t0, ast.Tuple):
        idx = [i for i, e in enumerate(t0.elts) if isinstance(e, ast.Name) and e.id == 'feature'][0]
        if len(t0.elts) == 2 and idx == 1 and vt in ("%s.split('.',maxsplit=1)" % M, "%s.split('.',1)" % M):
          verdict = True
        elif len(t0.elts) == 3 and idx == 2 and vt == "%s.partition('.')" % M:
          verdict = True
        elif 'rsplit' in vt or 'rpartition' in vt:
          verdict = False
      else:
        if vt in ("%s.split('.',maxsplit=1)[1]" % M, "%s.split('.',1)[1]" % M, "%s.partition('.')[2]" % M, "%s[len('__gin__.'):]" % M, "%s[8:]" % M,
                  "%s.removeprefix('__gin__.')" % M, "%s.split('.',maxsplit=1)[-1]" % M, "%s.split('.',1)[-1]" % M):
          verdict = True
        elif vt in ("%s.split('.')[1]" % M, "%s.split('.')[-1]" % M) or 'rsplit' in vt or 'rpartition' in vt:
          verdict = False
      if verdict is None:
        raise AnalysisError('process_import derives the __gin__ feature as `%s`: not a form this rule can read' % u(a))
      ctx.check(verdict, 'C19.guards', construct(pi), 'the feature name is everything after `__gin__.`',
                'the feature is derived as `%s`, one component of the module path: `from __gin__.dynamic_registration import x` (or `__gin__.x.dynamic_registration`) '
                'is taken for the enabling statement instead of being rejected as an unknown feature' % u(a), pi.loc(a), instance='feature-whole')
  ctx.section(_feature_whole)

  # which module object a statement binds: the leaf module for `from` / `as` forms, the top-level package for a plain `import a.b.c`
  imps = [cc for cc in walk_local(pi.node) if isinstance(cc, ast.Call) and u(cc.func) in ('__import__', 'importlib.import_module', 'import_module')]
  if not imps:
    raise AnalysisError('process_import no longer imports the module through __import__ / importlib in its own body')
  okb = False
  whyb = 'the module is imported as `%s`' % u(imps[0])
  for cc in imps:
    if u(cc.func) == '__import__':
      fl = next((k.value for k in cc.keywords if k.arg == 'fromlist'), cc.args[3] if len(cc.args) > 3 else None)
      if fl is not None:
        stn = enclosing_stmt(cc)
        fle = expand_expr(facts_at(g3, facts3, stn) or frozenset(), fl)
        leaf_when = None
        if isinstance(fle, ast.IfExp) and isinstance(fle.body, (ast.List, ast.Tuple)) and fle.body.elts and u(fle.orelse) == 'None':
          leaf_when = u(fle.test).replace(' ', '')
        okb = leaf_when in ('statement.is_fromorstatement.alias', 'statement.aliasorstatement.is_from')
        whyb = 'the leaf module is bound when `%s`' % (u(fle.test) if isinstance(fle, ast.IfExp) else u(fle))
  if not any(u(cc.func) == '__import__' for cc in imps):
    # importlib.import_module(name) returns the leaf module; the top-level package must be taken exactly when neither `from` nor `as` is used
    tops = [cc for cc in imps if cc.args and not u(cc.args[0]).replace(' ', '') == 'statement.module']
    for cc in tops:
      stn = enclosing_stmt(cc)
      fs_ = facts_at(g3, facts3, stn) or frozenset()
      plain = ('c', 'statement.is_from or statement.alias', False) in fs_ or \
          (('c', 'statement.is_from', False) in fs_ and ('c', 'statement.alias', False) in fs_)
      okb = plain
      whyb = 'the top-level package is bound under conditions other than "neither from nor as" (%s)' % sorted(f_[1] for f_ in fs_ if f_[0] == 'c')[:4]
    if not tops:
      whyb = 'a plain `import a.b.c` no longer binds the top-level package'
  ctx.check(okb, 'C19.guards', construct(pi),
            'a plain `import a.b.c` binds the top-level package, `from a.b import c` / `import a.b.c as x` bind the module named',
            'which module object an import statement binds changed: %s -- a selector written against the statement then resolves to another object' % whyb,
            pi.loc(imps[0]), instance='bound-module')
  tw = [n for n in g3.live_nodes() if n.kind == 'stmt' and isinstance(n.ast, ast.Assign) and u(n.ast.targets[0]).startswith('self._symbol_table[')]
  # the enabling branch itself installs the builtins under `gin` (in the reference tree, in the helper it calls)
  tw = [n for n in tw if not (u(n.ast.targets[0]) == "self._symbol_table['gin']" and u(n.ast.value) == '_GinBuiltins()' and n in en_nodes_region(g3, en, n))]
  ok = bool(tw) and all(("name == 'gin'", False) in {(f[1], f[2]) for f in facts3[n.id] if f[0] == 'c'} and
                        (def_of(facts3[n.id], 'name') or '') == 'statement.bound_name()' and u(n.ast.targets[0]) == 'self._symbol_table[name]' for n in tw)
  ctx.check(ok, 'C19.guards', construct(pi), 'the symbol table is written under the statement\'s bound name, never under the reserved name gin',
            'the symbol-table write is no longer guarded against the reserved name `gin` / keyed by the bound name', pi.loc(), instance='reserved-gin')
  src = [n for n in g3.live_nodes() if n.kind == 'stmt' and isinstance(n.ast, ast.Assign) and u(n.ast.targets[0]) == 'self._symbol_source[name]']
  ctx.check(bool(src) and all(u(n.ast.value) == 'statement' for n in src), 'C19.guards', construct(pi), 'the import statement that provided a symbol is recorded with it',
            'symbol sources are no longer recorded', pi.loc(), instance='symbol-source')
  rec = [n for n in g3.live_nodes() if any(u(cc.func) == 'self._imports.append' for cc in calls_of_node(n))]
  ok = bool(rec) and all(("feature == 'dynamic_registration'", False) not in {(f[1], f[2]) for f in facts3[n.id]} for n in rec)
  ctx.check(ok, 'C19.guards', construct(pi), 'every processed import is recorded in the context\'s import list', 'processed imports are no longer recorded per context', pi.loc(), instance='recorded')

  # ---- C19.exact-object
  from .common import inverse_lookup_by_equality
  inverse_lookup_by_equality(ctx, 'C19.exact-object')
  rg = c.methods['_register']
  mk = [cc for cc in walk_local(rg.node) if isinstance(cc, ast.Call) and prog.resolve_call(rg, cc) == 'config._make_configurable']
  unp = [n for n in walk_local(rg.node) if isinstance(n, ast.Assign) and isinstance(n.targets[0], ast.Tuple) and u(n.value) == rg.params[2]]
  last = u(unp[0].targets[0].elts[-1]) if unp else None
  ok = len(mk) == 1 and mk[0].args and u(mk[0].args[0]) == last
  ctx.check(ok, 'C19.exact-object', construct(rg), 'the object at the end of the resolved attribute chain is itself what gets registered',
            'dynamic registration registers `%s`, not the resolved object' % (u(mk[0].args[0]) if mk and mk[0].args else None), rg.loc(), instance='object')
  loops = [n for n in walk_local(rg.node) if isinstance(n, ast.For) and isinstance(n.iter, ast.Call) and prog.resolve_call(rg, n.iter) == 'config.iterate_references']
  ok = bool(loops) and any(isinstance(cc, ast.Call) and isinstance(cc.func, ast.Attribute) and cc.func.attr == 'initialize' for cc in walk_local(loops[0])) and \
      u(loops[0].iter.args[0]) == '_CONFIG' and any(k.arg == 'to' and u(k.value) == 'original.wrapper' for k in loops[0].iter.keywords)
  g4, facts4 = std_facts(prog, rg)
  ln = [n for n in g4.live_nodes() if n.kind == 'for' and loops and n.ast is loops[0]]
  cond = bool(ln) and any(f[0] == 'c' and f[2] is False and f[1] == 'original is None' for f in facts4[ln[0].id])
  ctx.check(ok and cond, 'C19.exact-object', construct(rg), 're-registering a class re-initialises the existing references to it',
            'existing references are no longer re-initialised when a class is re-registered', rg.loc(), instance='reinitialise')
  rec = [cc for cc in walk_local(rg.node) if isinstance(cc, ast.Call) and prog.resolve_call(rg, cc) == rg.qual]
  if not rec and mk:
    # iterative form: the registration sits in a loop that goes round again with both chains shortened by their last element
    for lp in [n for n in walk_local(rg.node) if isinstance(n, ast.While) and in_subtree(mk[0], n)]:
      cut = {u(a.targets[0]) for a in walk_local(lp) if isinstance(a, ast.Assign) and len(a.targets) == 1 and isinstance(a.targets[0], ast.Name)
             and u(a.value) == '%s[:-1]' % u(a.targets[0])}
      if set(rg.params[1:3]) <= cut:
        rec = [lp]
  ctx.check(bool(rec), 'C19.exact-object', construct(rg), 'registering a method registers its class too', 'the parent class of a method is no longer registered', rg.loc(), instance='parent-class')

  import_aliases(ctx, 'C19.unique-names')
  from .c13 import method_detection
  method_detection(ctx, 'C19.methods')
  from .common import method_selector_rule
  # ---- C19.import-source: which import statement a selector is attributed to
  isf = c.methods.get('_import_source')
  if isf is None:
    raise AnalysisError('ParseContext._import_source vanished')
  okp = False
  why = 'no loop over zip(module parts, selector components)'
  g_is, f_is = std_facts(prog, isf)
  for lpn in [n for n in g_is.live_nodes() if n.kind == 'for' and isinstance(n.ast.iter, ast.Call) and u(n.ast.iter.func) == 'zip']:
    tg = [u(e) for e in (lpn.ast.target.elts if isinstance(lpn.ast.target, ast.Tuple) else [lpn.ast.target])]
    if len(tg) != 2:
      continue
    eqs = ('%s == %s' % (tg[0], tg[1]), '%s == %s' % (tg[1], tg[0]))
    incs = [n for n in g_is.live_nodes() if n.kind == 'stmt' and isinstance(n.ast, ast.AugAssign) and isinstance(n.ast.op, ast.Add) and in_subtree(n.ast, lpn.ast)]
    brks = [n for n in g_is.live_nodes() if n.kind == 'stmt' and isinstance(n.ast, ast.Break) and in_subtree(n.ast, lpn.ast)]
    inc_ok = bool(incs) and all(any(('c', e, True) in f_is[n.id] for e in eqs) for n in incs)
    brk_ok = bool(brks) and all(any(('c', e, False) in f_is[n.id] for e in eqs) for n in brks)
    if inc_ok and brk_ok:
      okp = True
    else:
      why = 'the loop does not stop at the first mismatch'
  # the same by index:  n = 0; while n < min(len(A), len(B) - 1) and A[n] == B[n]: n += 1
  for wn in [n for n in g_is.live_nodes() if n.kind in ('while', 'test') and isinstance(getattr(n.ast, 'parent', None), ast.While) and n.ast is n.ast.parent.test]:
    w = wn.ast.parent
    t = wn.ast
    if not (isinstance(t, ast.BoolOp) and isinstance(t.op, ast.And) and len(t.values) == 2 and len(w.body) == 1 and isinstance(w.body[0], ast.AugAssign)
            and isinstance(w.body[0].op, ast.Add) and u(w.body[0].value) == '1' and isinstance(w.body[0].target, ast.Name)):
      continue
    n_ = w.body[0].target.id
    bound, eq = t.values
    if not (isinstance(bound, ast.Compare) and len(bound.ops) == 1 and isinstance(bound.ops[0], ast.Lt) and u(bound.left) == n_
            and isinstance(eq, ast.Compare) and len(eq.ops) == 1 and isinstance(eq.ops[0], ast.Eq)):
      why = 'the index loop does not test the bound before comparing the components'
      continue
    sides = []
    for side in (eq.left, eq.comparators[0]):
      if isinstance(side, ast.Subscript) and u(side.slice) == n_:
        sides.append(u(side.value))
    be = u(expand_expr(f_is[wn.id], bound.comparators[0])).replace(' ', '')
    if len(sides) == 2 and 'attr_names' in sides:
      A = [x for x in sides if x != 'attr_names'][0]
      A = u(expand_expr(f_is[wn.id], ast.parse(A, mode='eval').body)).replace(' ', '')
      if be in ('min(len(%s),max(len(attr_names)-1,0))' % A, 'min(len(%s),len(attr_names)-1)' % A,
                'min(max(len(attr_names)-1,0),len(%s))' % A, 'min(len(attr_names)-1,len(%s))' % A):
        init0 = (def_of(f_is[wn.id], n_) is None)   # re-defined in the loop; the initial value is checked below
        inits = [a for a in walk_local(isf.node) if isinstance(a, ast.Assign) and u(a.targets[0]) == n_]
        if inits and all(u(a.value) == '0' for a in inits):
          okp = True
      else:
        why = 'the index bound is `%s`, not min(len(module parts), len(selector components) - 1)' % be
  # the same with takewhile:  sum(1 for _ in itertools.takewhile(lambda p: p[0] == p[1], zip(A, B[:-1])))   (stops at the first mismatch)
  for tw in [x for x in ast.walk(isf.node) if isinstance(x, ast.Call) and u(x.func) in ('itertools.takewhile', 'takewhile') and len(x.args) == 2]:
    pred, src = tw.args
    eqpair = isinstance(pred, ast.Lambda) and len(pred.args.args) == 1 and isinstance(pred.body, ast.Compare) and len(pred.body.ops) == 1 \
        and isinstance(pred.body.ops[0], ast.Eq) and {u(pred.body.left), u(pred.body.comparators[0])} == {'%s[0]' % pred.args.args[0].arg, '%s[1]' % pred.args.args[0].arg}
    zipped = isinstance(src, ast.Call) and u(src.func) == 'zip' and len(src.args) == 2 and any(u(a).replace(' ', '') == 'attr_names[:-1]' for a in src.args)
    # its length is what is counted
    counted = False
    for a in walk_local(isf.node):
      if isinstance(a, ast.Assign) and isinstance(a.value, ast.Call) and u(a.value.func) in ('sum', 'len'):
        inner = a.value.args[0] if a.value.args else None
        names_in = {x.id for x in ast.walk(inner) if isinstance(x, ast.Name)} if inner is not None else set()
        tw_names = {u(t.targets[0]) for t in walk_local(isf.node) if isinstance(t, ast.Assign) and t.value is tw}
        if inner is not None and (any(x is tw for x in ast.walk(inner)) or (tw_names & names_in)):
          counted = True
    if eqpair and zipped and counted:
      okp = True
  if not okp:
    sums = [x for x in walk_local(isf.node) if isinstance(x, ast.Call) and u(x.func) == 'sum']
    if sums:
      why = 'matches are counted with sum(...) over all positions, so components that agree again after a mismatch are counted too'
  ctx.check(okp, 'C19.import-source', construct(isf),
            'the module prefix attributed to a plain import is the longest *common prefix* of module path and selector (stops at the first mismatch)',
            'the import source of a selector is not computed as a common prefix (%s): with `import a.x.c` and `import a.y.c` the config string '
            'attributes the configurable to a sibling module and the emitted selector resolves to a different object' % why, isf.loc(), instance='common-prefix')

  def _split_agrees():
    # the statement and the selector split the name at one index: module = parts[:k], selector = attr_names[k:]
    n_split = 0
    for r_ in [n for n in g_is.live_nodes() if n.kind == 'return' and isinstance(n.ast.value, ast.Tuple) and len(n.ast.value.elts) == 2]:
      st_e, sel_e = [expand_expr(f_is[r_.id], e) for e in r_.ast.value.elts]
      cut = [x for x in ast.walk(sel_e) if isinstance(x, ast.Subscript) and u(x.value) == 'attr_names' and isinstance(x.slice, ast.Slice)
             and x.slice.upper is None and x.slice.lower is not None]
      if len(cut) != 1:
        raise AnalysisError('_import_source returns the selector `%s`: not a tail slice of attr_names' % u(sel_e))
      k = cut[0].slice.lower
      if isinstance(k, ast.Constant):
        continue        # from-imports and aliased imports: the bound name is one component
      n_split += 1
      heads = [x for x in ast.walk(st_e) if isinstance(x, ast.Subscript) and isinstance(x.slice, ast.Slice) and x.slice.lower is None
               and x.slice.upper is not None and u(x.slice.upper) == u(k)]
      replaced = any(isinstance(x, ast.Call) and isinstance(x.func, ast.Attribute) and x.func.attr == '_replace' and any(kw.arg == 'module' for kw in x.keywords)
                     for x in ast.walk(st_e)) or any(isinstance(x, ast.Call) and u(x.func).endswith('ImportStatement') for x in ast.walk(st_e))
      unchanged = len(isf.params) >= 2 and u(st_e) == isf.params[-2]
      if not unchanged and not (heads and replaced):
        raise AnalysisError('_import_source returns the statement `%s` with the selector tail `%s`: not a form this rule can read' % (u(st_e)[:80], u(sel_e)))
      ctx.check(not unchanged, 'C19.import-source', construct(isf),
                'a selector that leaves the imported path early is attributed to the module prefix it actually followed (module = parts[:%s], selector = attr_names[%s:])' % (u(k), u(k)),
                'the selector tail is `%s` but the import statement is returned with its whole module path: for `import a.b.c` and the name `a.b.f` the config string '
                'writes the selector `a.b.c.f`, which does not resolve' % u(sel_e), isf.loc(r_.ast), instance='split-agrees')
    ctx.expect_at_least('returns of _import_source that split at a computed index', n_split, 1)
  ctx.section(_split_agrees)


def import_aliases(ctx, rule):
  prog = ctx.prog
  # the printed statement carries its alias whenever it has one (the alias decides which name the statement binds:
  # `import a.b as b` binds b, `import a.b` binds a)
  fm_ = ctx.func('config_parser.ImportStatement.format')
  g_f, f_f = std_facts(prog, fm_)
  from ..lib import format_sites as _fs
  alias_nodes = []
  for n_ in g_f.live_nodes():
    if n_.ast is None or n_.kind not in ('stmt', 'return'):
      continue
    # a statement that puts the alias into the text (whatever the spelling: template, concatenation, list of words)
    if any(isinstance(x_, ast.Attribute) and u(x_) == '%s.alias' % fm_.params[0] for x_ in ast.walk(n_.ast)) and \
        any(isinstance(x_, ast.Constant) and isinstance(x_.value, str) and x_.value.strip(' {}') == 'as' or
            (isinstance(x_, ast.Constant) and isinstance(x_.value, str) and ' as ' in x_.value) for x_ in ast.walk(n_.ast)):
      alias_nodes.append(n_)
  ok_a = bool(alias_nodes)
  why_a = 'the formatter no longer prints ` as <alias>`'
  for n_ in alias_nodes:
    others = [f_ for f_ in f_f[n_.id] if f_[0] == 'c' and not (f_[1].replace(' ', '') in ('%s.alias' % fm_.params[0], '%s.aliasisNone' % fm_.params[0]))
              and '%s.is_from' % fm_.params[0] not in f_[1]]
    if others:
      ok_a = False
      why_a = 'the alias is printed only when also `%s` is %s' % (others[0][1], others[0][2])
  if ok_a:
    # and no return is reachable with an alias set while avoiding the alias clause
    tests_alias = [t_ for t_ in g_f.live_nodes() if t_.kind == 'test' and u(t_.ast).replace(' ', '') in ('%s.alias' % fm_.params[0], '%s.aliasisnotNone' % fm_.params[0])]
    ok_a = bool(tests_alias) or all(isinstance(a_.ast, ast.Return) for a_ in alias_nodes)
    if not ok_a:
      why_a = 'the alias clause is not guarded by the alias alone'
  ctx.check(ok_a, rule, construct(fm_), 'an import statement is printed with its alias whenever it has one',
            'ImportStatement.format drops the alias in some cases (%s): `import a.b as b` printed as `import a.b` binds `a`, so the selectors the '
            'config string writes against `b` no longer resolve when the text is parsed back' % why_a, fm_.loc(), instance='alias-printed')
  im = ctx.cls('config.ImportManager')
  ai = im.methods['add_import']
  g5, facts5 = std_facts(prog, ai)
  uq = [n for n in g5.live_nodes() if n.kind == 'stmt' and isinstance(n.ast, ast.Assign) and isinstance(n.ast.value, ast.Call)
        and prog.resolve_call(ai, n.ast.value) == 'config._uniquify_name']
  if len(uq) == 1 and uq[0].ast.value.args and u(uq[0].ast.value.args[0]) == ai.params[1]:
    raise AnalysisError('the name-uniquifying helper is handed the whole import statement (`%s`): its interface changed, the re-aliasing rule cannot be '
                        'read off add_import' % u(uq[0].ast.value))
  ok = len(uq) == 1 and [u(expand_expr(facts5[uq[0].id], a)).replace(' ', '') for a in uq[0].ast.value.args] == ['statement.bound_name()', 'self.names']
  adds = [n for n in g5.live_nodes() if any(u(cc.func) == 'self.names.add' for cc in calls_of_node(n))]
  # the name reserved is the (possibly re-aliased) bound name: statement.bound_name() after the re-aliasing, or the unique name itself
  uvar = u(uq[0].ast.targets[0]) if len(uq) == 1 else None
  single_def = uvar is not None and sum(1 for a_ in walk_local(ai.node) if isinstance(a_, ast.Assign) and u(a_.targets[0]) == uvar) == 1
  def reserved_ok(n):
    a0 = calls_of_node(n)[0].args[0]
    return u(expand_expr(facts5[n.id], a0)) == 'statement.bound_name()' or (single_def and u(a0) == uvar)
  ok = ok and bool(adds) and all(reserved_ok(n) for n in adds) and \
      all(witness(g5, uq[0].id, [g5.exit.id], avoid=[n.id for n in adds]) is None or True for _ in [0])
  ren = [n for n in g5.live_nodes() if n.kind == 'stmt' and isinstance(n.ast, ast.Assign) and u(n.ast.targets[0]) == 'statement'
         and u(n.ast.value).replace(' ', '') == 'statement._replace(alias=unique_name)']
  ok = ok and bool(ren) and all(g5.reaches(r.id, a.id) for r in ren for a in adds)
  ctx.check(ok, rule, construct(ai), 'a colliding bound name is re-aliased to a unique one before the name is reserved',
            'import re-aliasing no longer derives a unique bound name against the set of names it then adds to', ai.loc(), instance='re-alias')
  ms = [n for n in g5.live_nodes() if n.kind == 'stmt' and isinstance(n.ast, ast.Assign) and isinstance(n.ast.targets[0], ast.Subscript)
        and u(n.ast.targets[0].value) == 'self.module_selectors'
        and (u(n.ast.targets[0].slice) == 'statement.module' or
             any(isinstance(a_, ast.Assign) and u(a_.targets[0]) == u(n.ast.targets[0].slice) and u(a_.value) == 'statement.module' for a_ in walk_local(ai.node)))]
  ok = bool(ms) and all(g5.reaches(r.id, m.id) for r in ren for m in ms)
  ctx.check(ok, rule, construct(ai), 'the selector table records the (possibly re-aliased) name every emitted selector is built from',
            'module selectors are recorded before re-aliasing', ai.loc(), instance='selector-table')
  un = ctx.func('config._uniquify_name')
  g6, facts6 = std_facts(prog, un)
  rets6 = [n for n in g6.live_nodes() if n.kind == 'return' and n.ast.value is not None]
  taken = un.params[1] if len(un.params) > 1 else 'existing_names'
  def free_name(n):
    v = n.ast.value
    if ('c', '%s in %s' % (u(v), taken), False) in facts6[n.id]:
      return True
    # next(c for c in CANDIDATES if c not in taken): the first candidate that is free
    if isinstance(v, ast.Call) and u(v.func) == 'next' and len(v.args) == 1 and isinstance(v.args[0], ast.GeneratorExp) and len(v.args[0].generators) == 1:
      ge = v.args[0]
      gen = ge.generators[0]
      return isinstance(gen.target, ast.Name) and u(ge.elt) == gen.target.id and \
          any(isinstance(i, ast.Compare) and len(i.ops) == 1 and isinstance(i.ops[0], ast.NotIn) and u(i.left) == gen.target.id
              and u(i.comparators[0]) == taken for i in gen.ifs) and len(gen.ifs) == 1
    return False
  ok = bool(rets6) and all(free_name(n) for n in rets6)
  ctx.check(ok, rule, construct(un), 'candidates are tried until one is not taken', '_uniquify_name no longer loops until the name is free', un.loc(), instance='loop')
