#!/venv/bin/python
"""Writes the prompts of the next fresh break round: gen_break_prompts.py <prev-prefix> <prev-wt> <new-prefix> <new-wt> <oldA> <oldB> <newA> <newB>
e.g.  gen_break_prompts.py r10 w7 r11 w8 k l m n   (reads /tmp/agent_prompts/r10_Cnn.txt or the template kept in tools/agent_prompts).
The list of already known changes is rebuilt from seeded/<id>*/meta.json, so a fresh agent never sees /verif."""
import glob, json, os, re, sys
prev, pwt, new, nwt, oa, ob, na, nb = sys.argv[1:9]
os.makedirs('/tmp/agent_prompts', exist_ok=True)
props = {json.loads(l)['id']: json.loads(l) for l in open('/verif/properties.jsonl')}
tmpl_path = '/verif/tools/agent_prompts/template_fresh_break_C12.txt'
for pid in sorted(props):
  src = '/tmp/agent_prompts/%s_%s.txt' % (prev, pid)
  if os.path.exists(src):
    t = open(src).read()
  else:
    raise SystemExit('previous prompt %s missing (regenerate from the template by hand)' % src)
  known = []
  for d in sorted(glob.glob('/verif/seeded/%s?' % pid)):
    m = json.load(open(d + '/meta.json'))
    known.append('  - ' + (m.get('summary') or '').replace('\n', ' ')[:330])
  i = t.index('ALREADY KNOWN')
  j = t.index('\nAvoid ', i)
  head = t[i:t.index('\n', i) + 1]
  t = t[:i] + head + '\n'.join(known) + '\n' + t[j:]
  t = t.replace('/tmp/%s_' % pwt, '/tmp/%s_' % nwt).replace('seed_%s' % oa, 'seed_%s' % na).replace('seed_%s' % ob, 'seed_%s' % nb)
  t = t.replace('change %s and change %s' % (oa.upper(), ob.upper()), 'change %s and change %s' % (na.upper(), nb.upper()))
  t = t.replace('for %s and %s,' % (oa.upper(), ob.upper()), 'for %s and %s,' % (na.upper(), nb.upper()))
  t = re.sub(r'\b%s and %s must use' % (oa.upper(), ob.upper()), '%s and %s must use' % (na.upper(), nb.upper()), t)
  open('/tmp/agent_prompts/%s_%s.txt' % (new, pid), 'w').write(t)
print('written', len(props))
