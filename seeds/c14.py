from ._h import S
C = 'config.py'
R = 'resource_reader.py'
SEEDS = [
  S('loops-swapped', 'C14.nest', C, "  for location_prefix in prefixes:\n    config_file_with_prefix = os.path.join(location_prefix, config_file)\n    for reader, existence_check in _FILE_READERS:\n      if existence_check(config_file_with_prefix):", "  for reader, existence_check in _FILE_READERS:\n    for location_prefix in prefixes:\n      config_file_with_prefix = os.path.join(location_prefix, config_file)\n      if existence_check(config_file_with_prefix):\n       if True:"),
  S('absolute-still-searched', 'C14.absolute', C, "  prefixes = _LOCATION_PREFIXES if not os.path.isabs(config_file) else ['']", "  prefixes = _LOCATION_PREFIXES"),
  S('missing-file-returns-none', 'C14.ioerror', C, "  err_str = 'Unable to open file: {}. Searched config paths: {}.'\n  raise IOError(err_str.format(config_file, prefixes))", "  err_str = 'Unable to open file: {}. Searched config paths: {}.'\n  logging.error(err_str.format(config_file, prefixes))"),
  S('ioerror-without-locations', 'C14.ioerror', C, "  raise IOError(err_str.format(config_file, prefixes))", "  raise IOError(err_str.format(config_file, '...'))"),
  S('include-deferred', 'C14.inplace', C, "          nested_includes = parse_config_file(statement.filename, skip_unknown)\n          includes.append(nested_includes)", "          pending_includes.append(statement.filename)").copy(),
  S('include-drops-skip-unknown', 'C14.entry', C, "          nested_includes = parse_config_file(statement.filename, skip_unknown)", "          nested_includes = parse_config_file(statement.filename)"),
  S('file-drops-skip-unknown', 'C14.entry', C, "          includes, imports = parse_config(f, skip_unknown=skip_unknown)", "          includes, imports = parse_config(f)"),
  S('bindings-before-files', 'C14.entry', C, "  for config_file in config_files:\n    includes_and_imports = parse_config_file(config_file, skip_unknown)\n    nested_includes_and_imports.append(includes_and_imports)\n  parse_config(bindings, skip_unknown)\n", "  parse_config(bindings, skip_unknown)\n  for config_file in config_files:\n    includes_and_imports = parse_config_file(config_file, skip_unknown)\n    nested_includes_and_imports.append(includes_and_imports)\n"),
  S('finalize-unconditional', 'C14.entry', C, "  if finalize_config:\n    finalize()", "  finalize()"),
  S('skip-unknown-default-true', 'C14.entry', C, "def parse_config(bindings, skip_unknown=False):", "def parse_config(bindings, skip_unknown=True):"),
  S('search-path-prepended', 'C14.ordered-stores', C, "  _LOCATION_PREFIXES.append(location_prefix)", "  _LOCATION_PREFIXES.insert(0, location_prefix)"),
  S('origin-none-unchecked', 'C14.total-predicate', R, "  if file_sys_path is None:\n    # Namespace packages (e.g. a plain directory on sys.path) have no origin.\n    raise ValueError('Package has no file system location', pkg)\n", "", 'F9 re-introduced'),
  S('unknown-package-not-caught', 'C14.total-predicate', R, "  except (ModuleNotFoundError, ValueError, ImportError):", "  except (ModuleNotFoundError, ImportError):"),
]
