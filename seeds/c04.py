from ._h import S
C = 'config.py'
SEEDS = [
  S('shallow-copy', 'C04.isolate', C, "    new_kwargs = copy.deepcopy(new_kwargs)", "    new_kwargs = copy.copy(new_kwargs)"),
  S('no-copy', 'C04.isolate', C, "    new_kwargs = copy.deepcopy(new_kwargs)\n", ""),
  S('conditional-copy', 'C04.isolate', C, "    new_kwargs = copy.deepcopy(new_kwargs)\n", "    if gin_bound_args:\n      new_kwargs = copy.deepcopy(new_kwargs)\n    new_kwargs.update(_get_bindings(current_selector))\n", 'a path re-merges uncopied store values'),
  S('get_bindings-aliases', 'C04.isolate', C, "  if resolve_references:\n    return copy.deepcopy(bindings_kwargs)", "  if resolve_references:\n    return dict(bindings_kwargs)"),
  S('reference-result-cached', 'C04.deepcopy-shape', C, "    if self._evaluate:\n      return self._scoped_configurable_fn()\n    return self._scoped_configurable_fn", "    if self._evaluate:\n      if 'r' not in self.__dict__:\n        self.r = self._scoped_configurable_fn()\n      return self.r\n    return self._scoped_configurable_fn"),
  S('unevaluated-reference-called', 'C04.deepcopy-shape', C, "    if self._evaluate:\n      return self._scoped_configurable_fn()\n    return self._scoped_configurable_fn", "    return self._scoped_configurable_fn()"),
  S('memoised-in-memo', 'C04.deepcopy-shape', C, "    if self._evaluate:\n      return self._scoped_configurable_fn()\n    return self._scoped_configurable_fn", "    if self._evaluate:\n      if id(self) not in memo:\n        memo[id(self)] = self._scoped_configurable_fn()\n      return memo[id(self)]\n    return self._scoped_configurable_fn", 'same reference object listed twice evaluates once'),
  S('keyword-names-evaluated', 'C04.not-when-supplied', C, "    for kwarg in kwargs:\n      if kwarg not in caller_required_kwargs:\n        new_kwargs.pop(kwarg, None)\n", "", 'F2 re-introduced'),
  S('positional-pop-after-copy', 'C04.not-when-supplied', C, "    for arg_name in arg_names:\n      if arg_name not in required_arg_names:\n        new_kwargs.pop(arg_name, None)\n    # Likewise", "    # Likewise"),
  S('scope-joined-to-string', 'C04.scope', C, "      with config_scope(scope_components):", "      with config_scope('/'.join(scope_components)):", 'reference scope appended to ambient scope'),
  S('unscoped-reference-clears-scope', 'C04.scope', C, "  else:\n    return configurable_.wrapper\n", "  else:\n    return _decorate_fn_or_cls(\n        scope_decorator, configurable_.wrapper, configurable_.selector,\n        avoid_class_mutation=True, decorate_methods=True)\n"),
]
