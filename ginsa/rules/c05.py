"""C05 Macros and constants are late-bound named values."""
import ast

from ..core import AnalysisError, u, walk_local, enclosing_stmt
from ..lib import (construct, std_facts, def_of, facts_imply, facts_at,
                   calls_of_node, returns_of, copy_kind, kwarg, card_cases)
from ..resolve import store_accesses
from ..cfg import witness, decompose
from .common import allowed_stores, instance_state


def registration(ctx, qual):
  """(selector, first parameter) a @register(...)-decorated function gets."""
  f = ctx.func(qual)
  for d in f.node.decorator_list:
    if isinstance(d, ast.Call) and u(d.func) == 'register':
      name = d.args[0].value if d.args and isinstance(d.args[0], ast.Constant) else f.name
      mod = kwarg(d, 'module')
      mod = mod.value if isinstance(mod, ast.Constant) else None
      params = [a.arg for a in f.node.args.args]
      return f, ('%s.%s' % (mod, name) if mod else name), (params[0] if params else None)
  raise AnalysisError('%s is no longer registered with @register(...)' % qual)


def run(ctx):
  prog = ctx.prog
  mf, msel, mparam = registration(ctx, 'config.macro')
  cf, csel, _ = registration(ctx, 'config._retrieve_constant')
  ctx.note('registrations: macro -> %s(%s), constant -> %s' % (msel, mparam, csel))

  # ---- C05.late
  dm = ctx.func('config.ParserDelegate.macro')
  con = construct(dm)
  rets = [r for r in returns_of(dm) if r.value is not None]
  ctx.expect_at_least('returns of ParserDelegate.macro', len(rets), 1)
  instance_state(ctx, 'C05.late', 'config.ParserDelegate', {'_skip_unknown'},
                 'every use of %name must get its own evaluated reference; references shared between uses are evaluated once per '
                 'deepcopy (copy.deepcopy memoises by object identity), so a macro bound to an evaluated reference is no longer re-evaluated at every use')
  allowed_stores(ctx, 'C05.late', {'config.ParserDelegate.macro': {'_CONSTANTS'}, 'config.macro': set(),
                                   'config._retrieve_constant': {'_CONSTANTS'}, 'config.constant': {'_CONSTANTS', '_INTERACTIVE_MODE'}},
                 'macro and constant values must be looked up at use time from the binding store / constant table only')
  ok = True
  suffixes = []
  for r in rets:
    v = r.value
    good = isinstance(v, ast.Call) and prog.resolve_call(dm, v) == 'config.ConfigurableReference' and len(v.args) == 2 \
        and isinstance(v.args[1], ast.Constant) and v.args[1].value is True
    ok = ok and good
    if good and isinstance(v.args[0], ast.BinOp) and isinstance(v.args[0].right, ast.Constant):
      suffixes.append(v.args[0].right.value)
    elif good:
      # any other spelling of <name> + '/<configurable>': '{}/x'.format(name), f'{name}/x', '/'.join([name, 'x'])
      from ..lib import format_sites
      for n_, tmpl, ops in format_sites(v.args[0]):
        if n_ is v.args[0] and tmpl is not None:
          if len(ops) == 1 and tmpl.startswith('{}'):
            suffixes.append(tmpl[2:])
          elif len(ops) == 2 and tmpl == '{}/{}' and isinstance(ops[1], ast.Constant) and isinstance(ops[1].value, str):
            suffixes.append('/' + ops[1].value)
  ctx.check(ok, 'C05.late', con, '%name becomes a newly constructed *evaluated* reference at every use: the value is looked up at every use, not at parse time',
            '%%name no longer yields a newly constructed evaluated reference per use (returns %s)' % [u(r.value) for r in rets], dm.loc(), instance='evaluated')
  _, acc = store_accesses(prog, 'config', ['_CONFIG'])
  direct = [a for a in acc if a.func is not None and a.func.qual.startswith('config.ParserDelegate')]
  ctx.check(not direct, 'C05.late', con, 'the delegate does not read the binding store (no early lookup of the macro value)',
            'the delegate reads the binding store at parse time at %s: a use before the definition, or a later redefinition, would not be seen'
            % [a.loc() for a in direct], direct[0].func.loc(direct[0].node) if direct else dm.loc(), instance='no-early-read')

  # ---- C05.key
  if not suffixes:
    raise AnalysisError('ParserDelegate.macro builds its reference names in a form this rule cannot read (no `<name> + \'/<configurable>\'` found)')
  ctx.check(sorted(suffixes) == sorted(['/' + msel, '/' + csel]), 'C05.key', con,
            'the delegate scopes the reference to %s / %s' % ('/' + msel, '/' + csel),
            'delegate suffixes %s disagree with the registrations %s, %s' % (suffixes, msel, csel), dm.loc(), instance='delegate')
  pc = ctx.func('config.parse_config')
  keys = [c.args[0] for c in walk_local(pc.node) if isinstance(c, ast.Call) and prog.resolve_call(pc, c) == 'config.bind_parameter'
          and isinstance(c.args[0], ast.Tuple) and len(c.args[0].elts) == 3 and isinstance(c.args[0].elts[1], ast.Constant)]
  ok = len(keys) == 1 and keys[0].elts[1].value == msel and isinstance(keys[0].elts[2], ast.Constant) and keys[0].elts[2].value == mparam
  ctx.check(ok, 'C05.key', construct(pc), "a valueless binding `name = v` binds (%s, '%s', '%s')" % ('name', msel, mparam),
            'the valueless-binding consumer binds %s, not the registered macro parameter' % [u(k) for k in keys], pc.loc(), instance='consumer')
  g, facts = std_facts(prog, pc)
  for k in keys:
    st = enclosing_stmt(k)
    fs = facts_at(g, facts, st) or ()
    d = def_of(fs, u(k.elts[0]))
    okn = d is not None and d.replace(' ', '') == "'{}/{}'.format(scope,selector)ifscopeelseselector"
    under = ('c', 'arg_name', False) in fs
    ctx.check(okn and under, 'C05.key', construct(pc), 'the macro name (scope/selector of the statement) becomes the scope of the macro binding',
              'the macro scope is `%s` (under `not arg_name`: %s)' % (d, under), pc.loc(k), instance='macro-scope')
  cs = ctx.func('config._config_str')
  consts = {n.value for n in walk_local(cs.node) if isinstance(n, ast.Constant) and isinstance(n.value, str)}
  ctx.check(msel in consts and mparam in consts, 'C05.key', construct(cs), 'the serialiser reads the macro value under the same key',
            'the serialiser no longer uses %r / %r' % (msel, mparam), cs.loc(), instance='serialiser')
  sp = ctx.func('config_parser.parse_scoped_selector')
  consts = {n.value for n in walk_local(sp.node) if isinstance(n, ast.Constant) and isinstance(n.value, str)}
  short = '/' + msel.split('.', 1)[-1] + '.' + mparam
  ctx.check(short in consts, 'C05.key', construct(sp), "the `%%name` binding-key shorthand expands to name%s" % short,
            'the %% shorthand no longer expands to %s' % short, sp.loc(), instance='shorthand')

  # ---- C05.identity
  rv = [r.value for r in returns_of(mf) if r.value is not None]
  ctx.check(len(rv) == 1 and isinstance(rv[0], ast.Name) and rv[0].id == mparam, 'C05.identity', construct(mf), 'macro returns its value itself',
            'macro returns `%s`' % [u(x) for x in rv], mf.loc(), instance='macro')
  rv = [r.value for r in returns_of(cf) if r.value is not None]
  ok = len(rv) == 1 and isinstance(rv[0], ast.Subscript) and u(rv[0].value) == '_CONSTANTS' and isinstance(rv[0].slice, ast.Call) and \
      prog.resolve_call(cf, rv[0].slice) == 'config.current_scope_str'
  ctx.check(ok, 'C05.identity', construct(cf), 'a constant lookup returns the stored object itself, keyed by the active scope string',
            'constant lookup returns `%s`' % [u(x) for x in rv], cf.loc(), instance='constant')

  # ---- C05.constant-guards
  kf = ctx.func('config.constant')
  g, facts = std_facts(prog, kf)
  writes = [n for n in g.live_nodes() if n.kind == 'stmt' and isinstance(n.ast, ast.Assign) and isinstance(n.ast.targets[0], ast.Subscript)
            and u(n.ast.targets[0].value) == '_CONSTANTS']
  ctx.expect_at_least('constant-table writes in constant()', len(writes), 1)

  def atom(e):
    t = u(e)
    if t == '_INTERACTIVE_MODE':
      return 'interactive'
    if isinstance(e, ast.Call) and u(e.func) == '_CONSTANTS.matching_selectors':
      return 'dup'
    if isinstance(e, ast.Call) and u(e.func).endswith('MODULE_RE.match'):
      return 'valid_name'
    return None
  for n in writes:
    miss = facts_imply(facts[n.id], [('invalid name rejected', 'valid_name'), ('duplicate / suffix-clashing definition rejected outside interactive mode', 'interactive or not dup')], atom)
    ctx.check(not miss, 'C05.constant-guards', construct(kf), 'a constant is stored only after the name and duplicate checks',
              'constant() stores although: %s' % ', '.join(l for l, _ in miss), kf.loc(n.ast), instance='define')
    ctx.check(u(n.ast.value) == kf.params[1], 'C05.constant-guards', construct(kf), 'the object given is stored as is', 'constant() stores `%s`' % u(n.ast.value), kf.loc(n.ast), instance='stores-object')
  g, facts = std_facts(prog, dm)
  # exits classified by how many constants match (0 / 1 / several), whatever the spelling of the tests
  M = None
  for n in g.live_nodes():
    if n.kind == 'stmt' and isinstance(n.ast, ast.Assign) and isinstance(n.ast.value, ast.Call) and u(n.ast.value.func) == '_CONSTANTS.matching_selectors' \
        and isinstance(n.ast.targets[0], ast.Name):
      M = n.ast.targets[0].id
  if M is None:
    raise AnalysisError('ParserDelegate.macro no longer takes its candidates from _CONSTANTS.matching_selectors')
  amb = [n for n in g.live_nodes() if n.kind == 'raise_stmt' and card_cases(facts[n.id], M) == {2, 3}]
  one = [n for n in g.live_nodes() if n.kind == 'return' and 'constant' in u(n.ast.value)]
  ok = bool(amb) and bool(one) and all(card_cases(facts[n.id], M) == {1} for n in one)
  ctx.check(ok, 'C05.constant-guards', con, 'a unique constant match is used, an ambiguous abbreviation raises',
            'ambiguous constant abbreviations are no longer rejected in the delegate', dm.loc(), instance='ambiguous')
  qp = ctx.func('config.query_parameter')
  ok = any(isinstance(n, ast.If) and 'len(matching_selectors) > 1' in u(n.test) and isinstance(n.body[-1], ast.Raise) for n in walk_local(qp.node))
  ctx.check(ok, 'C05.constant-guards', construct(qp), 'query_parameter rejects an ambiguous constant abbreviation', 'query_parameter no longer rejects ambiguous constants', qp.loc(), instance='query')
  ctx.borrow('C13', 'C13.interactive', 'C05.constant-guards')     # the duplicate guard is lifted only while an interactive block is open

  # ---- C05.hook
  hk = ctx.func('config.validate_macros_hook')
  ok = 'register_finalize_hook' in hk.decorator_names()
  it = [c for c in walk_local(hk.node) if isinstance(c, ast.Call) and prog.resolve_call(hk, c) == 'config.iterate_references']
  tgt = bool(it) and any(k.arg == 'to' and isinstance(k.value, ast.Call) and u(k.value.args[0]) == 'macro' for c in it for k in c.keywords)
  vr = [c for c in walk_local(hk.node) if isinstance(c, ast.Call) and prog.resolve_call(hk, c) == 'config.validate_reference']
  ev = bool(vr) and all(any(k.arg == 'require_evaluation' and isinstance(k.value, ast.Constant) and k.value.value is True for k in c.keywords)
                        and not any(k.arg == 'require_bindings' and isinstance(k.value, ast.Constant) and k.value.value is False for k in c.keywords) for c in vr)
  # every reference is validated: the validation call is reached on every pass through the loop body
  g_h, _f_h = std_facts(prog, hk)
  loops_h = [n for n in g_h.live_nodes() if n.kind == 'for']
  vnodes = [n for n in g_h.live_nodes() if any(prog.resolve_call(hk, c) == 'config.validate_reference' for c in calls_of_node(n))]
  if not vnodes and loops_h:
    # the two checks of validate_reference done in place (or through helpers put back inline): both tests on every pass, each failing into a raise
    lv = u(loops_h[0].ast.target)
    want = {'%s.config_key in _CONFIG' % lv: 'bindings', '%s.evaluate' % lv: 'evaluation'}
    tests = {}
    for n in g_h.live_nodes():
      if n.kind == 'test':
        for t_, _p in decompose(n.ast, True) + decompose(n.ast, False):
          if t_ in want:
            tests.setdefault(want[t_], []).append(n)
    raises = {}
    for n in g_h.live_nodes():
      if n.kind == 'raise_stmt' or any(prog.resolve_call(hk, c) in prog.noreturn for c in calls_of_node(n)):
        for t_, what in want.items():
          if ('c', t_, False) in _f_h[n.id]:
            raises[what] = True
    if set(tests) == {'bindings', 'evaluation'} and set(raises) == {'bindings', 'evaluation'}:
      vnodes = [tests['bindings'][0]]
      first_ = [b for b, k in g_h.succ[loops_h[0].id] if k == 'loop']
      both = all(first_ and (first_[0] in [x.id for x in ns] or witness(g_h, first_[0], [loops_h[0].id], avoid=[x.id for x in ns]) is None)
                 for ns in tests.values())
      ev = ev or both
  every = bool(loops_h) and bool(vnodes)
  for lp in loops_h:
    first = [b for b, k in g_h.succ[lp.id] if k == 'loop']
    if first and first[0] not in [v.id for v in vnodes] and witness(g_h, first[0], [lp.id], avoid=[v.id for v in vnodes]) is not None:
      every = False
  from .common import loop_source_unfiltered
  loop_source_unfiltered(ctx, 'C05.hook', 'config.validate_macros_hook', 'config.iterate_references', 'macro reference')
  ctx.check(every, 'C05.hook', construct(hk), 'every macro reference found is validated (no reference is skipped)',
            'some macro references are skipped by the finalize hook (the validation is not reached on every pass through the loop): '
            'an unevaluated or unbound use of a macro that was already seen once is accepted', hk.loc(), instance='every-reference')
  ctx.check(ok and tgt and ev, 'C05.hook', construct(hk), 'the macro hook is registered and validates every macro reference for bindings and evaluation',
            'the macro finalize hook is %s' % ('not registered' if not ok else 'no longer validating bindings+evaluation of macro references'), hk.loc())
  vf = ctx.func('config.validate_reference')
  g, facts = std_facts(prog, vf)
  rs = [n for n in g.live_nodes() if n.kind == 'raise_stmt']
  conds = [' & '.join(sorted('%s=%s' % (f[1], f[2]) for f in facts[n.id] if f[0] == 'c')) for n in rs]
  ok = any('ref.config_key in _CONFIG=False' in c and 'require_bindings=True' in c for c in conds) and \
      any('ref.evaluate=False' in c and 'require_evaluation=True' in c for c in conds)
  d = kf  # unused
  ctx.check(ok, 'C05.hook', construct(vf), 'an unbound macro and an unevaluated macro reference each raise',
            'validate_reference no longer raises for unbound / unevaluated references (%s)' % conds, vf.loc(), instance='raises')
  from ..lib import default_of
  rb = default_of(vf.node, 'require_bindings')
  ctx.check(isinstance(rb, ast.Constant) and rb.value is True, 'C05.hook', construct(vf), 'bindings are required by default', 'require_bindings no longer defaults to True', vf.loc(), instance='default')
  from .c15 import macro_always_applied
  macro_always_applied(ctx, 'C05.key')
  from .common import bind_always_writes
  bind_always_writes(ctx, 'C05.late')


  # ---- C05.duplicates: every member of an enum goes through constant() (which rejects an exact duplicate)
  ce = ctx.func('config.constants_from_enum')
  dec = ce.nested.get('decorator') if hasattr(ce, 'nested') else None
  owner = dec or ce
  from ..cfg import witness as _w
  g_e = prog.cfg(owner)
  loops_e = [n for n in g_e.live_nodes() if n.kind == 'for' and '__members__' in u(n.ast.iter)]
  calls_e = [n for n in g_e.live_nodes() if any(prog.resolve_call(owner, c_) == 'config.constant' for c_ in calls_of_node(n))]
  ok_e = bool(loops_e) and bool(calls_e)
  for lp in loops_e:
    first = [b for b, k in g_e.succ[lp.id] if k == 'loop']
    if first and first[0] not in [c_.id for c_ in calls_e] and _w(g_e, first[0], [lp.id], avoid=[c_.id for c_ in calls_e]) is not None:
      ok_e = False
  ctx.check(ok_e, 'C05.key', construct(owner), 'every enum member is defined through constant(), which raises for a name that is already defined',
            'some enum members are skipped before constant() is called: a duplicate definition coming from an enum is silently ignored and the name keeps '
            'its earlier value', owner.loc(), instance='enum-members-all')

  # a constant survives clear_config() as the very object that was defined: the saved copy keeps the stored objects
  smc_ = ctx.cls('selector_map.SelectorMap').methods.get('copy')
  if smc_ is not None:
    vm_ = [a for a in walk_local(smc_.node) if isinstance(a, ast.Assign) and isinstance(a.targets[0], ast.Attribute) and a.targets[0].attr == '_selector_map']
    ctx.check(bool(vm_) and all(copy_kind(a.value) == 'SHALLOW' for a in vm_), 'C05.key', 'gin/selector_map.py::SelectorMap.copy',
              'constants re-inserted by clear_config() are the stored objects themselves',
              'SelectorMap.copy copies the stored values (`%s`): after any clear_config() `%%NAME` yields a copy, not the object given to gin.constant()'
              % [u(a.value) for a in vm_], smc_.loc(), instance='constants-identity')
