"""C09 Config scopes nest, are restored on every exit path, private to a thread."""
import ast

from ..cfg import (describe_path, pair_leaks, release_without_acquire,
                   double_release, witness)
from ..core import AnalysisError, u, walk_local, ancestors, FuncNode
from ..lib import (construct, std_facts, calls_of_node, copy_kind, at_least,
                   returns_of)
from ..mayraise import MayRaise
from .common import (lazy_init_stmt, ENTER, EXIT, nodes_calling, scope_entry, instance_state, scope_who,
                     scope_copy_out, stack_discipline)


def run(ctx):
  prog = ctx.prog
  ctx.assume('T1', 'T2', 'T3', 'T13')
  f = ctx.func('config.config_scope')
  con = construct(f)
  if not f.is_contextmanager():
    ctx.fail('C09.pair', con, 'config_scope is no longer a @contextlib.contextmanager generator', f.loc())
    return

  # ---- C09.pair: every path from the push to any exit passes exactly one pop
  g = prog.cfg(f)
  pushes = nodes_calling(prog, f, g, ENTER)
  pops = nodes_calling(prog, f, g, EXIT)
  ctx.expect_at_least('scope push sites in config_scope', len(pushes), 1)
  leaks = pair_leaks(g, [n.id for n in pushes], [n.id for n in pops])
  if leaks:
    for a, name, w in leaks:
      ctx.fail('C09.pair', con,
               'the scope pushed at line %d is not popped on the path to the %s (exception at the yield included): '
               'the previously active scope is not restored' % (g.nodes[a].lineno, name),
               f.loc(g.nodes[a].ast), sites=len(g.live_nodes()), instance=name, path=describe_path(g, w))
  else:
    ctx.hold('C09.pair', con, 'every path from the push to the normal, raise and yield-exception exits passes a pop '
             '(%d push, %d pop node instances)' % (len(pushes), len(pops)), f.loc(), sites=len(g.live_nodes()))
  dbl = double_release(g, [n.id for n in pushes], [n.id for n in pops])
  ctx.check(not dbl, 'C09.pair', con, 'no path pops twice for one push',
            'a path pops the scope stack twice for one push', f.loc(), instance='double-pop',
            path=describe_path(g, dbl[0][1]) if dbl else None)

  # ---- C09.push-first: the finally never pops a frame that was not pushed
  g0, facts0 = std_facts(prog, f)
  by_ast = {}
  for n in g0.live_nodes():
    if n.ast is not None:
      cur = by_ast.get(id(n.ast))
      by_ast[id(n.ast)] = facts0[n.id] if cur is None else (cur & facts0[n.id])
  mr = MayRaise(prog, f)
  reasons = {}

  def may_raise(astnode):
    # only statements lexically inside a try body matter; harmless elsewhere
    fixed = mr.fixed_from_facts(by_ast.get(id(astnode), ()))
    target = astnode
    r = None
    if isinstance(astnode, ast.stmt):
      r = mr.stmt(astnode, fixed)
    elif isinstance(astnode, ast.expr):
      r = mr.expr(astnode, fixed, truth=True)
    if r:
      reasons[id(astnode)] = r
    return bool(r)

  g2 = prog.cfg(f, may_raise=may_raise)
  pushes2 = nodes_calling(prog, f, g2, ENTER)
  pops2 = nodes_calling(prog, f, g2, EXIT)
  # The push statement itself cannot fail before pushing (list.append).
  for pn in pushes2:
    g2.succ[pn.id] = [(b, k) for b, k in g2.succ[pn.id] if k != 'exc']
  bad = release_without_acquire(g2, [n.id for n in pushes2], [n.id for n in pops2])
  nsites = sum(1 for n in g2.live_nodes() if n.ast is not None)
  if bad:
    r, w = bad[0]
    culprit = None
    for i in w:
      a = g2.nodes[i].ast
      if a is not None and id(a) in reasons and any(k == 'exc' for _, k in g2.succ[i]):
        culprit = (g2.nodes[i], reasons[id(a)])
    why = ''
    loc = f.loc(g2.nodes[r].ast)
    if culprit:
      why = ': `%s` (line %d) runs inside the try before the push and may raise (%s)' % (
          culprit[0].text(), culprit[0].lineno, culprit[1])
      loc = f.loc(culprit[0].ast)
    ctx.fail('C09.push-first', con,
             'the finally pops the scope stack on a path that never pushed%s; the pop then removes the *enclosing* '
             'scope, which is lost inside its own block and leaves the thread\'s stack empty afterwards' % why,
             loc, sites=nsites, instance='pop-without-push', path=describe_path(g2, w))
  else:
    ctx.hold('C09.push-first', con, 'no statement that can fail (explicit raise or operator dispatch on the '
             'argument, model E8) runs inside the try before the push', f.loc(), sites=nsites)

  # ---- scope-entry forms (first sentence of the property)
  scope_entry(ctx, 'C09.scope-entry')

  # ---- C09.thread
  c = ctx.cls('config._ScopeManager')
  ccon = '%s::%s' % (c.module.relpath, c.name)
  cloc = '%s:%d' % (c.module.relpath, c.node.lineno)
  ctx.check('threading.local' in c.base_names(), 'C09.thread', ccon,
            '_ScopeManager derives from threading.local: its instance attributes are per thread',
            '_ScopeManager no longer derives from threading.local (bases: %s): the scope stack is shared by all threads'
            % c.base_names(), cloc, instance='base')
  shared = [(n, v) for n, v, st in c.class_level_assigns()
            if v is not None and not isinstance(v, ast.Constant)]
  ctx.check(not shared, 'C09.thread', ccon, 'no class-level mutable attribute holds scope state',
            'class-level attribute(s) %s are shared by all threads (class attributes of a threading.local subclass are not per thread)'
            % [n for n, _ in shared], cloc, instance='class-attrs')
  # every method touching self._active_scopes initialises per thread first
  init = c.methods.get('_maybe_init') or c.methods.get('__init__')
  attr_users = 0
  inline_inits = []
  for name, m in sorted(c.methods.items()):
    uses = [n for n in walk_local(m.node) if isinstance(n, ast.Attribute)
            and isinstance(n.value, ast.Name) and n.value.id == 'self' and n.attr.startswith('_active')]
    if not uses or m is init:
      continue
    attr_users += 1
    if '__init__' in c.methods:
      ctx.hold('C09.thread', ccon, '%s: state initialised by per-thread __init__' % name, m.loc(), instance=name)
      continue
    first = m.node.body[0]
    if isinstance(first, ast.Expr) and isinstance(first.value, ast.Constant):
      first = m.node.body[1] if len(m.node.body) > 1 else None
    ok = first is not None and isinstance(first, ast.Expr) and isinstance(first.value, ast.Call) and \
        prog.resolve_call(m, first.value) == (init.qual if init else None)
    if not ok and first is not None and lazy_init_stmt(first) is not None:
      ok = True       # the initialisation itself, written in line
      inline_inits.append(lazy_init_stmt(first))
    ctx.check(ok, 'C09.thread', ccon, '%s: per-thread lazy initialisation runs first' % name,
              '%s touches the scope stack before the per-thread initialisation: a new thread has no stack' % name,
              m.loc(), instance=name)
  ctx.expect_at_least('_ScopeManager methods using the stack', attr_users, 4)
  if init is not None or inline_inits:
    fresh = list(inline_inits)
    init = init or next(m_ for _n, m_ in sorted(c.methods.items()))
    fresh += [n.value for n in walk_local(init.node) if isinstance(n, ast.Assign)
             and any(isinstance(t, ast.Attribute) and t.attr.startswith('_active') for t in n.targets)]
    # equivalent spellings on the instance dict: vars(self).setdefault('_active_scopes', <fresh>) / self.__dict__.setdefault(...)
    fresh += [c.args[1] for c in walk_local(init.node) if isinstance(c, ast.Call) and isinstance(c.func, ast.Attribute) and c.func.attr == 'setdefault'
              and u(c.func.value) in ('vars(self)', 'self.__dict__') and len(c.args) == 2 and isinstance(c.args[0], ast.Constant)
              and str(c.args[0].value).startswith('_active')]
    ok = bool(fresh) and all(copy_kind(v) == 'FRESH' for v in fresh)
    ctx.check(ok, 'C09.thread', ccon, 'the per-thread stack is created as a fresh list',
              'the per-thread stack is initialised from a shared object', init.loc(), instance='fresh-init')
  # module-level: the manager instance, and no function stores scope state in a global
  m = ctx.ix.module('config')
  inst = [n for n, lst in m.assigns.items() if isinstance(lst[0][1], ast.Call)
          and prog._resolve_expr_to_def(m, None, lst[0][1].func) is c]
  ctx.check(len(inst) == 1, 'C09.thread', ccon, 'exactly one module-level manager instance (%s)' % inst,
            'module-level manager instances: %s' % inst, cloc, instance='instance')

  instance_state(ctx, 'C09.thread', 'config._ScopeManager', {'_active_scopes'}, 'all scope state must live in the one per-thread stack')
  # ---- C09.copy-out
  scope_copy_out(ctx, 'C09.copy-out')
  cs = ctx.func('config.current_scope')
  rets = returns_of(cs)
  ok = len(rets) == 1 and u(rets[0].value) in ('_SCOPE_MANAGER.current_scope',) or \
      (len(rets) == 1 and at_least(copy_kind(rets[0].value), 'SHALLOW'))
  ctx.check(ok, 'C09.copy-out', construct(cs), 'current_scope() hands out the manager\'s copy',
            'current_scope() returns %s' % [u(r.value) for r in rets], cs.loc())
  stack_discipline(ctx, 'C09.pair')

  # ---- C09.who
  scope_who(ctx, 'C09.who')
  # direct writes to the stack attribute from outside the class
  raw = []
  for fn in ctx.ix.all_funcs():
    if fn.cls is c:
      continue
    for n in walk_local(fn.node):
      if isinstance(n, ast.Attribute) and n.attr.startswith('_active_scopes'):
        raw.append(fn.loc(n))
  ctx.check(not raw, 'C09.who', ccon, 'the stack attribute is touched only by _ScopeManager methods',
            'the stack attribute is accessed outside _ScopeManager at %s' % raw, raw[0] if raw else cloc,
            instance='raw-access')
  from .common import explicit_scope_replaces
  ctx.section(explicit_scope_replaces, ctx, 'C09.scope-entry')
  ctx.borrow('C04', 'C04.scope', 'C09.scope-entry', instances={'enter'})     # a scoped reference enters exactly its own scope
