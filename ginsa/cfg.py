"""Statement-level control-flow graph with exception edges (DESIGN.md E3/E6).

Built over the statement kinds the repository uses.  `finally` bodies are
instantiated once per continuation kind (normal / return / raise / break /
continue) so that a path through the graph is a real execution order.

Exception edges come from
  * explicit `raise`,
  * statements that call a *no-return* function (predicate `noreturn`),
  * a `yield` in a generator-based context manager (`yield_raises=True`, T1),
  * any statement for which the optional predicate `may_raise` is true.
"""
import ast

from .core import AnalysisError, FuncNode, u

_SIMPLE = (ast.Expr, ast.Assign, ast.AugAssign, ast.AnnAssign, ast.Pass,
           ast.Delete, ast.Global, ast.Nonlocal, ast.Import, ast.ImportFrom,
           ast.Assert, ast.FunctionDef, ast.AsyncFunctionDef, ast.ClassDef)


class Node:
  __slots__ = ('id', 'kind', 'ast', 'withs', 'trys', 'loops', 'copy_of')

  def __init__(self, id_, kind, astnode, withs, trys, loops):
    self.id = id_
    self.kind = kind      # entry exit raise stmt test for with_enter with_exit
                          # return raise_stmt dispatch handler
    self.ast = astnode
    self.withs = withs    # tuple of ast.With statements lexically enclosing
    self.trys = trys      # tuple of (ast.Try, part) lexically enclosing
    self.loops = loops    # tuple of loop statements lexically enclosing
    self.copy_of = None

  @property
  def lineno(self):
    return getattr(self.ast, 'lineno', 0)

  def text(self):
    if self.ast is None:
      return self.kind
    if self.kind == 'test':
      return 'if ' + u(self.ast)
    if self.kind == 'for':
      return 'for %s in %s' % (u(self.ast.target), u(self.ast.iter))
    if self.kind in ('with_enter', 'with_exit'):
      return '%s %s' % (self.kind, ', '.join(u(i.context_expr) for i in self.ast.items))
    if self.kind == 'handler':
      return 'except ' + (u(self.ast.type) if self.ast.type else '')
    if self.kind == 'dispatch':
      return 'except-dispatch'
    t = u(self.ast)
    return t.split('\n')[0][:100]

  def __repr__(self):
    return '<%d %s L%d %s>' % (self.id, self.kind, self.lineno, self.text()[:50])


class CFG:

  def __init__(self, fnode, noreturn=None, may_raise=None, yield_raises=False):
    self.fnode = fnode
    self.noreturn = noreturn or (lambda call: False)
    self.may_raise = may_raise or (lambda node: False)
    self.yield_raises = yield_raises
    self.nodes = []
    self.succ = {}
    self.pred = {}
    self.entry = self._new('entry', None, (), (), ())
    self.exit = self._new('exit', None, (), (), ())          # normal return
    self.raise_exit = self._new('raise', None, (), (), ())   # exception leaves
    ctx = dict(ret=self.exit.id, exc=self.raise_exit.id, brk=None, cont=None,
               withs=(), trys=(), loops=())
    first = self._seq(fnode.body, self.exit.id, ctx)
    self._edge(self.entry.id, first, 'n')
    self._prune()

  # ------------------------------------------------------------ construction
  def _new(self, kind, astnode, withs, trys, loops):
    n = Node(len(self.nodes), kind, astnode, withs, trys, loops)
    self.nodes.append(n)
    self.succ[n.id] = []
    self.pred[n.id] = []
    return n

  def _edge(self, a, b, kind):
    if b is None:
      raise AnalysisError('CFG: jump with no target at node %r' % self.nodes[a])
    if (b, kind) not in self.succ[a]:
      self.succ[a].append((b, kind))
      self.pred[b].append((a, kind))

  def _mk(self, kind, astnode, ctx):
    return self._new(kind, astnode, ctx['withs'], ctx['trys'], ctx['loops'])

  def _seq(self, stmts, nxt, ctx):
    for st in reversed(stmts):
      nxt = self._stmt(st, nxt, ctx)
    return nxt

  def _calls_noreturn(self, node):
    for n in _walk_expr(node):
      if isinstance(n, ast.Call) and self.noreturn(n):
        return True
    return False

  def _has_yield(self, node):
    return any(isinstance(n, (ast.Yield, ast.YieldFrom)) for n in _walk_expr(node))

  def _exc_edges(self, n, astnode, ctx):
    """Adds exception edges for node n; returns True if n cannot complete
    normally (explicit no-return call)."""
    if astnode is None:
      return False
    if self._calls_noreturn(astnode):
      self._edge(n.id, ctx['exc'], 'exc')
      return True
    if self.may_raise(astnode) or (self.yield_raises and self._has_yield(astnode)):
      self._edge(n.id, ctx['exc'], 'exc')
    return False

  def _stmt(self, st, nxt, ctx):
    if isinstance(st, _SIMPLE):
      n = self._mk('stmt', st, ctx)
      probe = st
      if isinstance(st, FuncNode + (ast.ClassDef,)):
        probe = None  # a definition; body is a separate graph
      if not self._exc_edges(n, probe, ctx):
        self._edge(n.id, nxt, 'n')
      return n.id
    if isinstance(st, ast.Return):
      n = self._mk('return', st, ctx)
      if not self._exc_edges(n, st.value, ctx):
        self._edge(n.id, ctx['ret'], 'ret')
      return n.id
    if isinstance(st, ast.Raise):
      n = self._mk('raise_stmt', st, ctx)
      self._edge(n.id, ctx['exc'], 'exc')
      return n.id
    if isinstance(st, ast.Break):
      n = self._mk('stmt', st, ctx)
      self._edge(n.id, ctx['brk'], 'n')
      return n.id
    if isinstance(st, ast.Continue):
      n = self._mk('stmt', st, ctx)
      self._edge(n.id, ctx['cont'], 'n')
      return n.id
    if isinstance(st, ast.If):
      n = self._mk('test', st.test, ctx)
      if not self._exc_edges(n, st.test, ctx):
        self._edge(n.id, self._seq(st.body, nxt, ctx), 'T')
        self._edge(n.id, self._seq(st.orelse, nxt, ctx) if st.orelse else nxt, 'F')
      return n.id
    if isinstance(st, ast.While):
      n = self._mk('test', st.test, ctx)
      after = self._seq(st.orelse, nxt, ctx) if st.orelse else nxt
      c2 = dict(ctx, brk=nxt, cont=n.id, loops=ctx['loops'] + (st,))
      if not self._exc_edges(n, st.test, ctx):
        self._edge(n.id, self._seq(st.body, n.id, c2), 'T')
        if not (isinstance(st.test, ast.Constant) and st.test.value is True):
          self._edge(n.id, after, 'F')
      return n.id
    if isinstance(st, (ast.For, ast.AsyncFor)):
      n = self._mk('for', st, ctx)
      after = self._seq(st.orelse, nxt, ctx) if st.orelse else nxt
      c2 = dict(ctx, brk=nxt, cont=n.id, loops=ctx['loops'] + (st,))
      if not self._exc_edges(n, st.iter, ctx):
        self._edge(n.id, self._seq(st.body, n.id, c2), 'loop')
        self._edge(n.id, after, 'exhaust')
      return n.id
    if isinstance(st, (ast.With, ast.AsyncWith)):
      c2 = dict(ctx, withs=ctx['withs'] + (st,))
      x = self._mk('with_exit', st, ctx)
      self._edge(x.id, nxt, 'n')
      e = self._mk('with_enter', st, ctx)
      probe = ast.Tuple(elts=[i.context_expr for i in st.items], ctx=ast.Load())
      if not self._exc_edges(e, probe, ctx):
        self._edge(e.id, self._seq(st.body, x.id, c2), 'n')
      return e.id
    if isinstance(st, ast.Try):
      return self._try(st, nxt, ctx)
    raise AnalysisError('CFG: unsupported statement %s at line %d' %
                        (type(st).__name__, getattr(st, 'lineno', 0)))

  def _try(self, st, nxt, ctx):
    if st.finalbody:
      memo = {}
      fctx = dict(ctx, trys=ctx['trys'] + ((st, 'finally'),))

      def fin(target, kind):
        # One instance of the finally body per continuation.
        if target is None:
          return None
        key = (target, kind)
        if key not in memo:
          # A marker node that transfers to `target` with the original edge
          # kind after the finally body has run.
          tail = self._mk('stmt', ast.Pass(lineno=st.finalbody[-1].lineno), fctx)
          tail.kind = 'finally_end'
          self._edge(tail.id, target, kind)
          memo[key] = self._seq(st.finalbody, tail.id, fctx)
        return memo[key]

      after = fin(nxt, 'n')
      outer = dict(ctx, ret=fin(ctx['ret'], 'ret'), exc=fin(ctx['exc'], 'exc'),
                   brk=fin(ctx['brk'], 'n'), cont=fin(ctx['cont'], 'n'))
    else:
      after = nxt
      outer = ctx

    if st.handlers:
      hctx = dict(outer, trys=ctx['trys'] + ((st, 'handler'),))
      d = self._mk('dispatch', st, hctx)
      catches_all = False
      for h in st.handlers:
        hn = self._mk('handler', h, hctx)
        self._edge(d.id, hn.id, 'match')
        self._edge(hn.id, self._seq(h.body, after, hctx), 'n')
        if h.type is None or u(h.type) in ('BaseException',):
          catches_all = True
      if not catches_all:
        self._edge(d.id, outer['exc'], 'exc')   # not matched by any handler
      body_exc = d.id
    else:
      body_exc = outer['exc']

    bctx = dict(outer, exc=body_exc, trys=ctx['trys'] + ((st, 'body'),))
    ectx = dict(outer, trys=ctx['trys'] + ((st, 'else'),))
    after_body = self._seq(st.orelse, after, ectx) if st.orelse else after
    return self._seq(st.body, after_body, bctx)

  def _prune(self):
    """Drops nodes unreachable from entry."""
    seen = set()
    stack = [self.entry.id]
    while stack:
      n = stack.pop()
      if n in seen:
        continue
      seen.add(n)
      stack.extend(b for b, _ in self.succ[n])
    keep = seen | {self.exit.id, self.raise_exit.id}
    for n in list(self.succ):
      if n not in keep:
        del self.succ[n]
        del self.pred[n]
      else:
        self.pred[n] = [(a, k) for a, k in self.pred[n] if a in seen]
    self.live = keep

  # ----------------------------------------------------------------- queries
  def live_nodes(self):
    return [self.nodes[i] for i in sorted(self.succ)]

  def nodes_for(self, astnode):
    """All graph nodes (there can be several: finally copies) for a stmt."""
    return [n for n in self.live_nodes() if n.ast is astnode]

  def find(self, pred):
    return [n for n in self.live_nodes() if n.ast is not None and pred(n)]

  def reachable_from(self, start, avoid=()):
    avoid = set(avoid)
    seen = set()
    stack = [start]
    while stack:
      n = stack.pop()
      if n in seen or n in avoid:
        continue
      seen.add(n)
      stack.extend(b for b, _ in self.succ[n])
    return seen

  def reaches(self, a, b, avoid=()):
    """Is there a path a ->+ b that avoids the nodes in `avoid`?"""
    avoid = set(avoid)
    seen = set()
    stack = [x for x, _ in self.succ[a]]
    while stack:
      n = stack.pop()
      if n in seen or n in avoid:
        continue
      if n == b:
        return True
      seen.add(n)
      stack.extend(x for x, _ in self.succ[n])
    return False

  def normal_exit_reachable(self):
    return bool(self.pred[self.exit.id])

  def dominators(self):
    ids = sorted(self.succ)
    full = set(ids)
    dom = {n: set(full) for n in ids}
    dom[self.entry.id] = {self.entry.id}
    changed = True
    while changed:
      changed = False
      for n in ids:
        if n == self.entry.id:
          continue
        ps = [dom[p] for p, _ in self.pred[n]]
        new = set.intersection(*ps) if ps else set()
        new = new | {n}
        if new != dom[n]:
          dom[n] = new
          changed = True
    return dom

  def paths(self, start, targets, max_visits=2, limit=20000, avoid=()):
    """Enumerates paths start -> any node in targets.  Each node may be
    visited at most `max_visits` times on a path (loops unrolled 0..k-1).
    Yields lists of (node_id, edge_kind_taken_to_leave)."""
    targets = set(targets)
    avoid = set(avoid)
    out = []
    count = {}

    def rec(n, acc):
      if len(out) >= limit:
        raise AnalysisError('path enumeration limit exceeded in %s' %
                            getattr(self.fnode, 'name', '?'))
      if n in targets:
        out.append(acc + [(n, None)])
        return
      if n in avoid:
        return
      if count.get(n, 0) >= max_visits:
        return
      count[n] = count.get(n, 0) + 1
      for b, k in self.succ[n]:
        rec(b, acc + [(n, k)])
      count[n] -= 1

    rec(start, [])
    return out

  # --------------------------------------------------------------- must-facts
  def must_facts(self, edge_facts, kill, extra_in=None):
    """Forward must-analysis.

    edge_facts(node, edge_kind) -> iterable of facts established when leaving
      `node` along an edge of that kind.
    kill(node, fact) -> True if executing `node` invalidates `fact`.
    Returns dict node_id -> frozenset of facts that hold on *every* path on
    entry to the node.
    """
    ids = sorted(self.succ)
    TOP = None
    inn = {n: TOP for n in ids}
    inn[self.entry.id] = frozenset()
    work = [self.entry.id]
    while work:
      n = work.pop()
      cur = inn[n]
      node = self.nodes[n]
      survived = frozenset(f for f in cur if not kill(node, f))
      for b, k in self.succ[n]:
        out = survived | frozenset(edge_facts(node, k))
        if inn[b] is TOP:
          new = out
        else:
          new = inn[b] & out
        if extra_in and b in extra_in:
          new = new | extra_in[b]       # facts known to hold on entry to b whatever the path (see lib.std_facts: join disjunctions)
        if new != inn[b]:
          inn[b] = new
          work.append(b)
    return {n: (v if v is not None else frozenset()) for n, v in inn.items()}


def _walk_expr(node):
  """Walk an expression/statement without entering nested defs/lambdas."""
  stack = [node]
  while stack:
    n = stack.pop()
    yield n
    for c in ast.iter_child_nodes(n):
      if isinstance(c, FuncNode + (ast.ClassDef, ast.Lambda)):
        continue
      stack.append(c)


# ----------------------------------------------------------------------------
# Condition atoms


def decompose(test, polarity=True):
  """Facts implied by `test` evaluating to `polarity`.

  Returns a list of (atom_text, bool).  Conjunctions that hold and
  disjunctions that fail are split; anything else is kept whole.
  Comparison forms are normalised: `a != b` -> (a == b, False),
  `a not in b` -> (a in b, False), `a is not b` -> (a is b, False).
  """
  if isinstance(test, ast.UnaryOp) and isinstance(test.op, ast.Not):
    return decompose(test.operand, not polarity)
  if isinstance(test, ast.BoolOp):
    if isinstance(test.op, ast.And) and polarity:
      return [f for v in test.values for f in decompose(v, True)]
    if isinstance(test.op, ast.Or) and not polarity:
      return [f for v in test.values for f in decompose(v, False)]
    return [(u(test), polarity)]
  if isinstance(test, ast.Compare) and len(test.ops) == 1:
    op = test.ops[0]
    l, r = test.left, test.comparators[0]
    flip = {ast.NotEq: ast.Eq, ast.NotIn: ast.In, ast.IsNot: ast.Is}
    for neg, pos in flip.items():
      if isinstance(op, neg):
        t = ast.Compare(left=l, ops=[pos()], comparators=[r])
        return [(u(t), not polarity)]
    return [(u(test), polarity)]
  return [(u(test), polarity)]


def atoms_of(test):
  """All leaf atoms of a condition as (text, polarity-when-condition-true)
  with and/or structure flattened: used to *describe* a guard, not to reason
  about it."""
  out = []

  def rec(t, pol):
    if isinstance(t, ast.UnaryOp) and isinstance(t.op, ast.Not):
      rec(t.operand, not pol)
    elif isinstance(t, ast.BoolOp):
      for v in t.values:
        rec(v, pol)
    else:
      for a in decompose(t, pol):
        out.append(a)

  rec(test, True)
  return out


def witness(g, start, goals, avoid=()):
  """Shortest path (list of node ids) from start to any goal avoiding nodes."""
  goals = set(goals)
  avoid = set(avoid)
  prev = {start: None}
  queue = [start]
  while queue:
    n = queue.pop(0)
    if n in goals and n != start:
      out = []
      while n is not None:
        out.append(n)
        n = prev[n]
      return out[::-1]
    for b, _ in g.succ[n]:
      if b not in prev and b not in avoid:
        prev[b] = n
        queue.append(b)
  return None


def describe_path(g, ids):
  return ['L%d %s' % (g.nodes[i].lineno, g.nodes[i].text()) for i in ids]


def pair_leaks(g, acquire_ids, release_ids):
  """Paths from an acquire to a function exit that pass no release."""
  out = []
  for a in acquire_ids:
    for goal, name in ((g.exit.id, 'normal exit'), (g.raise_exit.id, 'exception exit')):
      w = witness(g, a, [goal], avoid=release_ids)
      if w:
        out.append((a, name, w))
  return out


def release_without_acquire(g, acquire_ids, release_ids):
  """Releases reachable from entry on a path that passes no acquire."""
  out = []
  for r in release_ids:
    w = witness(g, g.entry.id, [r], avoid=acquire_ids)
    if w:
      out.append((r, w))
  return out


def double_release(g, acquire_ids, release_ids):
  out = []
  for r in release_ids:
    w = witness(g, r, release_ids, avoid=acquire_ids)
    if w:
      out.append((r, w))
  return out
