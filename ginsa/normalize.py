"""Semantics-preserving AST normalisation run before any rule (robustness to
behaviour-preserving restructuring; DESIGN.md 11.6).

  inline_new_helpers   calls to functions that do not exist on the reference
                       tree (helpers *extracted* from a function the rules know)
                       are inlined back at their call sites
  idioms               a few equivalent spellings are rewritten to the one the
                       rules are written against:
                         with ExitStack() as s: s.callback(f, *a); BODY   -> try: BODY finally: f(*a)
                         with ExitStack() as s: [x =] s.enter_context(cm); BODY -> with cm [as x]: BODY
                         L.acquire(); try: BODY finally: L.release()        -> with L: BODY
                         x = {**a, **b}                                     -> x = a.copy(); x.update(b)
                         if k not in d: d[k] = v ; x = d[k]                 -> x = d.setdefault(k, v)

Everything here produces ordinary Python AST, so the rest of the engine is
unaware of it.  Nothing is executed.
"""
import ast
import copy
import json
import os

FN = (ast.FunctionDef, ast.AsyncFunctionDef)
TABLE = os.path.join(os.path.dirname(os.path.abspath(__file__)), 'canon_names.json')
_ref_cache = None


def reference_functions():
  global _ref_cache
  if _ref_cache is None:
    try:
      with open(TABLE) as f:
        t = json.load(f)
      _ref_cache = {m: set(v) for m, v in t.items()}
    except Exception:
      _ref_cache = {}
  return _ref_cache


# ----------------------------------------------------------------------------
# helpers


def _bodies(node):
  """Yields (owner, fieldname, list) for every statement list under node."""
  for n in ast.walk(node):
    for fld in ('body', 'orelse', 'finalbody'):
      b = getattr(n, fld, None)
      if isinstance(b, list) and b and isinstance(b[0], ast.stmt):
        yield n, fld, b
    if isinstance(n, ast.Try):
      for h in n.handlers:
        yield h, 'body', h.body


def _names_stored(node):
  out = set()
  for n in ast.walk(node):
    if isinstance(n, ast.Name) and isinstance(n.ctx, (ast.Store, ast.Del)):
      out.add(n.id)
    elif isinstance(n, ast.ExceptHandler) and n.name:
      out.add(n.name)
    elif isinstance(n, FN + (ast.ClassDef,)):
      out.add(n.name)
  return out


def _all_names(node):
  return {n.id for n in ast.walk(node) if isinstance(n, ast.Name)}


def _simple(e):
  if isinstance(e, (ast.Name, ast.Constant)):
    return True
  if isinstance(e, ast.Attribute):
    return _simple(e.value)
  return False


def _returns_in_loops(fn):
  def rec(stmts, in_loop):
    for st in stmts:
      if isinstance(st, ast.Return) and in_loop:
        return True
      if isinstance(st, FN + (ast.ClassDef,)):
        continue
      loop = in_loop or isinstance(st, (ast.For, ast.While))
      for fld in ('body', 'orelse', 'finalbody'):
        if rec(getattr(st, fld, []) or [], loop if fld == 'body' else in_loop):
          return True
      for h in getattr(st, 'handlers', []) or []:
        if rec(h.body, in_loop):
          return True
    return False
  return rec(fn.body, False)


def _has_yield(fn):
  for n in ast.walk(fn):
    if isinstance(n, (ast.Yield, ast.YieldFrom)):
      return True
  return False


class _Subst(ast.NodeTransformer):

  def __init__(self, mapping, renames):
    self.mapping = mapping      # param -> expr (substituted)
    self.renames = renames      # local -> new name

  def visit_Name(self, n):
    if n.id in self.mapping and isinstance(n.ctx, ast.Load):
      return copy.deepcopy(self.mapping[n.id])
    if n.id in self.renames:
      return ast.copy_location(ast.Name(id=self.renames[n.id], ctx=n.ctx), n)
    return n

  def visit_FunctionDef(self, n):
    return n     # do not descend into nested defs of the helper

  def visit_Lambda(self, n):
    return n


def _can_fall_through(stmts):
  if not stmts:
    return True
  last = stmts[-1]
  if isinstance(last, (ast.Return, ast.Raise)):
    return False
  if isinstance(last, ast.If):
    return _can_fall_through(last.body) or _can_fall_through(last.orelse)
  return True


_NORETURN = set()     # simple names of the module's functions that always raise (set per module by normalize())


def _noreturn_names(tree):
  """Functions / methods whose every path ends in `raise` (no return anywhere): calling one ends the path."""
  out = set()
  for n in ast.walk(tree):
    if isinstance(n, ast.FunctionDef) and not any(isinstance(x, (ast.Yield, ast.YieldFrom)) for x in ast.walk(n)):
      body = n.body
      if _count_returns(body) == 0 and body and _ends_in_raise(body):
        out.add(n.name)
  return out


def _ends_in_raise(stmts):
  if not stmts:
    return False
  last = stmts[-1]
  if isinstance(last, ast.Raise):
    return True
  if isinstance(last, ast.If):
    return bool(last.orelse) and _ends_in_raise(last.body) and _ends_in_raise(last.orelse)
  return False


def _is_noreturn_call(st):
  if isinstance(st, ast.Expr) and isinstance(st.value, ast.Call):
    f = st.value.func
    name = f.id if isinstance(f, ast.Name) else (f.attr if isinstance(f, ast.Attribute) and isinstance(f.value, ast.Name) and f.value.id in ('self', 'cls') else None)
    return name in _NORETURN
  return False


def _no_fall(stmts):
  """True if control never runs off the end of `stmts` (ends in return / raise / a call that always raises, on every branch)."""
  if not stmts:
    return False
  last = stmts[-1]
  if isinstance(last, (ast.Return, ast.Raise)) or _is_noreturn_call(last):
    return True
  if isinstance(last, ast.If):
    return bool(last.orelse) and _no_fall(last.body) and _no_fall(last.orelse)
  if isinstance(last, ast.Try) and not last.orelse and not last.finalbody:
    return _no_fall(last.body) and all(_no_fall(h.body) for h in last.handlers)
  return False


def _elseify(stmts):
  """`if c: ...; return x` followed by more statements  ->  if c: ... return x / else: <rest>."""
  out = []
  for i, st in enumerate(stmts):
    if isinstance(st, ast.If):
      st.body = _elseify(st.body)
      st.orelse = _elseify(st.orelse)
      rest = stmts[i + 1:]
      if rest and _no_fall(st.body) and not (st.orelse and _no_fall(st.orelse)):
        st.orelse = _elseify(list(st.orelse) + rest)
        out.append(st)
        return out
      if rest and st.orelse and _no_fall(st.orelse) and not _no_fall(st.body):
        st.body = _elseify(list(st.body) + rest)
        out.append(st)
        return out
    out.append(st)
  return out


def _tail_returns_only(stmts):
  """Every `return` is in tail position of the (if/else structured) statement list."""
  def tails(ss):
    n = 0
    if not ss:
      return 0
    last = ss[-1]
    if isinstance(last, ast.Return):
      n += 1
    elif isinstance(last, ast.If):
      n += tails(last.body) + tails(last.orelse)
    elif isinstance(last, ast.Try) and not last.orelse and not last.finalbody:
      # `try: ...; return E  except X: ...`: the value is bound inside the try instead, nothing follows the statement
      n += tails(last.body) + sum(tails(h.body) for h in last.handlers)
    return n
  return tails(stmts) == _count_returns(stmts)


def _replace_returns(stmts, make):
  """Replaces `return e` by make(e) (a list of statements), not inside nested defs."""
  out = []
  for st in stmts:
    if isinstance(st, ast.Return):
      out.extend(make(st.value, st))
      continue
    if not isinstance(st, FN + (ast.ClassDef,)):
      for fld in ('body', 'orelse', 'finalbody'):
        b = getattr(st, fld, None)
        if isinstance(b, list):
          setattr(st, fld, _replace_returns(b, make))
      for h in getattr(st, 'handlers', []) or []:
        h.body = _replace_returns(h.body, make)
    out.append(st)
  return out


def _count_returns(stmts):
  """`return` statements of this scope (nested definitions have their own)."""
  n = 0
  stack = list(stmts)
  while stack:
    x = stack.pop()
    if isinstance(x, FN + (ast.ClassDef, ast.Lambda)):
      continue
    if isinstance(x, ast.Return):
      n += 1
    stack.extend(ast.iter_child_nodes(x))
  return n


def _close_fallthrough(stmts, target):
  """Adds `return None` at the end of every branch that can run off the end."""
  if not stmts:
    return [ast.Return(value=ast.Constant(value=None))]
  last = stmts[-1]
  if isinstance(last, (ast.Return, ast.Raise)) or _is_noreturn_call(last):
    return stmts
  if isinstance(last, ast.If) and last.orelse:
    last.body = _close_fallthrough(last.body, target)
    last.orelse = _close_fallthrough(last.orelse, target)
    return stmts
  if isinstance(last, ast.Try) and not last.orelse and not last.finalbody:
    last.body = _close_fallthrough(last.body, target)
    for h in last.handlers:
      h.body = _close_fallthrough(h.body, target)
    return stmts
  return stmts + [ast.Return(value=ast.Constant(value=None))]


# ----------------------------------------------------------------------------
# inlining


class Inliner:

  def __init__(self, tree, modname, skip=(), nested=False):
    self.skip = set(skip)
    self.nested = nested
    self._owner = None
    self._maps = None
    self.tree = tree
    self.modname = modname
    ref = reference_functions().get(modname)
    self.ref = ref
    self.funcs = {}       # name -> FunctionDef (module level)
    self.methods = {}     # class name -> {name: FunctionDef}
    for st in tree.body:
      if isinstance(st, ast.FunctionDef):
        self.funcs[st.name] = st
      elif isinstance(st, ast.ClassDef):
        self.methods[st.name] = {m.name: m for m in st.body if isinstance(m, ast.FunctionDef)}
    self.count = 0
    self._tmp = 0

  def is_new(self, qual):
    return self.ref is not None and qual not in self.ref

  def _closure(self, name):
    """A new closure `name` visible from the function being processed (defined in it or in a function around it), whose
    free variables mean the same thing there."""
    if not self.nested or self._owner is None:
      return None
    if self._maps is None or self._maps[0] != self.count:
      from .canon import _functions
      fl = _functions(self.tree, self.modname)
      quals = {id(fn): q for q, fn in fl}
      encl = {}
      names = set()
      for q, fn in fl:
        for n in _own_walk(fn):
          if isinstance(n, ast.FunctionDef):
            encl[id(n)] = fn
            names.add(n.name)
      self._maps = (self.count, quals, encl, names)
    _c, quals, encl, names = self._maps
    if name not in names:
      return None
    chain, cur = [], self._owner
    while cur is not None:
      chain.append(cur)
      cur = encl.get(id(cur))
    for depth, D in enumerate(chain):
      for n in _own_walk(D):
        if isinstance(n, ast.FunctionDef) and n.name == name and n is not self._owner:
          q = quals.get(id(n))
          if q is None or not self.is_new(q) or n.decorator_list:
            return None
          if sum(1 for x in _own_walk(D) if isinstance(x, ast.FunctionDef) and x.name == name) != 1:
            return None
          if any(isinstance(x, ast.Name) and x.id == name and isinstance(x.ctx, ast.Store) for x in ast.walk(D)):
            return None
          # free variables of the closure are D's: between D and the caller nothing may shadow them
          params = {a.arg for a in ast.walk(n.args) if isinstance(a, ast.arg)}
          local = {x.id for x in _own_walk(n) if isinstance(x, ast.Name) and isinstance(x.ctx, ast.Store)} | params
          free = {x.id for x in ast.walk(n) if isinstance(x, ast.Name)} - local
          for mid in chain[:depth]:
            bound = {a.arg for a in ast.walk(mid.args) if isinstance(a, ast.arg)}
            bound |= {x.id for x in _own_walk(mid) if isinstance(x, ast.Name) and isinstance(x.ctx, ast.Store)}
            if bound & free:
              return None
          return n
    return None

  def _callee(self, call, cls):
    f = call.func
    if isinstance(f, ast.Name):
      c = self._closure(f.id)
      if c is not None:
        return c, None
    if isinstance(f, ast.Name) and f.id in self.funcs and f.id not in self.skip:
      q = '%s.%s' % (self.modname, f.id)
      if self.is_new(q):
        return self.funcs[f.id], None
    if isinstance(f, ast.Attribute) and isinstance(f.value, ast.Name) and f.value.id in ('self', 'cls') and cls is not None:
      m = self.methods.get(cls.name, {}).get(f.attr)
      if m is not None and self.is_new('%s.%s.%s' % (self.modname, cls.name, f.attr)):
        return m, f.value
    # a new method called on a local that was bound, once, to a fresh instance of one of the module's classes
    if isinstance(f, ast.Attribute) and isinstance(f.value, ast.Name) and self._owner is not None and f.value.id not in ('self', 'cls'):
      x = f.value.id
      stores = [n for n in _own_walk(self._owner) if isinstance(n, ast.Name) and n.id == x and isinstance(n.ctx, ast.Store)]
      if len(stores) == 1 and x not in {a.arg for a in ast.walk(self._owner.args) if isinstance(a, ast.arg)}:
        for st in _own_walk(self._owner):
          if isinstance(st, ast.Assign) and len(st.targets) == 1 and st.targets[0] is stores[0] and isinstance(st.value, ast.Call) \
              and isinstance(st.value.func, ast.Name) and st.value.func.id in self.methods:
            cname = st.value.func.id
            m = self.methods[cname].get(f.attr)
            if m is not None and self.is_new('%s.%s.%s' % (self.modname, cname, f.attr)) and \
                not any(ast.unparse(d) in ('staticmethod', 'classmethod', 'property') for d in m.decorator_list):
              return m, f.value
    return None, None

  def _nested_helper_call(self, st, cls, owner_fn):
    """First call to an inlinable new helper that is evaluated unconditionally inside statement st."""
    if isinstance(st, ast.For):
      roots = [st.iter]
    elif isinstance(st, ast.If):
      roots = [st.test]
    elif isinstance(st, ast.With):
      roots = [it.context_expr for it in st.items]
    elif isinstance(st, ast.Raise):
      roots = [st.exc] if st.exc is not None else []
    else:
      roots = [st.value] if getattr(st, 'value', None) is not None else []
    stack = list(roots)
    while stack:
      n = stack.pop(0)
      if isinstance(n, (ast.Lambda, ast.ListComp, ast.SetComp, ast.DictComp, ast.GeneratorExp, ast.IfExp)):
        continue
      if isinstance(n, ast.BoolOp):
        stack.insert(0, n.values[0])
        continue
      if isinstance(n, ast.Call):
        fn, _s = self._callee(n, cls)
        if fn is not None and fn is not owner_fn and self._inlinable(fn) and (n is not getattr(st, 'value', None) or isinstance(st, ast.AugAssign)):
          return n
      stack[0:0] = list(ast.iter_child_nodes(n))
    return None

  def _inlinable(self, fn):
    a = fn.args
    if a.vararg or a.kwarg or _has_yield(fn) or isinstance(fn, ast.AsyncFunctionDef):
      return False
    decs = [ast.unparse(d) for d in fn.decorator_list]
    if any(d not in ('staticmethod',) for d in decs):
      return False
    if _returns_in_loops(fn):
      return False
    for n in ast.walk(fn):
      if isinstance(n, ast.Call) and isinstance(n.func, ast.Name) and n.func.id == fn.name:
        return False
      if isinstance(n, (ast.Global, ast.Nonlocal)):
        return False
    return True

  def _bind(self, fn, call, selfexpr, caller_names, free=(), dead_after=()):
    a = fn.args
    params = [x.arg for x in a.posonlyargs + a.args]
    is_static = any(ast.unparse(d) == 'staticmethod' for d in fn.decorator_list)
    argv = list(call.args)
    if selfexpr is not None and not is_static:
      argv = [selfexpr] + argv
    if any(isinstance(x, ast.Starred) for x in argv) or any(k.arg is None for k in call.keywords):
      return None
    if len(argv) > len(params):
      return None
    bound = dict(zip(params, argv))
    kwonly = [x.arg for x in a.kwonlyargs]
    for k in call.keywords:
      if k.arg in params or k.arg in kwonly:
        if k.arg in bound:
          return None
        bound[k.arg] = k.value
      else:
        return None
    defaults = dict(zip(params[len(params) - len(a.defaults):], a.defaults))
    defaults.update({n: d for n, d in zip(kwonly, a.kw_defaults) if d is not None})
    for p in params + kwonly:
      if p not in bound:
        if p in defaults:
          bound[p] = defaults[p]
        else:
          return None
    stored = _names_stored(ast.Module(body=fn.body, type_ignores=[]))
    mapping, pre, renames = {}, [], {}
    for p, e in bound.items():
      if _simple(e) and p not in stored:
        mapping[p] = e
      elif isinstance(e, ast.Name) and e.id in dead_after and e.id not in stored and list(bound.values()).count(e) == 1 \
          and sum(1 for v in bound.values() if isinstance(v, ast.Name) and v.id == e.id) == 1:
        # the argument variable is not read again by the caller: the parameter can simply be that variable
        renames[p] = e.id
      else:
        nm = p if (p not in caller_names or (isinstance(e, ast.Name) and e.id == p)) else p + '__in'
        if isinstance(e, ast.Name) and e.id == nm:
          pass      # x = x : nothing to do, same name
        else:
          pre.append(ast.Assign(targets=[ast.Name(id=nm, ctx=ast.Store())], value=copy.deepcopy(e)))
        if nm != p:
          renames[p] = nm
    for loc in stored:
      if loc in bound:
        continue
      if loc in caller_names and loc not in free:
        nm_ = loc + '__in'
        k_ = 1
        while nm_ in caller_names:
          k_ += 1
          nm_ = '%s__in%d' % (loc, k_)
        renames[loc] = nm_
    return mapping, pre, renames

  def _expand(self, st, cls, caller_fn):
    """Returns replacement statement list for st, or None."""
    call = None
    kind = None
    if isinstance(st, ast.Expr) and isinstance(st.value, ast.Call):
      call, kind = st.value, 'expr'
    elif isinstance(st, ast.Assign) and len(st.targets) == 1 and isinstance(st.value, ast.Call):
      call, kind = st.value, 'assign'
    elif isinstance(st, ast.Return) and isinstance(st.value, ast.Call):
      call, kind = st.value, 'return'
    if call is None:
      return None
    fn, selfexpr = self._callee(call, cls)
    if fn is None or fn is caller_fn or not self._inlinable(fn):
      return None
    caller_names = _all_names(caller_fn) if caller_fn is not None else set()
    # names that the statement overwrites anyway and the call does not read may be reused by the inlined body
    free = set()
    if kind == 'assign':
      tg = st.targets[0]
      tn = [e for e in (tg.elts if isinstance(tg, (ast.Tuple, ast.List)) else [tg])]
      if all(isinstance(e, ast.Name) for e in tn):
        used = {x.id for x in ast.walk(call) if isinstance(x, ast.Name)}
        free = {e.id for e in tn} - used
    dead_after = set()
    if caller_fn is not None:
      for a_ in list(call.args) + [k_.value for k_ in call.keywords]:
        if isinstance(a_, ast.Name) and not _used_after(caller_fn, st, a_.id):
          dead_after.add(a_.id)
    b = self._bind(fn, call, selfexpr, caller_names, free, dead_after)
    if b is None:
      return None
    mapping, pre, renames = b
    body = copy.deepcopy(fn.body)
    if body and isinstance(body[0], ast.Expr) and isinstance(body[0].value, ast.Constant) and isinstance(body[0].value.value, str):
      body = body[1:]
    sub = _Subst(mapping, renames)
    body = [sub.visit(s) for s in body]
    if kind == 'return':
      new = pre + body
      if _can_fall_through(body):
        new.append(ast.Return(value=ast.Constant(value=None)))
    else:
      target = st.targets[0] if kind == 'assign' else None
      nret = _count_returns(body)
      single_tail = nret == 0 or (nret == 1 and isinstance(body[-1], ast.Return))
      if not single_tail:
        body2 = _elseify(copy.deepcopy(body))
        if _tail_returns_only(body2):
          falls = not _no_fall(body2)
          body = body2
          single_tail = True
          if falls and target is not None:
            # paths that run off the end return None: close them explicitly
            body = _close_fallthrough(body, target)

      def make(value, orig, loop):
        out = []
        if target is not None:
          out.append(ast.Assign(targets=[copy.deepcopy(target)], value=value if value is not None else ast.Constant(value=None)))
        elif value is not None and not isinstance(value, (ast.Constant, ast.Name)):
          out.append(ast.Expr(value=value))
        if loop:
          out.append(ast.Break())
        return out or ([ast.Pass()] if not loop else [])

      if single_tail:
        body = _replace_returns(body, lambda v, o: make(v, o, False))
        if nret == 0 and target is not None and not _no_fall(fn.body):
          body.append(ast.Assign(targets=[copy.deepcopy(target)], value=ast.Constant(value=None)))
        new = pre + (body or [ast.Pass()])
      else:
        falls = not _no_fall(body)
        body = _replace_returns(body, lambda v, o: make(v, o, True))
        if falls:
          body.extend(make(None, None, True))
        new = pre + [ast.While(test=ast.Constant(value=True), body=body, orelse=[])]
    for s in new:
      ast.copy_location(s, st)
      for x in ast.walk(s):
        if not hasattr(x, 'lineno'):
          ast.copy_location(x, st)
    self.count += 1
    return new

  def run(self, rounds=4):
    for _ in range(rounds):
      changed = False
      for owner_fn, cls in self._functions():
        self._owner = owner_fn
        for node, fld, body in list(_bodies(owner_fn)):
          # do not touch bodies of nested function definitions here (handled as their own owner)
          i = 0
          while i < len(body):
            st = body[i]
            if isinstance(st, FN + (ast.ClassDef,)):
              i += 1
              continue
            # hoist `if H(...):` / `if not H(...):`
            if isinstance(st, ast.If):
              t = st.test.operand if isinstance(st.test, ast.UnaryOp) and isinstance(st.test.op, ast.Not) else st.test
              if isinstance(t, ast.Call):
                fn, _s = self._callee(t, cls)
                if fn is not None and fn is not owner_fn and self._inlinable(fn):
                  tmp = ast.Name(id='__t_%s' % fn.name.lstrip('_'), ctx=ast.Store())
                  asg = ast.copy_location(ast.Assign(targets=[tmp], value=t), st)
                  load = ast.Name(id=tmp.id, ctx=ast.Load())
                  st.test = ast.UnaryOp(op=ast.Not(), operand=load) if t is not st.test else load
                  body.insert(i, asg)
                  st = asg
            new = self._expand(st, cls, owner_fn)
            if new is None and isinstance(st, (ast.Return, ast.Assign, ast.Expr, ast.AugAssign, ast.For, ast.If, ast.With, ast.Raise)):
              # a helper call nested in the statement's expression (evaluated unconditionally): hoist it
              c = self._nested_helper_call(st, cls, owner_fn)
              if c is not None:
                fnc = self._callee(c, cls)[0]
                self._tmp += 1
                tmpn = '__t_%s%d' % (fnc.name.lstrip('_'), self._tmp)
                asg = ast.copy_location(ast.Assign(targets=[ast.Name(id=tmpn, ctx=ast.Store())], value=copy.deepcopy(c)), st)
                ast.fix_missing_locations(asg)

                class Rep(ast.NodeTransformer):
                  def visit_Call(self, n):
                    if n is c:
                      return ast.copy_location(ast.Name(id=tmpn, ctx=ast.Load()), n)
                    self.generic_visit(n)
                    return n
                if isinstance(st, (ast.For, ast.If, ast.With)):
                  # only the header expression is rewritten, not the nested statements
                  if isinstance(st, ast.For):
                    st.iter = Rep().visit(st.iter)
                  elif isinstance(st, ast.If):
                    st.test = Rep().visit(st.test)
                  else:
                    for it in st.items:
                      it.context_expr = Rep().visit(it.context_expr)
                else:
                  body[i] = Rep().visit(st)
                body.insert(i, asg)
                st = asg
                new = self._expand(st, cls, owner_fn)
                changed = True
            if new is not None:
              body[i:i + 1] = new
              changed = True
              i += len(new)
            else:
              i += 1
      if not changed:
        break
    self._owner = None
    if self.count:
      self._drop_dead_helpers()
      if self.nested:
        self._drop_dead_closures()
    return self.count

  def _drop_dead_closures(self):
    from .canon import _functions
    for _ in range(3):
      dropped = False
      for q, D in _functions(self.tree, self.modname):
        for node, fld, body in list(_bodies(D)):
          for st in list(body):
            if isinstance(st, ast.FunctionDef) and self.is_new(q + '.' + st.name) and not st.decorator_list:
              own = {id(n) for n in ast.walk(st)}
              if not any(isinstance(n, ast.Name) and n.id == st.name and id(n) not in own for n in ast.walk(D)):
                body.remove(st)
                if not body:
                  body.append(ast.Pass())
                dropped = True
      if not dropped:
        break

  def _drop_dead_helpers(self):
    """Private helpers that only existed to be called from where they are now inlined."""
    for _ in range(3):
      dropped = False
      for st in list(self.tree.body):
        if isinstance(st, ast.FunctionDef) and st.name.startswith('_') and not st.name.startswith('__') \
            and self.is_new('%s.%s' % (self.modname, st.name)) and not st.decorator_list:
          own = {id(n) for n in ast.walk(st)}
          used = any(isinstance(n, ast.Name) and n.id == st.name and id(n) not in own for n in ast.walk(self.tree)) or \
              any(isinstance(n, ast.Attribute) and n.attr == st.name for n in ast.walk(self.tree))
          if not used:
            self.tree.body.remove(st)
            self.funcs.pop(st.name, None)
            dropped = True
      if not dropped:
        break

  def _functions(self):
    out = []
    for st in self.tree.body:
      if isinstance(st, ast.FunctionDef):
        out.append((st, None))
        for n in ast.walk(st):
          if isinstance(n, ast.FunctionDef) and n is not st:
            out.append((n, None))
      elif isinstance(st, ast.ClassDef):
        for m in st.body:
          if isinstance(m, ast.FunctionDef):
            out.append((m, st))
            for n in ast.walk(m):
              if isinstance(n, ast.FunctionDef) and n is not m:
                out.append((n, st))
    # only functions that exist on the reference tree get helpers inlined into them
    return out


# ----------------------------------------------------------------------------
# idioms


def _is_exitstack(item):
  ce = item.context_expr
  return isinstance(ce, ast.Call) and ast.unparse(ce.func) in ('contextlib.ExitStack', 'ExitStack') and not ce.args \
      and isinstance(item.optional_vars, ast.Name)


def _rewrite_exitstack(body_list):
  changed = 0
  i = 0
  while i < len(body_list):
    st = body_list[i]
    if isinstance(st, ast.With) and len(st.items) == 1 and _is_exitstack(st.items[0]):
      s = st.items[0].optional_vars.id
      inner = list(st.body)
      # statements before the first registration that do not touch the stack run before the protected region
      pre = []
      while inner and not any(isinstance(n, ast.Name) and n.id == s for n in ast.walk(inner[0])) \
          and any(isinstance(n, ast.Name) and n.id == s for x in inner[1:] for n in ast.walk(x)) \
          and isinstance(inner[0], (ast.Expr, ast.Assign, ast.AugAssign)):
        pre.append(inner.pop(0))
      # the stack variable must only be used by leading callback / enter_context statements
      lead = []
      while inner:
        x = inner[0]
        c = x.value if isinstance(x, (ast.Expr, ast.Assign)) else None
        if isinstance(c, ast.Call) and isinstance(c.func, ast.Attribute) and isinstance(c.func.value, ast.Name) and c.func.value.id == s \
            and c.func.attr in ('callback', 'enter_context') and not c.keywords and c.args:
          lead.append(inner.pop(0))
        else:
          break
      still = any(isinstance(n, ast.Name) and n.id == s for x in inner for n in ast.walk(x))
      if lead and not still:
        new = inner or [ast.Pass()]
        for li, x in enumerate(reversed(lead)):
          c = x.value
          if c.func.attr == 'callback':
            # the callback's arguments are evaluated when it is registered, not when it runs
            cargs = []
            for ai, av in enumerate(c.args[1:]):
              if isinstance(av, ast.Constant) or (isinstance(av, ast.Name) and not any(_stores(x_, av.id) for x_ in inner)):
                cargs.append(av)
              else:
                tmp = '__cb%d_%d_%d' % (getattr(st, 'lineno', 0), li, ai)
                pre.append(ast.copy_location(ast.Assign(targets=[ast.Name(id=tmp, ctx=ast.Store())], value=av), st))
                cargs.append(ast.Name(id=tmp, ctx=ast.Load()))
            call = ast.Call(func=c.args[0], args=cargs, keywords=[])
            new = [ast.Try(body=new, handlers=[], orelse=[], finalbody=[ast.Expr(value=call)])]
          else:
            var = x.targets[0] if isinstance(x, ast.Assign) else None
            new = [ast.With(items=[ast.withitem(context_expr=c.args[0], optional_vars=var)], body=new)]
        for n in new + pre:
          ast.copy_location(n, st)
          ast.fix_missing_locations(n)
        body_list[i:i + 1] = pre + new
        changed += 1
        continue
    i += 1
  return changed


def _rewrite_acquire(body_list):
  changed = 0
  i = 0
  while i + 1 < len(body_list):
    a, t = body_list[i], body_list[i + 1]
    if isinstance(a, ast.Expr) and isinstance(a.value, ast.Call) and isinstance(a.value.func, ast.Attribute) and a.value.func.attr == 'acquire' \
        and not a.value.args and not a.value.keywords and isinstance(t, ast.Try) and not t.handlers and not t.orelse and len(t.finalbody) == 1:
      f = t.finalbody[0]
      if isinstance(f, ast.Expr) and isinstance(f.value, ast.Call) and isinstance(f.value.func, ast.Attribute) and f.value.func.attr == 'release' \
          and ast.unparse(f.value.func.value) == ast.unparse(a.value.func.value):
        w = ast.With(items=[ast.withitem(context_expr=a.value.func.value, optional_vars=None)], body=t.body)
        ast.copy_location(w, a)
        ast.fix_missing_locations(w)
        body_list[i:i + 2] = [w]
        changed += 1
        continue
    i += 1
  return changed


def _rewrite_dict_merge(body_list):
  changed = 0
  i = 0
  while i < len(body_list):
    st = body_list[i]
    if isinstance(st, ast.Assign) and len(st.targets) == 1 and isinstance(st.targets[0], ast.Name) and isinstance(st.value, ast.Dict) \
        and len(st.value.keys) == 2 and all(k is None for k in st.value.keys) and all(_simple(v) for v in st.value.values):
      x = st.targets[0].id
      a, b = st.value.values
      if not (isinstance(a, ast.Name) and a.id == x) and not (isinstance(b, ast.Name) and b.id == x):
        s1 = ast.Assign(targets=[ast.Name(id=x, ctx=ast.Store())],
                        value=ast.Call(func=ast.Attribute(value=a, attr='copy', ctx=ast.Load()), args=[], keywords=[]))
        s2 = ast.Expr(value=ast.Call(func=ast.Attribute(value=ast.Name(id=x, ctx=ast.Load()), attr='update', ctx=ast.Load()), args=[b], keywords=[]))
        for s in (s1, s2):
          ast.copy_location(s, st)
          ast.fix_missing_locations(s)
        body_list[i:i + 1] = [s1, s2]
        changed += 1
        i += 2
        continue
    i += 1
  return changed


def _rewrite_setdefault(body_list):
  changed = 0
  i = 0
  while i + 1 < len(body_list):
    a, b = body_list[i], body_list[i + 1]
    if isinstance(a, ast.If) and not a.orelse and len(a.body) == 1 and isinstance(a.test, ast.Compare) and len(a.test.ops) == 1 \
        and isinstance(a.test.ops[0], ast.NotIn) and isinstance(a.body[0], ast.Assign) and len(a.body[0].targets) == 1 \
        and isinstance(a.body[0].targets[0], ast.Subscript):
      k, d = a.test.left, a.test.comparators[0]
      sub = a.body[0].targets[0]
      if ast.unparse(sub.value) == ast.unparse(d) and ast.unparse(sub.slice) == ast.unparse(k) \
          and isinstance(b, ast.Assign) and len(b.targets) == 1 and isinstance(b.value, ast.Subscript) \
          and ast.unparse(b.value.value) == ast.unparse(d) and ast.unparse(b.value.slice) == ast.unparse(k):
        call = ast.Call(func=ast.Attribute(value=d, attr='setdefault', ctx=ast.Load()), args=[k, a.body[0].value], keywords=[])
        new = ast.Assign(targets=b.targets, value=call)
        ast.copy_location(new, a)
        ast.fix_missing_locations(new)
        body_list[i:i + 2] = [new]
        changed += 1
        continue
      # ... followed by `d[k].method(...)`:  tmp = d.setdefault(k, v); tmp.method(...)
      if ast.unparse(sub.value) == ast.unparse(d) and ast.unparse(sub.slice) == ast.unparse(k) \
          and isinstance(b, ast.Expr) and isinstance(b.value, ast.Call) and isinstance(b.value.func, ast.Attribute) \
          and isinstance(b.value.func.value, ast.Subscript) and ast.unparse(b.value.func.value.value) == ast.unparse(d) \
          and ast.unparse(b.value.func.value.slice) == ast.unparse(k):
        tmp = '__sd%d' % getattr(a, 'lineno', 0)
        call = ast.Call(func=ast.Attribute(value=d, attr='setdefault', ctx=ast.Load()), args=[k, a.body[0].value], keywords=[])
        new = ast.Assign(targets=[ast.Name(id=tmp, ctx=ast.Store())], value=call)
        ast.copy_location(new, a)
        b.value.func.value = ast.Name(id=tmp, ctx=ast.Load())
        ast.fix_missing_locations(new)
        ast.fix_missing_locations(b)
        body_list[i] = new
        changed += 1
        continue
    i += 1
  return changed


_unpack_fn = None     # the function whose statement lists idioms() is rewriting (for whole-function use counts)


def _rewrite_tuple_assign(body_list):
  """`a, b = (x, y)` -> `a = x; b = y` when that is order-safe; drops `a = a`."""
  changed = 0
  i = 0
  while i < len(body_list):
    st = body_list[i]
    # attribute targets fed from plain names / constants: `self.a, self.b = (x, y)` -> `self.a = x; self.b = y`
    if isinstance(st, ast.Assign) and len(st.targets) == 1 and isinstance(st.targets[0], ast.Tuple) and isinstance(st.value, ast.Tuple) \
        and len(st.targets[0].elts) == len(st.value.elts) and all(isinstance(v, (ast.Name, ast.Constant)) for v in st.value.elts) \
        and all(isinstance(e, (ast.Name, ast.Attribute)) and (isinstance(e, ast.Name) or isinstance(e.value, ast.Name)) for e in st.targets[0].elts) \
        and any(isinstance(e, ast.Attribute) for e in st.targets[0].elts):
      tg, vs = st.targets[0].elts, st.value.elts
      written = [e.id if isinstance(e, ast.Name) else None for e in tg]
      if not any(isinstance(v, ast.Name) and v.id in written[:k] for k, v in enumerate(vs)):
        new = [ast.copy_location(ast.Assign(targets=[t], value=v), st) for t, v in zip(tg, vs)]
        body_list[i:i + 1] = new
        changed += 1
        i += len(new)
        continue
    # names that only carry the parts of an unpacking to their real destinations:
    #   *a, b = E; T1 = a; T2 = b   ->   *T1, T2 = E
    if isinstance(st, ast.Assign) and len(st.targets) == 1 and isinstance(st.targets[0], ast.Tuple) and not isinstance(st.value, ast.Tuple):
      elts = st.targets[0].elts
      names = [(e.value.id if isinstance(e, ast.Starred) and isinstance(e.value, ast.Name) else e.id if isinstance(e, ast.Name) else None) for e in elts]
      if all(names) and len(set(names)) == len(names):
        k = i + 1
        copies = {}
        while k < len(body_list) and isinstance(body_list[k], ast.Assign) and len(body_list[k].targets) == 1 and isinstance(body_list[k].value, ast.Name) \
            and body_list[k].value.id in names and body_list[k].value.id not in copies \
            and isinstance(body_list[k].targets[0], (ast.Name, ast.Attribute)) \
            and not (isinstance(body_list[k].targets[0], ast.Attribute) and not isinstance(body_list[k].targets[0].value, ast.Name)):
          copies[body_list[k].value.id] = body_list[k].targets[0]
          k += 1
        order_ok = [n for n in names if n in copies] == list(copies)
        tnames = {ast.unparse(t) for t in copies.values()}
        if copies and order_ok and len(tnames) == len(copies) and _unpack_fn is not None:
          uses = {}
          for x in _own_walk(_unpack_fn):
            if isinstance(x, ast.Name) and x.id in copies:
              uses[x.id] = uses.get(x.id, 0) + 1
          nested = set()
          for sc in _nested_scopes(_unpack_fn):
            nested |= _all_names(sc)
          if all(uses.get(n, 0) == 2 and n not in nested for n in copies) and not any(
              isinstance(t, ast.Name) and t.id in names for t in copies.values()):
            for e in elts:
              holder = e if not isinstance(e, ast.Starred) else None
              nm = e.value.id if isinstance(e, ast.Starred) else e.id
              if nm in copies:
                tgt = copy.deepcopy(copies[nm])
                tgt.ctx = ast.Store()
                if isinstance(e, ast.Starred):
                  e.value = tgt
                else:
                  elts[elts.index(e)] = tgt
            del body_list[i + 1:k]
            ast.fix_missing_locations(st)
            changed += 1
            i += 1
            continue
    if isinstance(st, ast.Assign) and len(st.targets) == 1 and isinstance(st.targets[0], ast.Tuple) and isinstance(st.value, ast.Tuple) \
        and len(st.targets[0].elts) == len(st.value.elts) and all(isinstance(e, ast.Name) for e in st.targets[0].elts) \
        and not any(isinstance(e, ast.Starred) for e in st.value.elts):
      tg, vs = st.targets[0].elts, st.value.elts
      safe = all(tg[a].id not in {x.id for x in ast.walk(vs[b]) if isinstance(x, ast.Name)} for a in range(len(tg)) for b in range(a + 1, len(tg)))
      if safe:
        new = []
        for t, v in zip(tg, vs):
          if isinstance(v, ast.Name) and v.id == t.id:
            continue
          a = ast.Assign(targets=[t], value=v)
          ast.copy_location(a, st)
          new.append(a)
        if not new:
          new = [ast.copy_location(ast.Pass(), st)]
        body_list[i:i + 1] = new
        changed += 1
        i += len(new)
        continue
    if isinstance(st, ast.Assign) and len(st.targets) == 1 and isinstance(st.targets[0], ast.Name) and isinstance(st.value, ast.Name) \
        and st.targets[0].id == st.value.id:
      if len(body_list) > 1:
        del body_list[i]
      else:
        body_list[i] = ast.copy_location(ast.Pass(), st)
      changed += 1
      continue
    if isinstance(st, ast.If) and len(st.orelse) == 1 and isinstance(st.orelse[0], ast.Pass):
      st.orelse = []
      changed += 1
    i += 1
  return changed


# ----------------------------------------------------------------------------
# loop forms


def _scoped_bodies(tree):
  """(enclosing function or None, statement list) for every statement list."""
  out = []

  def rec(node, fn):
    for fld in ('body', 'orelse', 'finalbody'):
      b = getattr(node, fld, None)
      if isinstance(b, list) and b and isinstance(b[0], ast.stmt):
        out.append((fn, b))
        for st in b:
          rec(st, st if isinstance(st, FN) else fn)
    for h in getattr(node, 'handlers', []) or []:
      out.append((fn, h.body))
      for st in h.body:
        rec(st, st if isinstance(st, FN) else fn)
  rec(tree, None)
  return out


def _loads(node, name):
  return [n for n in ast.walk(node) if isinstance(n, ast.Name) and n.id == name and isinstance(n.ctx, ast.Load)]


def _stores(node, name):
  return [n for n in ast.walk(node) if isinstance(n, ast.Name) and n.id == name and isinstance(n.ctx, (ast.Store, ast.Del))]


def _pos(n):
  return (getattr(n, 'lineno', 0), getattr(n, 'col_offset', 0))


def _end(n):
  return (getattr(n, 'end_lineno', None) or getattr(n, 'lineno', 0), getattr(n, 'end_col_offset', None) or 0)


def _used_after(fn, loop, name):
  """`name` may be read after `loop` with the value the loop left in it."""
  if fn is None:
    return True
  e = _end(loop)
  inner = {id(x) for x in ast.walk(loop)}
  # loads shielded by a later re-binding construct that encloses them (for target / comprehension target)
  shielded = set()
  for n in ast.walk(fn):
    if id(n) in inner:
      continue
    if isinstance(n, ast.For) and _pos(n) > e and name in {x.id for x in ast.walk(n.target) if isinstance(x, ast.Name)}:
      for st in n.body:
        shielded |= {id(x) for x in ast.walk(st)}
    elif isinstance(n, (ast.ListComp, ast.SetComp, ast.DictComp, ast.GeneratorExp)):
      if any(name in {x.id for x in ast.walk(g.target) if isinstance(x, ast.Name)} for g in n.generators):
        shielded |= {id(x) for x in ast.walk(n)}
        for g in n.generators[:1]:
          shielded -= {id(x) for x in ast.walk(g.iter)}
  in_enclosing_loop = False
  for n in ast.walk(fn):
    if isinstance(n, (ast.For, ast.While)) and n is not loop and any(x is loop for x in ast.walk(n)):
      in_enclosing_loop = True
  for n in ast.walk(fn):
    if isinstance(n, ast.Name) and n.id == name and isinstance(n.ctx, ast.Load) and id(n) not in inner and id(n) not in shielded:
      if _pos(n) > e or in_enclosing_loop:
        return True
  return False


def _has_continue(stmts):
  for st in stmts:
    if isinstance(st, ast.Continue):
      return True
    if isinstance(st, (ast.For, ast.While) + FN + (ast.ClassDef,)):
      if isinstance(st, (ast.For, ast.While)) and _has_continue(st.orelse):
        return True
      continue
    for fld in ('body', 'orelse', 'finalbody'):
      if _has_continue(getattr(st, fld, []) or []):
        return True
    for h in getattr(st, 'handlers', []) or []:
      if _has_continue(h.body):
        return True
  return False


def _is_step(st, name, op):
  return isinstance(st, ast.AugAssign) and isinstance(st.target, ast.Name) and st.target.id == name and isinstance(st.op, op) \
      and isinstance(st.value, ast.Constant) and st.value.value == 1


def _len_of(e):
  if isinstance(e, ast.Call) and isinstance(e.func, ast.Name) and e.func.id == 'len' and len(e.args) == 1 and not e.keywords:
    return e.args[0]
  return None


def _rewrite_index_while(fn, body_list):
  """Counting `while` loops back to `for`:
       i = 0;  while i < len(X): [T = X[i]] ... i += 1      ->  for T in X: ...
       i = len(X) - 1;  while i >= 0: ... X[i] ...; i -= 1   ->  for T in reversed(X): ...
       i = len(X);  while i > 0: i -= 1; ... X[i] ...        ->  for T in reversed(X): ...
       i = A;  while i < B: ... i += 1                       ->  for i in range(A, B): ...
  """
  changed = 0
  k = 0
  while k + 1 < len(body_list):
    a, w = body_list[k], body_list[k + 1]
    k += 1
    if not (isinstance(a, ast.Assign) and len(a.targets) == 1 and isinstance(a.targets[0], ast.Name) and isinstance(w, ast.While)
            and isinstance(w.test, ast.Compare) and len(w.test.ops) == 1 and isinstance(w.test.left, ast.Name)
            and w.test.left.id == a.targets[0].id):
      continue
    i = a.targets[0].id
    op, bound = w.test.ops[0], w.test.comparators[0]
    body = w.body
    steps_up = [x for x in body if _is_step(x, i, ast.Add)]
    steps_dn = [x for x in body if _is_step(x, i, ast.Sub)]
    nstores = sum(len(_stores(x, i)) for x in body)
    if nstores != 1 or len(steps_up) + len(steps_dn) != 1:
      continue
    step = (steps_up or steps_dn)[0]
    p = body.index(step)
    rest = body[:p] + body[p + 1:]
    if fn is None or _used_after(fn, w, i):
      continue
    # names of the bound must not be re-bound in the body
    if any(_stores(x, n) for x in body for n in _all_names(bound)):
      continue
    if p == len(body) - 1 and _has_continue(rest):
      continue          # `continue` would skip the increment
    loads_before = [n for x in body[:p] for n in _loads(x, i)]
    loads_after = [n for x in body[p + 1:] for n in _loads(x, i)]
    X = None
    new = None
    up = bool(steps_up)

    def subscripts_only(stmts, X):
      """every load of i in stmts is `X[i]`"""
      cnt = 0
      for x in stmts:
        for n in ast.walk(x):
          if isinstance(n, ast.Subscript) and isinstance(n.slice, ast.Name) and n.slice.id == i and ast.unparse(n.value) == ast.unparse(X) \
              and isinstance(n.ctx, ast.Load):
            cnt += 1
      return cnt == sum(len(_loads(x, i)) for x in stmts)

    def foreach(X, stmts, rev):
      it = X if not rev else ast.Call(func=ast.Name(id='reversed', ctx=ast.Load()), args=[X], keywords=[])
      first = stmts[0] if stmts else None
      if isinstance(first, ast.Assign) and len(first.targets) == 1 and isinstance(first.value, ast.Subscript) \
          and isinstance(first.value.slice, ast.Name) and first.value.slice.id == i and ast.unparse(first.value.value) == ast.unparse(X) \
          and not any(_loads(x, i) for x in stmts[1:]) and isinstance(first.targets[0], (ast.Name, ast.Tuple)):
        tgt = first.targets[0]
        nb = stmts[1:] or [ast.Pass()]
      else:
        nm = '__e_%s' % i
        tgt = ast.Name(id=nm, ctx=ast.Store())

        class R(ast.NodeTransformer):
          def visit_Subscript(self, n):
            self.generic_visit(n)
            if isinstance(n.slice, ast.Name) and n.slice.id == i and ast.unparse(n.value) == ast.unparse(X) and isinstance(n.ctx, ast.Load):
              return ast.copy_location(ast.Name(id=nm, ctx=ast.Load()), n)
            return n
        nb = [R().visit(x) for x in stmts] or [ast.Pass()]
      return ast.For(target=tgt, iter=it, body=nb, orelse=w.orelse)

    init = a.value
    # the sequence must not be re-bound in the loop
    if up and isinstance(op, ast.Lt) and _len_of(bound) is not None and isinstance(init, ast.Constant) and init.value == 0:
      X = _len_of(bound)
      # loads of i must come before the increment (or the increment is last)
      if (p == len(body) - 1 or not loads_after) and subscripts_only(rest, X) and (loads_before or loads_after):
        new = foreach(X, rest, False)
    if new is None and not up and isinstance(op, (ast.GtE,)) and isinstance(bound, ast.Constant) and bound.value == 0 \
        and isinstance(init, ast.BinOp) and isinstance(init.op, ast.Sub) and _len_of(init.left) is not None \
        and isinstance(init.right, ast.Constant) and init.right.value == 1 and p == len(body) - 1:
      X = _len_of(init.left)
      if subscripts_only(rest, X) and not any(_stores(x, n) for x in body for n in _all_names(X)):
        new = foreach(X, rest, True)
    if new is None and not up and isinstance(op, ast.Gt) and isinstance(bound, ast.Constant) and bound.value == 0 \
        and _len_of(init) is not None and p == 0:
      X = _len_of(init)
      if subscripts_only(rest, X) and not any(_stores(x, n) for x in body for n in _all_names(X)):
        new = foreach(X, rest, True)
    if new is None and up and isinstance(op, (ast.Lt, ast.LtE)) and p == len(body) - 1:
      hi = bound if isinstance(op, ast.Lt) else ast.BinOp(left=bound, op=ast.Add(), right=ast.Constant(value=1))
      args = [hi] if (isinstance(init, ast.Constant) and init.value == 0) else [init, hi]
      new = ast.For(target=ast.Name(id=i, ctx=ast.Store()), iter=ast.Call(func=ast.Name(id='range', ctx=ast.Load()), args=args, keywords=[]),
                    body=rest or [ast.Pass()], orelse=w.orelse)
    if new is None:
      continue
    ast.copy_location(new, w)
    ast.fix_missing_locations(new)
    k -= 1
    body_list[k:k + 2] = [new]
    changed += 1
  return changed


def _rewrite_append_loop(fn, body_list):
  """X = []; for T in IT: [if c:] X.append(E)   ->   X = [E for T in IT [if c]]   (also set()/add)."""
  changed = 0
  k = 0
  while k + 1 < len(body_list):
    a, lp = body_list[k], body_list[k + 1]
    k += 1
    if not (isinstance(a, ast.Assign) and len(a.targets) == 1 and isinstance(a.targets[0], ast.Name) and isinstance(lp, ast.For)
            and not lp.orelse and len(lp.body) == 1):
      continue
    X = a.targets[0].id
    is_list = isinstance(a.value, ast.List) and not a.value.elts
    is_set = isinstance(a.value, ast.Call) and ast.unparse(a.value) == 'set()'
    if not (is_list or is_set):
      continue
    inner = lp.body[0]
    conds = []
    while isinstance(inner, ast.If) and not inner.orelse and len(inner.body) == 1:
      conds.append(inner.test)
      inner = inner.body[0]
    if not (isinstance(inner, ast.Expr) and isinstance(inner.value, ast.Call) and isinstance(inner.value.func, ast.Attribute)
            and isinstance(inner.value.func.value, ast.Name) and inner.value.func.value.id == X
            and inner.value.func.attr == ('append' if is_list else 'add') and len(inner.value.args) == 1 and not inner.value.keywords):
      continue
    E = inner.value.args[0]
    if X in _all_names(lp.iter) or X in _all_names(E) or any(X in _all_names(c) for c in conds):
      continue
    tnames = {n.id for n in ast.walk(lp.target) if isinstance(n, ast.Name)}
    if fn is None or any(_used_after(fn, lp, t) for t in tnames):
      continue
    gen = ast.comprehension(target=lp.target, iter=lp.iter, ifs=conds, is_async=0)
    comp = (ast.ListComp if is_list else ast.SetComp)(elt=E, generators=[gen])
    new = ast.Assign(targets=a.targets, value=comp)
    ast.copy_location(new, a)
    ast.fix_missing_locations(new)
    k -= 1
    body_list[k:k + 2] = [new]
    changed += 1
  return changed


def _thread_flags(fn, body_list):
  """if c: A; t = True  else: B; t = False  ;  if t: X        ->   if c: A; X  else: B
  for a flag t that is read only by that test."""
  changed = 0
  k = 0
  while k + 1 < len(body_list):
    a, b = body_list[k], body_list[k + 1]
    k += 1
    if not (isinstance(a, ast.If) and isinstance(b, ast.If)):
      continue
    neg = isinstance(b.test, ast.UnaryOp) and isinstance(b.test.op, ast.Not)
    tn = b.test.operand if neg else b.test
    if not isinstance(tn, ast.Name) or fn is None:
      continue
    t = tn.id
    if len(_loads(fn, t)) != 1:
      continue

    def ok(stmts):
      if not stmts:
        return False
      last = stmts[-1]
      if isinstance(last, (ast.Raise, ast.Return, ast.Continue, ast.Break)) or _is_noreturn_call(last):
        return not any(_stores(x, t) for x in stmts)
      if isinstance(last, ast.Assign) and len(last.targets) == 1 and isinstance(last.targets[0], ast.Name) and last.targets[0].id == t \
          and isinstance(last.value, ast.Constant) and isinstance(last.value.value, bool):
        return not any(_stores(x, t) for x in stmts[:-1])
      if isinstance(last, ast.If) and last.orelse:
        return not any(_stores(x, t) for x in stmts[:-1]) and ok(last.body) and ok(last.orelse)
      return False

    if not (a.orelse and ok(a.body) and ok(a.orelse)):
      continue

    def push(stmts):
      last = stmts[-1]
      if isinstance(last, ast.Assign):
        v = last.value.value
        taken = b.body if (v != neg) else b.orelse
        stmts[-1:] = copy.deepcopy(taken) or [ast.copy_location(ast.Pass(), last)]
      elif isinstance(last, ast.If):
        push(last.body)
        push(last.orelse)
    push(a.body)
    push(a.orelse)
    k -= 1
    del body_list[k + 1]
    ast.fix_missing_locations(a)
    changed += 1
  return changed


# methods that are what the object's __next__ does until the result is falsy (ConfigParser.__next__, checked by rule C16.stream)
PULL_METHODS = {'parse_statement'}


def _thread_value(fn, body_list):
  """if c1: ...; k = (a, b)  elif c2: ...; k = None  else: ...; k = (c, d)      followed by      if k is not None: BODY(k)
     ->  BODY is moved into the branches whose value passes the test (k replaced by the value when that is a pure display)."""
  changed = 0
  i = 0
  while i + 1 < len(body_list):
    a, b = body_list[i], body_list[i + 1]
    i += 1
    if not (isinstance(a, ast.If) and a.orelse and isinstance(b, ast.If) and fn is not None):
      continue
    t = b.test
    k, kind = None, None
    if isinstance(t, ast.Compare) and len(t.ops) == 1 and isinstance(t.left, ast.Name) and ast.unparse(t.comparators[0]) == 'None' \
        and isinstance(t.ops[0], (ast.Is, ast.IsNot)):
      k, kind = t.left.id, ('notnone' if isinstance(t.ops[0], ast.IsNot) else 'none')
    elif isinstance(t, ast.Name):
      k, kind = t.id, 'truthy'
    if k is None:
      continue
    # `if k is None: return ...` followed by the rest of the block: the rest is the else branch
    merged = None
    if not b.orelse and _leaf_jumps(b.body) and i + 1 < len(body_list) and \
        not any(isinstance(x, FN + (ast.ClassDef,)) for x in body_list[i + 1:]):
      merged = body_list[i + 1:]
      b.orelse = list(merged)
      del body_list[i + 1:]

    def undo():
      if merged is not None:
        b.orelse = []
        body_list.extend(merged)
    # every read of k is inside b
    inside = {id(x) for x in ast.walk(b)}
    if any(isinstance(x, ast.Name) and x.id == k and isinstance(x.ctx, ast.Load) and id(x) not in inside for x in ast.walk(fn)):
      undo()
      continue
    if any(_stores(x, k) for x in b.body + b.orelse):
      undo()
      continue

    def outcome(v):
      """Value of the test of b when k = v (True / False / None = unknown)."""
      if isinstance(v, ast.Constant):
        isnone = v.value is None
        if kind == 'notnone':
          return not isnone
        if kind == 'none':
          return isnone
        return bool(v.value)
      if isinstance(v, (ast.Tuple, ast.List, ast.Set, ast.Dict, ast.JoinedStr)):
        if kind == 'notnone':
          return True
        if kind == 'none':
          return False
        n_el = len(v.keys) if isinstance(v, ast.Dict) else len(getattr(v, 'elts', getattr(v, 'values', [])))
        return n_el > 0 if not isinstance(v, ast.JoinedStr) else None
      return None

    def tails(stmts, acc):
      if not stmts:
        return False
      last = stmts[-1]
      if isinstance(last, (ast.Raise, ast.Return, ast.Continue, ast.Break)) or _is_noreturn_call(last):
        return not any(_stores(x, k) for x in stmts)
      if isinstance(last, ast.Assign) and len(last.targets) == 1 and isinstance(last.targets[0], ast.Name) and last.targets[0].id == k:
        if any(_stores(x, k) for x in stmts[:-1]) or outcome(last.value) is None:
          return False
        acc.append((stmts, last))
        return True
      if isinstance(last, ast.If) and last.orelse:
        return not any(_stores(x, k) for x in stmts[:-1]) and tails(last.body, acc) and tails(last.orelse, acc)
      return False
    acc = []
    if not (tails(a.body, acc) and tails(a.orelse, acc)) or not acc:
      undo()
      continue
    for stmts, last in acc:
      v = last.value
      taken = copy.deepcopy(b.body if outcome(v) else b.orelse)
      if _pure(v):
        sub = _Subst({k: v}, {})
        taken = [sub.visit(x) for x in taken]
        stmts[-1:] = taken or [ast.copy_location(ast.Pass(), last)]
      else:
        stmts.extend(taken)
    ast.fix_missing_locations(a)
    del body_list[i]
    i -= 1
    changed += 1
  return changed


def _distribute_ifexp_call(fn, body_list):
  """return (A if c else B)(args)   ->   if c: return A(args) else: return B(args)        (same for `x = ...` and bare calls)
     _, _, x = S.rpartition(sep)     ->   x = S.rsplit(sep, 1)[-1]        (the other two parts unused);  x, _, _ = S.partition(sep) likewise"""
  changed = 0
  for i, st in enumerate(body_list):
    v = getattr(st, 'value', None) if isinstance(st, (ast.Return, ast.Expr, ast.Assign)) else None
    if isinstance(v, ast.Call) and isinstance(v.func, ast.IfExp) and all(_simple(x) for x in (v.func.body, v.func.orelse)):
      a, b = copy.deepcopy(st), copy.deepcopy(st)
      a.value.func = v.func.body
      b.value.func = v.func.orelse
      new = ast.If(test=v.func.test, body=[a], orelse=[b])
      ast.copy_location(new, st)
      ast.fix_missing_locations(new)
      body_list[i] = new
      changed += 1
      continue
    if isinstance(st, ast.Assign) and len(st.targets) == 1 and isinstance(st.targets[0], ast.Tuple) and len(st.targets[0].elts) == 3 \
        and all(isinstance(e, ast.Name) for e in st.targets[0].elts) and isinstance(st.value, ast.Call) \
        and isinstance(st.value.func, ast.Attribute) and st.value.func.attr in ('rpartition', 'partition') and len(st.value.args) == 1 and fn is not None:
      t = st.targets[0].elts
      rp = st.value.func.attr == 'rpartition'
      keep, drop = (t[2], t[:2]) if rp else (t[0], t[1:])
      if all(not _loads(fn, d.id) for d in drop) and keep.id not in {d.id for d in drop}:
        call = ast.Call(func=ast.Attribute(value=st.value.func.value, attr='rsplit' if rp else 'split', ctx=ast.Load()),
                        args=[st.value.args[0], ast.Constant(value=1)], keywords=[])
        idx = ast.UnaryOp(op=ast.USub(), operand=ast.Constant(value=1)) if rp else ast.Constant(value=0)
        new = ast.Assign(targets=[ast.Name(id=keep.id, ctx=ast.Store())], value=ast.Subscript(value=call, slice=idx, ctx=ast.Load()))
        ast.copy_location(new, st)
        ast.fix_missing_locations(new)
        body_list[i] = new
        changed += 1
  return changed


def _rewrite_reduce(fn, body_list):
  """T = functools.reduce(lambda acc, x: E, IT, INIT)   ->   T = INIT; for x in IT: T = E[acc := T]"""
  changed = 0
  i = 0
  while i < len(body_list):
    st = body_list[i]
    if isinstance(st, ast.Assign) and len(st.targets) == 1 and isinstance(st.targets[0], ast.Name) and isinstance(st.value, ast.Call) \
        and ast.unparse(st.value.func) in ('functools.reduce', 'reduce') and len(st.value.args) == 3 and not st.value.keywords \
        and isinstance(st.value.args[0], ast.Lambda) and len(st.value.args[0].args.args) == 2 and fn is not None:
      lam, it, init = st.value.args
      acc, x = lam.args.args[0].arg, lam.args.args[1].arg
      T = st.targets[0].id
      xn = x
      inside = {id(n) for n in ast.walk(lam)}
      if any(isinstance(n, ast.Name) and n.id == x and id(n) not in inside for n in ast.walk(fn)):
        xn = x + '__r'
      body = _Subst({acc: ast.Name(id=T, ctx=ast.Load()), x: ast.Name(id=xn, ctx=ast.Load())}, {}).visit(copy.deepcopy(lam.body))
      a = ast.Assign(targets=[ast.Name(id=T, ctx=ast.Store())], value=init)
      lp = ast.For(target=ast.Name(id=xn, ctx=ast.Store()), iter=it,
                   body=[ast.Assign(targets=[ast.Name(id=T, ctx=ast.Store())], value=body)], orelse=[])
      for n in (a, lp):
        ast.copy_location(n, st)
        ast.fix_missing_locations(n)
      body_list[i:i + 1] = [a, lp]
      changed += 1
      i += 2
      continue
    i += 1
  return changed


def _unroll_literal_loop(fn, body_list):
  """for v in (E1, E2): BODY   ->   BODY[v:=E1]; BODY[v:=E2]      (few simple elements, small straight-line body)"""
  changed = 0
  i = 0
  while i < len(body_list):
    st = body_list[i]
    tnames = [st.target] if isinstance(getattr(st, 'target', None), ast.Name) else \
        (list(st.target.elts) if isinstance(getattr(st, 'target', None), ast.Tuple) and all(isinstance(x, ast.Name) for x in st.target.elts) else [])
    def _item_ok(x):
      return _simple(x) or (isinstance(x, ast.Lambda) and not x.args.args and not x.args.vararg and not x.args.kwarg and not x.args.kwonlyargs)
    def _elt_ok(e):
      if len(tnames) == 1 and isinstance(st.target, ast.Name):
        return _item_ok(e)
      return isinstance(e, (ast.Tuple, ast.List)) and len(e.elts) == len(tnames) and all(_item_ok(x) for x in e.elts)
    def _body_ok(b):
      if isinstance(b, (ast.Expr, ast.Assign, ast.AugAssign, ast.Raise)):
        return True
      return isinstance(b, ast.If) and not b.orelse and len(b.body) <= 2 and all(isinstance(x, (ast.Expr, ast.Assign, ast.Raise)) for x in b.body)
    if isinstance(st, ast.For) and not st.orelse and tnames and isinstance(st.iter, (ast.Tuple, ast.List)) \
        and 1 <= len(st.iter.elts) <= 4 and all(_elt_ok(e) for e in st.iter.elts) and len(st.body) <= 3 \
        and all(_body_ok(b) for b in st.body) \
        and not any(_stores(b, t_.id) for b in st.body for t_ in tnames) and fn is not None \
        and not any(_used_after(fn, st, t_.id) for t_ in tnames):
      new = []
      for e in st.iter.elts:
        mapping = {st.target.id: e} if isinstance(st.target, ast.Name) else {t_.id: x for t_, x in zip(tnames, e.elts)}
        sub = _Subst(mapping, {})
        for b in st.body:
          nb = _ExprForms().visit(sub.visit(copy.deepcopy(b)))
          ast.copy_location(nb, st)
          ast.fix_missing_locations(nb)
          new.append(nb)
      body_list[i:i + 1] = new
      changed += 1
      i += len(new)
      continue
    i += 1
  return changed


def _rewrite_pull_loop(fn, body_list):
  """while True: S = X.parse_statement(); if not S: break; BODY     ->   for S in X: BODY
     while True: S = next(X, None); if S is None: break; BODY        ->   for S in X: BODY"""
  changed = 0
  for i, w in enumerate(body_list):
    if not (isinstance(w, ast.While) and isinstance(w.test, ast.Constant) and w.test.value is True and not w.orelse and len(w.body) >= 2):
      continue
    a, b = w.body[0], w.body[1]
    if not (isinstance(a, ast.Assign) and len(a.targets) == 1 and isinstance(a.targets[0], ast.Name) and isinstance(a.value, ast.Call)
            and isinstance(b, ast.If) and not b.orelse and len(b.body) == 1 and isinstance(b.body[0], ast.Break)):
      continue
    S = a.targets[0].id
    c = a.value
    X = None
    if isinstance(c.func, ast.Attribute) and c.func.attr in PULL_METHODS and isinstance(c.func.value, ast.Name) and not c.args and not c.keywords \
        and isinstance(b.test, ast.UnaryOp) and isinstance(b.test.op, ast.Not) and ast.unparse(b.test.operand) == S:
      X = c.func.value
    elif isinstance(c.func, ast.Name) and c.func.id == 'next' and len(c.args) == 2 and isinstance(c.args[0], ast.Name) \
        and isinstance(c.args[1], ast.Constant) and c.args[1].value is None and isinstance(b.test, ast.Compare) and len(b.test.ops) == 1 \
        and isinstance(b.test.ops[0], ast.Is) and ast.unparse(b.test.left) == S and ast.unparse(b.test.comparators[0]) == 'None':
      X = c.args[0]
    if X is None or fn is None or _used_after(fn, w, S):
      continue
    if any(_stores(x, S) for x in w.body[2:]) or any(_stores(x, X.id) for x in w.body):
      continue
    new = ast.For(target=ast.Name(id=S, ctx=ast.Store()), iter=X, body=w.body[2:] or [ast.Pass()], orelse=[])
    ast.copy_location(new, w)
    ast.fix_missing_locations(new)
    body_list[i] = new
    changed += 1
  return changed


def _rewrite_extend_comp(fn, body_list):
  """L.extend(E for x in IT if C)  /  L.extend([E for x in IT if C])   ->   for x in IT: if C: L.append(E)
  (extend takes the elements one at a time, so what L holds at each evaluation of C is the same)."""
  if fn is None:
    return 0
  changed = 0
  for i, st in enumerate(body_list):
    if not (isinstance(st, ast.Expr) and isinstance(st.value, ast.Call) and isinstance(st.value.func, ast.Attribute) and st.value.func.attr == 'extend'
            and isinstance(st.value.func.value, ast.Name) and len(st.value.args) == 1 and not st.value.keywords
            and isinstance(st.value.args[0], (ast.GeneratorExp, ast.ListComp)) and len(st.value.args[0].generators) == 1):
      continue
    comp = st.value.args[0]
    gen = comp.generators[0]
    if gen.is_async:
      continue
    L = st.value.func.value.id
    tnames = {x.id for x in ast.walk(gen.target) if isinstance(x, ast.Name)}
    if L in tnames:
      continue
    if isinstance(comp, ast.ListComp) and any(isinstance(x, ast.Name) and x.id == L for x in ast.walk(comp)):
      continue      # a list comprehension is complete before extend starts: `x not in L` sees the old L throughout
    inside = {id(x) for x in ast.walk(comp)}
    outside = {x.id for x in ast.walk(fn) if isinstance(x, ast.Name) and id(x) not in inside} | {a.arg for a in ast.walk(fn.args) if isinstance(a, ast.arg)}
    # always set apart: a loop variable made from a comprehension variable must not take a name the reference uses for something else
    ren = {nm: nm + '__g' for nm in tnames}
    k_ = 1
    while any(v in outside for v in ren.values()):
      k_ += 1
      ren = {nm: '%s__g%d' % (nm, k_) for nm in tnames}
    if ren:
      class R(ast.NodeTransformer):
        def visit_Name(self, n):
          if n.id in ren:
            n.id = ren[n.id]
          return n
      comp = R().visit(comp)
      gen = comp.generators[0]
    app = ast.Expr(value=ast.Call(func=ast.Attribute(value=ast.Name(id=L, ctx=ast.Load()), attr='append', ctx=ast.Load()), args=[comp.elt], keywords=[]))
    inner = [app]
    if gen.ifs:
      test = gen.ifs[0] if len(gen.ifs) == 1 else ast.BoolOp(op=ast.And(), values=list(gen.ifs))
      inner = [ast.If(test=test, body=[app], orelse=[])]
    tgt = copy.deepcopy(gen.target)
    for x in ast.walk(tgt):
      if isinstance(x, (ast.Name, ast.Tuple, ast.List, ast.Starred)):
        x.ctx = ast.Store()
    loop = ast.For(target=tgt, iter=gen.iter, body=inner, orelse=[])
    ast.copy_location(loop, st)
    for x in ast.walk(loop):
      if not hasattr(x, 'lineno'):
        ast.copy_location(x, st)
    ast.fix_missing_locations(loop)
    body_list[i] = loop
    changed += 1
  return changed


def loop_forms(tree):
  n = 0
  # module-level functions that end in `raise` never return
  noret = {st.name for st in getattr(tree, 'body', []) if isinstance(st, ast.FunctionDef) and st.body and isinstance(st.body[-1], ast.Raise)}
  for _ in range(3):
    c = 0
    for fn, body in _scoped_bodies(tree):
      c += _rewrite_index_while(fn, body)
      c += _rewrite_append_loop(fn, body)
      c += _thread_flags(fn, body)
      c += _thread_value(fn, body)
      c += _rewrite_iter_tools(fn, body, noret)
      c += _rewrite_extend_comp(fn, body)
      c += _rewrite_for_genexp(fn, body, noret)
      c += _rewrite_pull_loop(fn, body)
      c += _unroll_literal_loop(fn, body)
      c += _rewrite_reduce(fn, body)
      c += _distribute_ifexp_call(fn, body)
    n += c
    if not c:
      break
  return n


# ----------------------------------------------------------------------------
# temporaries that do not exist on the reference tree


# functions of the repository that only compute a value from their arguments (checked by reading; they hold no state)
REPO_PURE_FUNCS = {'_is_literally_representable', '_might_have_parameter', 'config_is_locked', 'current_scope', 'current_scope_str',
                   '_get_cached_arg_spec'}      # (the last one memoises per function object: same answer, no visible effect)
_PURE_FUNCS = REPO_PURE_FUNCS | {'map', 'filter', 'len', 'isinstance', 'issubclass', 'tuple', 'list', 'set', 'frozenset', 'bool', 'str', 'int', 'sorted', 'min', 'max',
               'any', 'all', 'type', 'repr', 'callable', 'hasattr', 'getattr', 'dict', 'enumerate', 'zip', 'range', 'reversed'}
# methods of the repository's own immutable records (config_parser.ImportStatement is a NamedTuple) that only read fields;
# rule C19.unique-names re-checks on every run that they still are side-effect free
REPO_PURE_METHODS = {'bound_name', 'partial_path'}
_PURE_METHODS = REPO_PURE_METHODS | {'partial', 'attrgetter', 'itemgetter', 'methodcaller', 'chain', 'from_iterable', 'islice', 'filterfalse',
                                      'takewhile', 'dropwhile', 'count', 'cycle', 'repeat', 'get', 'keys', 'values', 'items', 'split', 'rsplit', 'partition', 'rpartition', 'startswith', 'endswith', 'join',
                 'strip', 'lstrip', 'rstrip', 'format', 'lower', 'upper', 'count', 'index', 'find', 'rfind', 'copy', 'match',
                 'search', 'fullmatch', 'replace', 'isidentifier', 'union', 'intersection', 'difference', 'symmetric_difference', 'issubset', 'issuperset', 'isdisjoint'}
_MUTATORS = {'update', 'setdefault', 'clear', 'pop', 'popitem', 'append', 'add', 'extend', 'insert', 'remove', 'discard', 'sort', 'reverse'}


def _pure(e):
  for n in ast.walk(e):
    if isinstance(n, (ast.Yield, ast.YieldFrom, ast.Await, ast.NamedExpr, ast.Lambda)):
      return False
    if isinstance(n, ast.Call):
      f = n.func
      if isinstance(f, ast.Name) and f.id in _PURE_FUNCS:
        continue
      if isinstance(f, ast.Attribute) and f.attr in _PURE_METHODS:
        continue
      return False
  return True


def _own_walk(fn):
  """Nodes of fn's own scope, comprehension interiors included, nested defs / lambdas not."""
  stack = list(fn.body)
  while stack:
    n = stack.pop()
    yield n
    if isinstance(n, FN + (ast.ClassDef, ast.Lambda)):
      continue
    stack.extend(ast.iter_child_nodes(n))


def _nested_scopes(fn):
  for n in ast.walk(fn):
    if n is not fn and isinstance(n, FN + (ast.ClassDef, ast.Lambda)):
      yield n


def _read_paths(e):
  """Dotted attribute paths (maximal chains rooted at a name) and bare names read by expression e."""
  out = set()
  inner = set()
  for n in ast.walk(e):
    if isinstance(n, ast.Attribute):
      r, parts = n, []
      while isinstance(r, ast.Attribute):
        parts.append(r.attr)
        inner.add(id(r.value))
        r = r.value
      if isinstance(r, ast.Name) and id(n) not in inner:
        out.add('.'.join([r.id] + parts[::-1]))
  for n in ast.walk(e):
    if isinstance(n, ast.Name) and id(n) not in inner:
      out.add(n.id)
  return out


def _path_of(n):
  parts = []
  while isinstance(n, ast.Attribute):
    parts.append(n.attr)
    n = n.value
  if isinstance(n, ast.Name):
    return '.'.join([n.id] + parts[::-1])
  return None


def _writes_to(st, names, paths=None):
  """st (whole subtree) re-binds or mutates one of `names` (attribute stores are
  compared by dotted path against `paths`, the paths the expression reads, if given)."""
  def clash(p):
    if paths is None:
      return p.split('.')[0] in names
    return any(r == p or r.startswith(p + '.') or p.startswith(r + '.') for r in paths)
  for n in ast.walk(st):
    if isinstance(n, ast.Name) and n.id in names and isinstance(n.ctx, (ast.Store, ast.Del)):
      return True
    if isinstance(n, ast.Attribute) and isinstance(n.ctx, (ast.Store, ast.Del)):
      p = _path_of(n)
      if p is None:
        continue
      if clash(p):
        return True
      continue
    if isinstance(n, ast.Subscript) and isinstance(n.ctx, (ast.Store, ast.Del)):
      r = n
      while isinstance(r, ast.Subscript):
        r = r.value
      p = _path_of(r) if isinstance(r, (ast.Attribute, ast.Name)) else None
      if p is not None and clash(p):
        return True
      continue
    if isinstance(n, ast.Call) and isinstance(n.func, ast.Attribute) and n.func.attr in _MUTATORS:
      r = n.func.value
      while isinstance(r, (ast.Subscript, ast.Attribute)):
        r = r.value
      if isinstance(r, ast.Name) and r.id in names:
        return True
  return False


def _readonly_uses(span, t, E):
  """If E builds a fresh mutable object, every use of t in span must only read it
  (iterate, test membership, take len / an element): then evaluating E once per use is equivalent."""
  fresh = isinstance(E, (ast.ListComp, ast.SetComp, ast.DictComp, ast.List, ast.Dict, ast.Set)) or \
      (isinstance(E, ast.Call) and isinstance(E.func, ast.Name) and E.func.id in ('list', 'dict', 'set', 'sorted'))
  if not fresh:
    return True
  parent = {}
  for x in span:
    for pn in ast.walk(x):
      for c in ast.iter_child_nodes(pn):
        parent[c] = pn
  for x in span:
    for n in ast.walk(x):
      if isinstance(n, ast.Name) and n.id == t and isinstance(n.ctx, ast.Load):
        pa = parent.get(n)
        ok = False
        if isinstance(pa, (ast.For, ast.comprehension)) and pa.iter is n:
          ok = True
        elif isinstance(pa, ast.Compare) and n in pa.comparators and all(isinstance(o, (ast.In, ast.NotIn)) for o in pa.ops):
          ok = True
        elif isinstance(pa, ast.Call) and isinstance(pa.func, ast.Name) and pa.func.id in ('len', 'sorted', 'list', 'tuple', 'set', 'frozenset', 'enumerate', 'zip', 'any', 'all', 'bool') and n in pa.args:
          ok = True
        elif isinstance(pa, ast.Subscript) and pa.value is n and isinstance(pa.ctx, ast.Load):
          ok = True
        elif isinstance(pa, (ast.If, ast.While)) and pa.test is n:
          ok = True
        elif isinstance(pa, ast.UnaryOp) and isinstance(pa.op, ast.Not):
          ok = True
        if not ok:
          return False
  return True


def _header_nodes(st):
  """The parts of a statement evaluated once when the statement is reached."""
  if isinstance(st, ast.If):
    return [st.test]
  if isinstance(st, ast.For):
    return [st.iter]
  if isinstance(st, ast.With):
    return [it.context_expr for it in st.items]
  if isinstance(st, (ast.Expr, ast.Assign, ast.AugAssign, ast.AnnAssign, ast.Return, ast.Raise, ast.Assert, ast.Delete)):
    return [st]
  return []


def inline_temps(tree, modname, table=None):
  """Substitutes local temporaries that the reference tree does not have
  (`t = E` with a single binding) into their uses, when that cannot change what is computed:
    A  one use, in the header of the very next statement; or
    B  E is pure and nothing it mentions is re-bound or mutated between the
       definition and the last use (all uses lexically after the definition, in the same block)."""
  if table is None:
    try:
      with open(TABLE) as f:
        table = json.load(f)
    except Exception:
      return 0
  ref_mod = table.get(modname)
  if not ref_mod:
    return 0
  from .canon import _functions, _params
  total = 0
  for q, fn in _functions(tree, modname):
    ref = ref_mod.get(q)
    if ref is None:
      continue
    refnames = {n for n, _ in ref}
    for _round in range(6):
      if not _inline_one(fn, refnames, set(_params(fn))):
        break
      total += 1
  return total


def _chain_leaves(chain):
  """Statement lists at the ends of an if / elif / else chain (an `else` is created when the chain has none)."""
  out = [chain.body]
  if len(chain.orelse) == 1 and isinstance(chain.orelse[0], ast.If):
    out += _chain_leaves(chain.orelse[0])
  else:
    out.append(chain.orelse)
  return out


def _leaf_jumps(stmts):
  if not stmts:
    return False
  last = stmts[-1]
  if isinstance(last, (ast.Return, ast.Raise, ast.Continue, ast.Break)):
    return True
  if isinstance(last, ast.If):
    return bool(last.orelse) and _leaf_jumps(last.body) and _leaf_jumps(last.orelse)
  return False


def _branch_tail_assigns(chain):
  """Plain `name = value` statements directly in the leaves of the chain."""
  return [st for leaf in _chain_leaves(chain) for st in leaf
          if isinstance(st, ast.Assign) and len(st.targets) == 1 and isinstance(st.targets[0], ast.Name)]


def _inline_one(fn, refnames, params):
  own = list(_own_walk(fn))
  store_count = {}
  for n in own:
    if isinstance(n, ast.Name) and isinstance(n.ctx, (ast.Store, ast.Del)):
      store_count[n.id] = store_count.get(n.id, 0) + 1
    elif isinstance(n, ast.ExceptHandler) and n.name:
      store_count[n.name] = store_count.get(n.name, 0) + 2
    elif isinstance(n, (ast.Global, ast.Nonlocal)):
      for x in n.names:
        store_count[x] = store_count.get(x, 0) + 2
  nested_names = set()
  for sc in _nested_scopes(fn):
    nested_names |= _all_names(sc)
  comp_targets = set()
  for n in own:
    if isinstance(n, ast.comprehension):
      comp_targets |= {x.id for x in ast.walk(n.target) if isinstance(x, ast.Name)}
  # mode E: `t = E; ...; x = t` with t used nowhere else and x untouched in between: E is bound to x directly
  for _fn, body in _scoped_bodies(fn):
    if _fn is not None and _fn is not fn:
      continue
    for k2, cp in enumerate(body):
      if not (isinstance(cp, ast.Assign) and len(cp.targets) == 1 and isinstance(cp.targets[0], ast.Name) and isinstance(cp.value, ast.Name)):
        continue
      t, x = cp.value.id, cp.targets[0].id
      if t == x or t in refnames or t in params or (t.startswith('__') and not t.startswith('__t_')) or store_count.get(t, 0) != 1 \
          or t in nested_names or t in comp_targets:
        continue
      k1 = next((j for j in range(k2) if isinstance(body[j], ast.Assign) and len(body[j].targets) == 1
                 and isinstance(body[j].targets[0], ast.Name) and body[j].targets[0].id == t), None)
      if k1 is None:
        continue
      between = body[k1 + 1:k2]
      # every occurrence of t lies between its definition and the copy (it may be read / filled there): it is x under another name
      occ_t = [n for n in own if isinstance(n, ast.Name) and n.id == t]
      in_span = {id(n) for st_ in body[k1:k2 + 1] for n in ast.walk(st_)}
      if any(id(n) not in in_span for n in occ_t):
        continue
      if any(isinstance(n, ast.Name) and n.id == x for st_ in between for n in ast.walk(st_)) or \
          any(isinstance(n, ast.Name) and n.id == x for n in ast.walk(body[k1].value)):
        continue
      if x in nested_names and any(isinstance(n, ast.Call) for st_ in between for n in ast.walk(st_)):
        continue      # a closure reading x could run in between
      for n in occ_t:
        n.id = x
      del body[k2]
      ast.fix_missing_locations(fn)
      return True
  # mode D: a temporary bound in the branches of an `if` chain and read only by the statement after it: that statement
  # is run at the end of each branch instead (which is what happens anyway), so each branch has its own single binding
  for _fn, body in _scoped_bodies(fn):
    if _fn is not None and _fn is not fn:
      continue
    for k in range(len(body) - 1):
      chain, S = body[k], body[k + 1]
      if not isinstance(chain, ast.If) or isinstance(S, (ast.FunctionDef, ast.AsyncFunctionDef, ast.ClassDef, ast.If, ast.For, ast.While, ast.Try)):
        continue
      in_chain = {id(n) for n in ast.walk(chain)}
      in_S = {id(n) for n in ast.walk(S)}
      cands = []
      for t in sorted({n.id for n in ast.walk(chain) if isinstance(n, ast.Name) and isinstance(n.ctx, ast.Store)}):
        if t in refnames or t in params or (t.startswith('__') and not t.startswith('__t_')) or t in nested_names or t in comp_targets or store_count.get(t, 0) < 2:
          continue
        occ = [n for n in own if isinstance(n, ast.Name) and n.id == t]
        if all((id(n) in in_chain and isinstance(n.ctx, ast.Store)) or (id(n) in in_S and isinstance(n.ctx, ast.Load)) for n in occ) \
            and any(id(n) in in_S for n in occ) \
            and all(any(n is x for a in _branch_tail_assigns(chain) for x in a.targets) for n in occ if isinstance(n.ctx, ast.Store)):
          cands.append(t)
      if not cands:
        continue
      leaves = _chain_leaves(chain)
      serial = [0]
      for leaf in leaves:
        if _leaf_jumps(leaf):
          continue
        cp = copy.deepcopy(S)
        leaf.append(cp)
        serial[0] += 1
        for n in [x for st_ in leaf for x in ast.walk(st_)]:
          if isinstance(n, ast.Name) and n.id in cands:
            n.id = '%s_%d' % (n.id, serial[0])
      del body[k + 1]
      ast.fix_missing_locations(fn)
      return True
  for _fn, body in _scoped_bodies(fn):
    if _fn is not None and _fn is not fn:
      continue
    for k, st in enumerate(body):
      if not (isinstance(st, ast.Assign) and len(st.targets) == 1 and isinstance(st.targets[0], ast.Name)):
        continue
      t = st.targets[0].id
      if t in refnames or t in params or (t.startswith('__') and not t.startswith('__t_')) or store_count.get(t, 0) != 1:
        continue
      # comprehension targets are counted as stores by ast (Store ctx): a clash means shadowing
      if t in comp_targets:
        continue
      E = st.value
      if t in nested_names:
        # mode C: a time-independent value of names that are never re-bound may be substituted into nested scopes as well
        stable = isinstance(E, (ast.Name, ast.Constant)) or (isinstance(E, ast.Call) and isinstance(E.func, ast.Name) and E.func.id == 'type'
                                                            and len(E.args) == 1 and isinstance(E.args[0], ast.Name) and not E.keywords)
        enames = _all_names(E) - {'type'}
        rebinds = any(isinstance(n, ast.Name) and n.id in (enames | {t}) and isinstance(n.ctx, (ast.Store, ast.Del)) and n is not st.targets[0]
                      for n in ast.walk(fn))
        if not stable or rebinds or not enames <= params:
          continue

        class SubAll(ast.NodeTransformer):
          def visit_Name(self, n):
            if n.id == t and isinstance(n.ctx, ast.Load):
              return ast.copy_location(copy.deepcopy(E), n)
            return n
        for i in range(k + 1, len(body)):
          body[i] = SubAll().visit(body[i])
        del body[k]
        ast.fix_missing_locations(fn)
        return True
      loads = [n for n in own if isinstance(n, ast.Name) and n.id == t and isinstance(n.ctx, ast.Load)]
      if not loads:
        continue
      after = body[k + 1:]
      in_after = [n for x in after for n in ast.walk(x) if isinstance(n, ast.Name) and n.id == t and isinstance(n.ctx, ast.Load)]
      if len(in_after) != len(loads):
        continue
      mode = None
      if len(loads) == 1 and after:
        hdr = _header_nodes(after[0])
        if any(loads[0] is n for h in hdr for n in ast.walk(h)):
          mode = 'A'
      if mode is None and _pure(E):
        last = max(i for i, x in enumerate(after) if any(n in loads for n in ast.walk(x)))
        span = after[:last + 1]
        names = _all_names(E)
        # uses in the header of the last (compound) statement are evaluated before its body runs
        hdr = _header_nodes(after[last])
        if hdr and not isinstance(after[last], ast.While) and \
            sum(1 for h in hdr for n in ast.walk(h) if n in loads) == sum(1 for n in ast.walk(after[last]) if n in loads):
          wspan = after[:last] + [ast.Expr(value=h) if isinstance(h, ast.expr) else h for h in hdr]
        else:
          wspan = span
        if not any(_writes_to(x, names, _read_paths(E)) for x in wspan) and not any(_writes_to(x, {t}) for x in wspan) \
            and _readonly_uses(span, t, E):
          # calls in between may change attributes / containers E reads
          deep = any(isinstance(n, (ast.Attribute, ast.Subscript, ast.Call)) for n in ast.walk(E))
          has_attr = any(isinstance(n, ast.Attribute) and not (isinstance(getattr(n, 'ctx', None), ast.Load) and False) for n in ast.walk(E)
                         if not (isinstance(n, ast.Attribute) and n.attr in _PURE_METHODS))
          impure = [n for x in span[:last] for n in ast.walk(x) if isinstance(n, ast.Call) and not _pure(n)]
          if has_attr:
            blocked = bool(impure)
          else:
            # a call can only change what E reads if it is handed one of the objects E mentions
            blocked = any(names & _all_names(c) for c in impure)
          if not deep or not blocked:
            mode = 'B'
      if mode is None:
        continue

      class Sub(ast.NodeTransformer):
        def visit_Name(self, n):
          if n.id == t and isinstance(n.ctx, ast.Load):
            return ast.copy_location(copy.deepcopy(E), n)
          return n
      for i in range(k + 1, len(body)):
        body[i] = Sub().visit(body[i])
      del body[k]
      if not body:
        body.append(ast.Pass())
      ast.fix_missing_locations(fn)
      return True
  return False


_BOOL_FUNCS = {'bool', 'all', 'any', 'isinstance', 'issubclass', 'hasattr', 'callable'}
_BOOL_METHODS = {'startswith', 'endswith', 'isidentifier', 'isdigit', 'isalpha', 'isalnum', 'isspace', 'issubset', 'issuperset'}


def _is_boolean(e):
  if isinstance(e, ast.Compare):
    return True
  if isinstance(e, ast.Constant) and isinstance(e.value, bool):
    return True
  if isinstance(e, ast.UnaryOp) and isinstance(e.op, ast.Not):
    return True
  if isinstance(e, ast.BoolOp):
    return all(_is_boolean(v) for v in e.values)
  if isinstance(e, ast.Call):
    if isinstance(e.func, ast.Name) and e.func.id in _BOOL_FUNCS:
      return True
    if isinstance(e.func, ast.Attribute) and e.func.attr in _BOOL_METHODS:
      return True
  return False


def _rewrite_flag_chain(body_list):
  """v = A; v &= B; v |= C   ->   v = (A and B) or C     (all operands boolean and pure)."""
  changed = 0
  k = 0
  while k + 1 < len(body_list):
    a = body_list[k]
    k += 1
    if not (isinstance(a, ast.Assign) and len(a.targets) == 1 and isinstance(a.targets[0], ast.Name) and _is_boolean(a.value) and _pure(a.value)):
      continue
    v = a.targets[0].id
    j = k
    expr = a.value
    while j < len(body_list):
      b = body_list[j]
      if isinstance(b, ast.AugAssign) and isinstance(b.target, ast.Name) and b.target.id == v and isinstance(b.op, (ast.BitAnd, ast.BitOr)) \
          and _is_boolean(b.value) and _pure(b.value) and v not in _all_names(b.value):
        op = ast.And() if isinstance(b.op, ast.BitAnd) else ast.Or()
        if isinstance(expr, ast.BoolOp) and type(expr.op) is type(op) and expr is not a.value:
          expr.values.append(b.value)
        else:
          expr = ast.BoolOp(op=op, values=[expr, b.value])
        j += 1
      else:
        break
    if j == k:
      continue
    a.value = expr
    ast.fix_missing_locations(a)
    del body_list[k:j]
    changed += 1
  return changed


def _rewrite_star_unpack(body_list):
  """A = E[:-1]; B = E[-1]  (E pure, identical)   ->   *A, B = E"""
  changed = 0
  k = 0
  while k + 1 < len(body_list):
    a, b = body_list[k], body_list[k + 1]
    k += 1
    if not (isinstance(a, ast.Assign) and isinstance(b, ast.Assign) and len(a.targets) == 1 and len(b.targets) == 1
            and isinstance(a.value, ast.Subscript) and isinstance(b.value, ast.Subscript)):
      continue
    sa, sb = a.value, b.value
    if ast.unparse(sa.value) != ast.unparse(sb.value) or not _pure(sa.value):
      continue
    if not (isinstance(sa.slice, ast.Slice) and sa.slice.lower is None and sa.slice.step is None and sa.slice.upper is not None
            and ast.unparse(sa.slice.upper) == '-1' and ast.unparse(sb.slice) == '-1'):
      continue
    ta, tb = a.targets[0], b.targets[0]
    if not isinstance(ta, (ast.Name, ast.Attribute)) or not isinstance(tb, (ast.Name, ast.Attribute)):
      continue
    pa = _path_of(ta) if isinstance(ta, ast.Attribute) else ta.id
    if pa is None or any(r == pa or r.startswith(pa + '.') for r in _read_paths(sa.value)):
      continue
    ta2, tb2 = copy.deepcopy(ta), copy.deepcopy(tb)
    new = ast.Assign(targets=[ast.Tuple(elts=[ast.Starred(value=ta2, ctx=ast.Store()), tb2], ctx=ast.Store())], value=sa.value)
    ast.copy_location(new, a)
    ast.fix_missing_locations(new)
    k -= 1
    body_list[k:k + 2] = [new]
    changed += 1
  return changed


class _ExprForms(ast.NodeTransformer):
  """X.rpartition(S)[2] -> X.rsplit(S, 1)[-1];  X.partition(S)[0] -> X.split(S, 1)[0]"""

  def __init__(self):
    self.n = 0

  def visit_Subscript(self, n):
    self.generic_visit(n)
    v = n.value
    if isinstance(v, ast.Call) and isinstance(v.func, ast.Attribute) and len(v.args) == 1 and not v.keywords and isinstance(n.ctx, ast.Load):
      idx = ast.unparse(n.slice)
      if v.func.attr == 'rpartition' and idx in ('2', '-1'):
        v.func.attr = 'rsplit'
        v.args.append(ast.Constant(value=1))
        n.slice = ast.UnaryOp(op=ast.USub(), operand=ast.Constant(value=1))
        self.n += 1
      elif v.func.attr == 'partition' and idx in ('0', '-3'):
        v.func.attr = 'split'
        v.args.append(ast.Constant(value=1))
        n.slice = ast.Constant(value=0)
        self.n += 1
      ast.fix_missing_locations(n)
    return n

  def visit_Call(self, n):
    self.generic_visit(n)
    n = self._flatten_partial(n)
    # (lambda: X)()  ->  X
    if isinstance(n, ast.Call) and isinstance(n.func, ast.Lambda) and not n.args and not n.keywords and not n.func.args.args \
        and not n.func.args.vararg and not n.func.args.kwarg and not n.func.args.kwonlyargs:
      self.n += 1
      return n.func.body
    # all([a, b, c]) -> bool(a and b and c);  any((a, b)) -> bool(a or b)      (a literal display of pure operands)
    if isinstance(n.func, ast.Name) and n.func.id in ('all', 'any') and len(n.args) == 1 and not n.keywords \
        and isinstance(n.args[0], (ast.List, ast.Tuple)) and len(n.args[0].elts) >= 2 \
        and not any(isinstance(x, ast.Starred) for x in n.args[0].elts) and all(_pure(x) for x in n.args[0].elts):
      op = ast.And() if n.func.id == 'all' else ast.Or()
      new = ast.Call(func=ast.Name(id='bool', ctx=ast.Load()), args=[ast.BoolOp(op=op, values=list(n.args[0].elts))], keywords=[])
      ast.copy_location(new, n)
      ast.fix_missing_locations(new)
      self.n += 1
      return new
    return n

  def visit_Compare(self, n):
    self.generic_visit(n)
    return self._compare(n)

  def _truth(self, e):
    """In a position where only truthiness is used, bool(X) is X."""
    while isinstance(e, ast.Call) and isinstance(e.func, ast.Name) and e.func.id == 'bool' and len(e.args) == 1 and not e.keywords:
      e = e.args[0]
      self.n += 1
    if isinstance(e, ast.UnaryOp) and isinstance(e.op, ast.Not):
      e.operand = self._truth(e.operand)
    elif isinstance(e, ast.BoolOp):
      # the value of `a and b` used only for its truth: each operand only for its truth
      e.values = [self._truth(v) for v in e.values]
    return e

  def visit_If(self, n):
    self.generic_visit(n)
    n.test = self._truth(n.test)
    return n

  def visit_While(self, n):
    self.generic_visit(n)
    n.test = self._truth(n.test)
    return n

  def visit_IfExp(self, n):
    self.generic_visit(n)
    n.test = self._truth(n.test)
    return n

  def visit_JoinedStr(self, n):
    # f'{a}/{b}'  ->  '{}/{}'.format(a, b)      (plain fields only: both spell format(x, ''))
    self.generic_visit(n)
    tmpl, ops = '', []
    for v in n.values:
      if isinstance(v, ast.Constant) and isinstance(v.value, str):
        tmpl += v.value.replace('{', '{{').replace('}', '}}')
      elif isinstance(v, ast.FormattedValue) and v.conversion == -1 and v.format_spec is None:
        tmpl += '{}'
        ops.append(v.value)
      else:
        return n
    if not ops:
      return n
    new = ast.Call(func=ast.Attribute(value=ast.Constant(value=tmpl), attr='format', ctx=ast.Load()), args=ops, keywords=[])
    ast.copy_location(new, n)
    ast.fix_missing_locations(new)
    self.n += 1
    return new

  def _flatten_partial(self, n):
    # functools.partial(f, a, k=v)(b)  ->  f(a, b, k=v)
    if isinstance(n, ast.Call) and isinstance(n.func, ast.Call) and ast.unparse(n.func.func) in ('functools.partial', 'partial') and n.func.args \
        and not any(isinstance(x, ast.Starred) for x in n.func.args + n.args) and not any(k.arg is None for k in n.func.keywords + n.keywords):
      self.n += 1
      new = ast.Call(func=n.func.args[0], args=list(n.func.args[1:]) + list(n.args), keywords=list(n.func.keywords) + list(n.keywords))
      return ast.copy_location(new, n)
    return n

  def _compare(self, n):
    # <constant> is None / <constant> is not None / None == <constant>: known
    if len(n.ops) == 1 and isinstance(n.ops[0], (ast.Is, ast.IsNot, ast.Eq, ast.NotEq)) and isinstance(n.left, ast.Constant) \
        and isinstance(n.comparators[0], ast.Constant) and (n.left.value is None or n.comparators[0].value is None) \
        and not isinstance(n.left.value, (float, complex)) and not isinstance(n.comparators[0].value, (float, complex)):
      same = (n.left.value is None) == (n.comparators[0].value is None)
      self.n += 1
      return ast.copy_location(ast.Constant(value=same if isinstance(n.ops[0], (ast.Is, ast.Eq)) else not same), n)
    # S[-2:-1] == [E]   ->   len(S) > 1 and S[-2] == E
    if len(n.ops) == 1 and isinstance(n.ops[0], ast.Eq) and isinstance(n.left, ast.Subscript) and isinstance(n.left.slice, ast.Slice) \
        and n.left.slice.step is None and n.left.slice.lower is not None and n.left.slice.upper is not None \
        and ast.unparse(n.left.slice.lower) == '-2' and ast.unparse(n.left.slice.upper) == '-1' \
        and isinstance(n.comparators[0], ast.List) and len(n.comparators[0].elts) == 1 and _pure(n.left.value):
      S = n.left.value
      new = ast.BoolOp(op=ast.And(), values=[
          ast.Compare(left=ast.Call(func=ast.Name(id='len', ctx=ast.Load()), args=[copy.deepcopy(S)], keywords=[]), ops=[ast.Gt()],
                      comparators=[ast.Constant(value=1)]),
          ast.Compare(left=ast.Subscript(value=S, slice=ast.UnaryOp(op=ast.USub(), operand=ast.Constant(value=2)), ctx=ast.Load()), ops=[ast.Eq()],
                      comparators=[n.comparators[0].elts[0]])])
      ast.copy_location(new, n)
      ast.fix_missing_locations(new)
      self.n += 1
      return new
    # x in (*A, *B) / x in A + B   ->   x in A or x in B       (and the `not in` dual)
    if len(n.ops) == 1 and isinstance(n.ops[0], (ast.In, ast.NotIn)):
      c = n.comparators[0]
      parts = None
      if isinstance(c, (ast.Tuple, ast.List)) and len(c.elts) >= 2 and all(isinstance(e, ast.Starred) for e in c.elts):
        parts = [e.value for e in c.elts]
      elif isinstance(c, ast.BinOp) and isinstance(c.op, ast.Add):
        parts, stack = [], [c]
        while stack:
          x = stack.pop(0)
          if isinstance(x, ast.BinOp) and isinstance(x.op, ast.Add):
            stack[0:0] = [x.left, x.right]
          elif isinstance(x, ast.Call) and isinstance(x.func, ast.Name) and x.func.id in ('list', 'tuple') and len(x.args) == 1:
            parts.append(x.args[0])
          else:
            parts.append(x)
        if any(isinstance(x, ast.Constant) for x in parts):
          parts = None
      elif isinstance(c, ast.Call) and ast.unparse(c.func) in ('itertools.chain', 'chain') and len(c.args) >= 2 and not c.keywords \
          and not any(isinstance(x, ast.Starred) for x in c.args):
        parts = list(c.args)
      else:
        # set(A).union(B, C) / set(A) | set(B) / {*A, *B}: membership in a union of collections (of hashable names)
        def union_parts(e):
          if isinstance(e, ast.Call) and isinstance(e.func, ast.Name) and e.func.id in ('set', 'frozenset') and len(e.args) == 1 and not e.keywords:
            return [e.args[0]]
          if isinstance(e, ast.Call) and isinstance(e.func, ast.Attribute) and e.func.attr == 'union' and not e.keywords \
              and not any(isinstance(x, ast.Starred) for x in e.args):
            base = union_parts(e.func.value)
            return None if base is None else base + list(e.args)
          if isinstance(e, ast.BinOp) and isinstance(e.op, ast.BitOr):
            l_, r_ = union_parts(e.left), union_parts(e.right)
            return None if l_ is None or r_ is None else l_ + r_
          if isinstance(e, ast.Set) and e.elts and all(isinstance(x, ast.Starred) for x in e.elts):
            return [x.value for x in e.elts]
          return None
        up = union_parts(c)
        if up is not None and len(up) >= 2:
          parts = up
      if parts and _pure(n.left):
        op = type(n.ops[0])
        vals = [ast.Compare(left=copy.deepcopy(n.left), ops=[op()], comparators=[p_]) for p_ in parts]
        new = ast.BoolOp(op=ast.Or() if op is ast.In else ast.And(), values=vals)
        ast.copy_location(new, n)
        ast.fix_missing_locations(new)
        self.n += 1
        return new
    return n


def _never_none(ge):
  """The generator expression yields its own loop variable, filtered by an isinstance test on it: never None."""
  if len(ge.generators) != 1:
    return False
  gen = ge.generators[0]
  if not (isinstance(gen.target, ast.Name) and isinstance(ge.elt, ast.Name) and ge.elt.id == gen.target.id):
    return False
  for c in gen.ifs:
    if isinstance(c, ast.Call) and isinstance(c.func, ast.Name) and c.func.id == 'isinstance' and len(c.args) == 2 \
        and ast.unparse(c.args[0]) == gen.target.id and ast.unparse(c.args[1]) not in ('object', 'type(None)'):
      return True
  return False


def _rewrite_iter_tools(fn, body_list, noret=()):
  """for v in itertools.islice(G, 1): BODY-that-never-falls-through   ->   for v in G: BODY
     for v in itertools.filterfalse(F, X): BODY                        ->   for v in X: if not F(v): BODY      (filter(F, X) likewise)"""
  changed = 0
  for st in body_list:
    if not (isinstance(st, ast.For) and isinstance(st.iter, ast.Call) and isinstance(st.target, ast.Name) and not st.orelse):
      continue
    fnm = ast.unparse(st.iter.func)
    if fnm in ('itertools.islice', 'islice') and len(st.iter.args) == 2 and ast.unparse(st.iter.args[1]) == '1' and st.body:
      last = st.body[-1]
      ends = isinstance(last, (ast.Raise, ast.Return, ast.Break)) or (isinstance(last, ast.Expr) and isinstance(last.value, ast.Call)
                                                                  and isinstance(last.value.func, ast.Name) and last.value.func.id in noret)
      if ends:
        st.iter = st.iter.args[0]
        changed += 1
        fnm = ast.unparse(st.iter.func) if isinstance(st.iter, ast.Call) else ''
    if isinstance(st.iter, ast.Call) and fnm in ('itertools.filterfalse', 'filterfalse', 'filter') and len(st.iter.args) == 2 \
        and not _has_continue(st.body) and _pure(st.iter.args[0]):
      F, X = st.iter.args
      call = ast.Call(func=F, args=[ast.Name(id=st.target.id, ctx=ast.Load())], keywords=[])
      call = _ExprForms()._flatten_partial(call)
      test = call if fnm == 'filter' else ast.UnaryOp(op=ast.Not(), operand=call)
      st.iter = X
      st.body = [ast.copy_location(ast.If(test=test, body=st.body, orelse=[]), st)]
      ast.fix_missing_locations(st)
      changed += 1
  return changed


def _rewrite_for_genexp(fn, body_list, noret=()):
  """for T in (x for x in IT if C): BODY      ->  for x in IT: if C: BODY[T:=x]
     S = object(); t = next((x for x in IT if C), S); if t is not S: BODY   ->  for t in IT: if C: BODY; break"""
  changed = 0
  for i, st in enumerate(body_list):
    if isinstance(st, ast.For) and not st.orelse and isinstance(st.iter, ast.GeneratorExp) and len(st.iter.generators) == 1 \
        and isinstance(st.target, ast.Name):
      ge = st.iter
      gen = ge.generators[0]
      if isinstance(gen.target, ast.Name) and isinstance(ge.elt, ast.Name) and ge.elt.id == gen.target.id and gen.ifs \
          and not _has_continue(st.body):
        x, T = gen.target.id, st.target.id
        ifs = gen.ifs
        if x != T:
          sub = _Subst({x: ast.Name(id=T, ctx=ast.Load())}, {})
          ifs = [sub.visit(copy.deepcopy(c)) for c in ifs]
        test = ifs[0] if len(ifs) == 1 else ast.BoolOp(op=ast.And(), values=ifs)
        st.iter = gen.iter
        st.body = [ast.copy_location(ast.If(test=test, body=st.body, orelse=[]), st)]
        ast.fix_missing_locations(st)
        changed += 1
  # general form:  for T in (ELT for a in A [if c] for b in B ...): BODY   ->   for a in A: [if c:] for b in B: T = ELT; BODY
  for i, st in enumerate(body_list):
    if isinstance(st, ast.For) and not st.orelse and isinstance(st.iter, ast.GeneratorExp) and fn is not None:
      ge = st.iter
      multi = len(ge.generators) > 1
      def _loop_level_jump(stmts):
        for x in stmts:
          if isinstance(x, (ast.Break, ast.Continue)):
            return True
          if isinstance(x, (ast.For, ast.While) + FN + (ast.ClassDef,)):
            continue
          for fld in ('body', 'orelse', 'finalbody'):
            if _loop_level_jump(getattr(x, fld, []) or []):
              return True
          for h in getattr(x, 'handlers', []) or []:
            if _loop_level_jump(h.body):
              return True
        return False
      has_jump = _loop_level_jump(st.body)
      if has_jump and (multi or any(g_.ifs for g_ in ge.generators)):
        continue
      bound = set()
      for g_ in ge.generators:
        bound |= {n.id for n in ast.walk(g_.target) if isinstance(n, ast.Name)}
      tnames = {n.id for n in ast.walk(st.target) if isinstance(n, ast.Name)}
      if any(_used_after(fn, st, nm) for nm in bound - tnames):
        continue
      # comprehension variables become function locals: keep them apart from names the function already uses
      inside_ge = {id(n) for n in ast.walk(ge)}
      outside = {n.id for n in ast.walk(fn) if isinstance(n, ast.Name) and id(n) not in inside_ge}
      clash = {nm: nm + '__g' for nm in bound if nm in outside and nm not in tnames}
      if clash:
        for n in ast.walk(ge):
          if isinstance(n, ast.Name) and n.id in clash:
            n.id = clash[n.id]
      same = ast.unparse(ge.elt) == ast.unparse(st.target)
      inner = ([] if same else [ast.Assign(targets=[st.target], value=ge.elt)]) + list(st.body)
      new = None
      for g_ in reversed(ge.generators):
        if g_.ifs:
          inner = [ast.If(test=g_.ifs[0] if len(g_.ifs) == 1 else ast.BoolOp(op=ast.And(), values=list(g_.ifs)), body=inner, orelse=[])]
        tgt = copy.deepcopy(g_.target)
        for n in ast.walk(tgt):
          if isinstance(n, (ast.Name, ast.Tuple, ast.List, ast.Starred)):
            n.ctx = ast.Store()
        new = ast.For(target=tgt, iter=g_.iter, body=inner, orelse=[])
        inner = [new]
      ast.copy_location(new, st)
      ast.fix_missing_locations(new)
      body_list[i] = new
      changed += 1
  k = 0
  while k + 1 < len(body_list):
    a, b = body_list[k], body_list[k + 1]
    k += 1
    if not (isinstance(a, ast.Assign) and len(a.targets) == 1 and isinstance(a.targets[0], ast.Name) and isinstance(a.value, ast.Call)
            and isinstance(a.value.func, ast.Name) and a.value.func.id == 'next' and len(a.value.args) == 2
            and isinstance(a.value.args[0], ast.GeneratorExp) and isinstance(b, ast.If) and not b.orelse):
      continue
    t, S, ge = a.targets[0].id, a.value.args[1], a.value.args[0]
    if not (isinstance(b.test, ast.Compare) and len(b.test.ops) == 1 and isinstance(b.test.ops[0], ast.IsNot) and ast.unparse(b.test.left) == t
            and ast.unparse(b.test.comparators[0]) == ast.unparse(S)):
      continue
    if fn is None or _used_after(fn, b, t):
      continue
    # the sentinel can never be an element
    if isinstance(S, ast.Name):
      sdefs = [n for n in ast.walk(fn) if isinstance(n, ast.Assign) and len(n.targets) == 1 and ast.unparse(n.targets[0]) == S.id]
      if len(sdefs) != 1 or ast.unparse(sdefs[0].value) != 'object()':
        continue
    elif not (isinstance(S, ast.Constant) and S.value is None and (isinstance(ge.elt, ast.Tuple) or _never_none(ge))):
      continue
    gens = ge.generators
    nested = len(gens) > 1
    last = b.body[-1] if b.body else None
    ends = isinstance(last, (ast.Raise, ast.Return)) or (isinstance(last, ast.Expr) and isinstance(last.value, ast.Call)
                                                       and isinstance(last.value.func, ast.Name) and last.value.func.id in noret)
    if nested and not ends:
      continue            # `break` would only leave the innermost loop
    simple = len(gens) == 1 and isinstance(gens[0].target, ast.Name) and isinstance(ge.elt, ast.Name) and ge.elt.id == gens[0].target.id
    if simple:
      sub = _Subst({gens[0].target.id: ast.Name(id=t, ctx=ast.Load())}, {})
      ifs = [sub.visit(copy.deepcopy(c)) for c in gens[0].ifs]
      inner = list(b.body) + ([] if ends else [ast.Break()])
      if ifs:
        inner = [ast.If(test=ifs[0] if len(ifs) == 1 else ast.BoolOp(op=ast.And(), values=ifs), body=inner, orelse=[])]
      new = ast.For(target=ast.Name(id=t, ctx=ast.Store()), iter=gens[0].iter, body=inner, orelse=[])
    else:
      bound = set()
      for g_ in gens:
        bound |= {n.id for n in ast.walk(g_.target) if isinstance(n, ast.Name)}
      inner = [ast.Assign(targets=[ast.Name(id=t, ctx=ast.Store())], value=ge.elt)] + list(b.body) + ([] if ends else [ast.Break()])
      new = None
      for g_ in reversed(gens):
        if g_.ifs:
          inner = [ast.If(test=g_.ifs[0] if len(g_.ifs) == 1 else ast.BoolOp(op=ast.And(), values=list(g_.ifs)), body=inner, orelse=[])]
        new = ast.For(target=g_.target, iter=g_.iter, body=inner, orelse=[])
        inner = [new]
      # comprehension variables become loop variables of the function: they must not clash with names read later
      if any(_used_after(fn, b, nm) for nm in bound):
        continue
    ast.copy_location(new, a)
    ast.fix_missing_locations(new)
    k -= 1
    body_list[k:k + 2] = [new]
    changed += 1
  return changed


def _rewrite_inplace_sort(body_list):
  """x = <fresh list>; x.sort(**kw)   ->   x = sorted(<...>, **kw)"""
  changed = 0
  k = 0
  while k + 1 < len(body_list):
    a, b = body_list[k], body_list[k + 1]
    k += 1
    if not (isinstance(a, ast.Assign) and len(a.targets) == 1 and isinstance(a.targets[0], ast.Name) and isinstance(b, ast.Expr)
            and isinstance(b.value, ast.Call) and isinstance(b.value.func, ast.Attribute) and b.value.func.attr == 'sort'
            and isinstance(b.value.func.value, ast.Name) and b.value.func.value.id == a.targets[0].id and not b.value.args):
      continue
    v = a.value
    fresh = isinstance(v, (ast.ListComp, ast.List)) or (isinstance(v, ast.Call) and isinstance(v.func, ast.Name) and v.func.id in ('list', 'sorted'))
    if not fresh or any(a.targets[0].id in _all_names(k_.value) for k_ in b.value.keywords):
      continue
    inner = v.args[0] if isinstance(v, ast.Call) and v.func.id == 'list' and len(v.args) == 1 and not v.keywords else v
    a.value = ast.Call(func=ast.Name(id='sorted', ctx=ast.Load()), args=[inner], keywords=b.value.keywords)
    ast.fix_missing_locations(a)
    del body_list[k]
    k -= 1
    changed += 1
  return changed


def _rewrite_result_var(body_list):
  """if c: ...; v = A  else: ...; v = B  ;  return v      ->   if c: ...; return A  else: ...; return B"""
  changed = 0
  k = 0
  while k + 1 < len(body_list):
    a, r = body_list[k], body_list[k + 1]
    k += 1
    if not (isinstance(a, ast.If) and a.orelse and isinstance(r, ast.Return) and isinstance(r.value, ast.Name)):
      continue
    v = r.value.id

    def ok(stmts):
      if not stmts:
        return False
      last = stmts[-1]
      if isinstance(last, (ast.Raise, ast.Return)):
        return True
      if isinstance(last, ast.Assign) and len(last.targets) == 1 and isinstance(last.targets[0], ast.Name) and last.targets[0].id == v:
        return True
      if isinstance(last, ast.If) and last.orelse:
        return ok(last.body) and ok(last.orelse)
      return False

    if not (ok(a.body) and ok(a.orelse)):
      continue

    def push(stmts):
      last = stmts[-1]
      if isinstance(last, ast.Assign):
        stmts[-1] = ast.copy_location(ast.Return(value=last.value), last)
      elif isinstance(last, ast.If):
        push(last.body)
        push(last.orelse)
    push(a.body)
    push(a.orelse)
    ast.fix_missing_locations(a)
    del body_list[k]
    k -= 1
    changed += 1
  return changed


def _rewrite_setdefault_store(body_list):
  """D.setdefault(K, V)[A] = X     ->   t = D.setdefault(K, V); t[A] = X"""
  changed = 0
  i = 0
  while i < len(body_list):
    st = body_list[i]
    if isinstance(st, ast.Assign) and len(st.targets) == 1 and isinstance(st.targets[0], ast.Subscript) \
        and isinstance(st.targets[0].value, ast.Call) and isinstance(st.targets[0].value.func, ast.Attribute) \
        and st.targets[0].value.func.attr == 'setdefault':
      tmp = '__sd%d_%d' % (getattr(st, 'lineno', 0), getattr(st, 'col_offset', 0))
      a = ast.Assign(targets=[ast.Name(id=tmp, ctx=ast.Store())], value=st.targets[0].value)
      ast.copy_location(a, st)
      st.targets[0].value = ast.Name(id=tmp, ctx=ast.Load())
      ast.fix_missing_locations(a)
      ast.fix_missing_locations(st)
      body_list.insert(i, a)
      changed += 1
      i += 2
      continue
    i += 1
  return changed


def _rewrite_vars_update(body_list):
  """vars(o).update(a=X, b=Y)  /  o.__dict__.update(a=X, b=Y)    ->   o.a = X; o.b = Y"""
  changed = 0
  i = 0
  while i < len(body_list):
    st = body_list[i]
    if isinstance(st, ast.Expr) and isinstance(st.value, ast.Call) and isinstance(st.value.func, ast.Attribute) and st.value.func.attr == 'update' \
        and not st.value.args and st.value.keywords and all(k.arg for k in st.value.keywords):
      recv = st.value.func.value
      obj = None
      if isinstance(recv, ast.Call) and isinstance(recv.func, ast.Name) and recv.func.id == 'vars' and len(recv.args) == 1 and isinstance(recv.args[0], ast.Name):
        obj = recv.args[0]
      elif isinstance(recv, ast.Attribute) and recv.attr == '__dict__' and isinstance(recv.value, ast.Name):
        obj = recv.value
      if obj is not None:
        new = []
        for k in st.value.keywords:
          a = ast.Assign(targets=[ast.Attribute(value=ast.Name(id=obj.id, ctx=ast.Load()), attr=k.arg, ctx=ast.Store())], value=k.value)
          ast.copy_location(a, st)
          ast.fix_missing_locations(a)
          new.append(a)
        body_list[i:i + 1] = new
        changed += 1
        i += len(new)
        continue
    i += 1
  return changed


def _rewrite_annassign(body_list):
  """Inside a function `x: T = v` is `x = v`, and a bare `x: T` does nothing (annotations of locals are not evaluated)."""
  if _unpack_fn is None:
    return 0
  changed = 0
  for i, st in enumerate(body_list):
    if isinstance(st, ast.AnnAssign) and isinstance(st.target, (ast.Name, ast.Attribute, ast.Subscript)):
      if st.value is None:
        if isinstance(st.target, ast.Name):
          body_list[i] = ast.copy_location(ast.Pass(), st)
          changed += 1
        continue
      new = ast.Assign(targets=[st.target], value=st.value)
      body_list[i] = ast.copy_location(new, st)
      ast.fix_missing_locations(new)
      changed += 1
  return changed


def _drop_dead_code(body_list):
  """Statements after an unconditional raise / return / break / continue never run; `L += []` does nothing."""
  for i, st in enumerate(body_list):
    if isinstance(st, ast.AugAssign) and isinstance(st.op, ast.Add) and isinstance(st.target, ast.Name) and isinstance(st.value, ast.List) and not st.value.elts:
      body_list[i] = ast.copy_location(ast.Pass(), st)
      return 1
    if isinstance(st, (ast.Raise, ast.Return, ast.Break, ast.Continue)) and i + 1 < len(body_list):
      if any(isinstance(x, FN + (ast.ClassDef,)) for x in body_list[i + 1:]):
        return 0
      del body_list[i + 1:]
      return 1
  return 0


def _rewrite_nested_if(body_list):
  """if a: if b: X   (no else on either)   ->   if a and b: X"""
  changed = 0
  for st in body_list:
    while isinstance(st, ast.If) and not st.orelse and len(st.body) == 1 and isinstance(st.body[0], ast.If) and not st.body[0].orelse:
      inner = st.body[0]
      vals = (st.test.values if isinstance(st.test, ast.BoolOp) and isinstance(st.test.op, ast.And) else [st.test]) + \
             (inner.test.values if isinstance(inner.test, ast.BoolOp) and isinstance(inner.test.op, ast.And) else [inner.test])
      st.test = ast.copy_location(ast.BoolOp(op=ast.And(), values=list(vals)), st.test)
      st.body = inner.body
      ast.fix_missing_locations(st)
      changed += 1
  return changed


def _rewrite_or_default(body_list):
  """`if not X: X = E`  /  `X = X if X else E`  ->  `X = X or E`."""
  changed = 0
  for i, st in enumerate(body_list):
    if isinstance(st, ast.If) and not st.orelse and len(st.body) == 1 and isinstance(st.test, ast.UnaryOp) and isinstance(st.test.op, ast.Not) \
        and isinstance(st.test.operand, ast.Name) and isinstance(st.body[0], ast.Assign) and len(st.body[0].targets) == 1 \
        and isinstance(st.body[0].targets[0], ast.Name) and st.body[0].targets[0].id == st.test.operand.id:
      x = st.test.operand.id
      if x in _all_names(st.body[0].value):
        continue
      new = ast.Assign(targets=[ast.Name(id=x, ctx=ast.Store())],
                       value=ast.BoolOp(op=ast.Or(), values=[ast.Name(id=x, ctx=ast.Load()), st.body[0].value]))
      ast.copy_location(new, st)
      ast.fix_missing_locations(new)
      body_list[i] = new
      changed += 1
    elif isinstance(st, ast.Assign) and len(st.targets) == 1 and isinstance(st.targets[0], ast.Name) and isinstance(st.value, ast.IfExp):
      x = st.targets[0].id
      v = st.value
      e = None
      if isinstance(v.test, ast.Name) and v.test.id == x and isinstance(v.body, ast.Name) and v.body.id == x:
        e = v.orelse
      elif isinstance(v.test, ast.UnaryOp) and isinstance(v.test.op, ast.Not) and isinstance(v.test.operand, ast.Name) and v.test.operand.id == x \
          and isinstance(v.orelse, ast.Name) and v.orelse.id == x:
        e = v.body
      if e is not None and x not in _all_names(e):
        st.value = ast.BoolOp(op=ast.Or(), values=[ast.Name(id=x, ctx=ast.Load()), e])
        ast.fix_missing_locations(st)
        changed += 1
  return changed


def idioms(tree):
  ef = _ExprForms()
  ef.visit(tree)
  n = ef.n
  global _unpack_fn
  for _ in range(3):
    c = 0
    fn_of = {id(b): f for f, b in _scoped_bodies(tree)}
    for owner, fld, body in list(_bodies(tree)):
      _unpack_fn = fn_of.get(id(body))
      c += _rewrite_exitstack(body)
      c += _rewrite_acquire(body)
      c += _rewrite_dict_merge(body)
      c += _rewrite_setdefault(body)
      c += _rewrite_annassign(body)
      c += _rewrite_tuple_assign(body)
      c += _rewrite_or_default(body)
      c += _rewrite_flag_chain(body)
      c += _rewrite_star_unpack(body)
      c += _rewrite_inplace_sort(body)
      c += _rewrite_nested_if(body)
      c += _drop_dead_code(body)
      c += _rewrite_vars_update(body)
      c += _rewrite_setdefault_store(body)
      c += _rewrite_result_var(body)
    n += c
    if not c:
      break
  return n


# ----------------------------------------------------------------------------
# closures that were lifted to module level (optionally bound with functools.partial)


_refs_cache = None


def _load_refs():
  global _refs_cache
  if _refs_cache is None:
    try:
      with open(os.path.join(os.path.dirname(TABLE), 'canon_refs.json')) as f:
        _refs_cache = json.load(f)
    except Exception:
      _refs_cache = {}
  return _refs_cache


def _load_table():
  try:
    with open(TABLE) as f:
      return json.load(f)
  except Exception:
    return {}


def unlift(tree, modname, table=None):
  """A reference closure  F.f  that was turned into a module-level function g
  (its free variables becoming leading parameters, bound at the use sites with
  functools.partial or passed straight through) is put back as a closure of F
  under its reference name, so that the rules find it where they expect it."""
  table = table if table is not None else _load_table()
  ref_mod = table.get(modname)
  if not ref_mod:
    return 0
  import difflib
  from .canon import bindings
  done = 0
  top = {st.name: st for st in tree.body if isinstance(st, ast.FunctionDef)}
  for gname, gfn in list(top.items()):
    if '%s.%s' % (modname, gname) in ref_mod:
      continue
    a = gfn.args
    if a.vararg or a.kwarg or a.posonlyargs or gfn.decorator_list:
      continue
    gparams = [x.arg for x in a.args] + [x.arg for x in a.kwonlyargs]
    # all references to g
    refs = [n for n in ast.walk(tree) if isinstance(n, ast.Name) and n.id == gname and isinstance(n.ctx, ast.Load)]
    if not refs or any(any(n is r for r in refs) for n in ast.walk(gfn)):
      continue
    # enclosing chains
    parents = {}
    for pnode in ast.walk(tree):
      for c in ast.iter_child_nodes(pnode):
        parents[c] = pnode

    def chain(n):
      out = []
      while n in parents:
        n = parents[n]
        if isinstance(n, FN + (ast.ClassDef,)):
          out.append(n)
      return list(reversed(out))
    sites = []
    ok = True
    for r in refs:
      par = parents.get(r)
      if isinstance(par, ast.Call) and par.func is r:
        sites.append(('call', par, chain(r)))
      elif isinstance(par, ast.Call) and ast.unparse(par.func) in ('functools.partial', 'partial') and par.args and par.args[0] is r:
        sites.append(('partial', par, chain(r)))
      else:
        sites.append(('ref', r, chain(r)))
    if not ok or not sites:
      continue
    # the innermost function common to all sites
    common = None
    for i in range(min(len(c) for _, _, c in sites)):
      if all(c[i] is sites[0][2][i] for _, _, c in sites):
        common = sites[0][2][:i + 1]
    if not common or not isinstance(common[-1], FN):
      continue
    F = common[-1]
    fq = modname + '.' + '.'.join(x.name for x in common)
    have = {st.name for st in ast.walk(F) if isinstance(st, FN) and st is not F}
    missing = [q.rsplit('.', 1)[1] for q in ref_mod if q.startswith(fq + '.') and '.' not in q[len(fq) + 1:] and q.rsplit('.', 1)[1] not in have]
    if not missing:
      continue
    # parameters bound at every site to one and the same plain name
    bound = {}
    bad = False
    for kind, call, _c in sites:
      if kind == 'ref':
        for pn in gparams:
          bound[pn] = None
        continue
      argv = call.args[1:] if kind == 'partial' else call.args
      if any(isinstance(x, ast.Starred) for x in argv) or any(k.arg is None for k in call.keywords):
        bad = True
        break
      b = dict(zip(gparams, argv))
      for k in call.keywords:
        b[k.arg] = k.value
      for pn in gparams:
        e = b.get(pn)
        v = e.id if isinstance(e, ast.Name) else None
        if kind == 'partial' and pn in b and v is None:
          bad = True
        prev = bound.get(pn, '?')
        bound[pn] = v if prev in ('?', v) else None
      if kind == 'partial' and len(argv) + len(call.keywords) == 0:
        bad = True
    if bad:
      continue
    partial_bound = set()
    for kind, call, _c in sites:
      if kind == 'partial':
        partial_bound |= set(gparams[:len(call.args) - 1]) | {k.arg for k in call.keywords}
    fvis = _all_names(F) | {x.arg for x in F.args.args}
    passthrough = [pn for pn in gparams if bound.get(pn) and (pn in partial_bound or bound[pn] in fvis)]
    if partial_bound - set(passthrough):
      continue
    stored = _names_stored(ast.Module(body=gfn.body, type_ignores=[]))
    if any(pn in stored or bound[pn] in stored for pn in passthrough):
      continue
    rest = [pn for pn in gparams if pn not in passthrough]
    # choose the reference name
    gb = [fp for n_, fp in bindings(gfn) if not fp.startswith('param:')]
    best, score = None, -1.0
    for m in missing:
      ref = ref_mod['%s.%s' % (fq, m)]
      rb = [fp for _n, fp in ref if not fp.startswith('param:')]
      rparams = [n_ for n_, fp in ref if fp.startswith('param:')]
      sc = difflib.SequenceMatcher(None, rb, gb, autojunk=False).ratio() if (rb or gb) else 1.0
      if len(rparams) != len(rest):
        sc -= 0.5
      if any(kind == 'partial' and isinstance(parents.get(call), ast.Assign) and ast.unparse(parents[call].targets[0]) == m for kind, call, _c in sites):
        sc += 1.0
      if sc > score:
        best, score = m, sc
    if best is None or score < 0.5:
      continue
    # build the closure
    newfn = copy.deepcopy(gfn)
    newfn.name = best
    keep = [i for i, x in enumerate(newfn.args.args) if x.arg in rest]
    nd = len(newfn.args.defaults)
    npar = len(newfn.args.args)
    defaults = {newfn.args.args[npar - nd + j].arg: d for j, d in enumerate(newfn.args.defaults)}
    newfn.args.args = [newfn.args.args[i] for i in keep]
    newfn.args.defaults = [defaults[x.arg] for x in newfn.args.args if x.arg in defaults]
    kwkeep = [i for i, x in enumerate(newfn.args.kwonlyargs) if x.arg in rest]
    newfn.args.kw_defaults = [newfn.args.kw_defaults[i] for i in kwkeep]
    newfn.args.kwonlyargs = [newfn.args.kwonlyargs[i] for i in kwkeep]
    sub = _Subst({pn: ast.Name(id=bound[pn], ctx=ast.Load()) for pn in passthrough if bound[pn] != pn}, {})
    newfn.body = [sub.visit(st) for st in newfn.body]
    # rewrite the sites
    placed = False
    for kind, call, _c in sites:
      if kind == 'ref':
        call.id = best
        continue
      if kind == 'call':
        b = dict(zip(gparams, call.args))
        npos = len(call.args)
        call.func = ast.copy_location(ast.Name(id=best, ctx=ast.Load()), call.func)
        call.args = [x for pn, x in zip(gparams, call.args) if pn not in passthrough]
        call.keywords = [k for k in call.keywords if k.arg not in passthrough]
      else:
        par = parents.get(call)
        remaining = [x for pn, x in zip(gparams, call.args[1:]) if pn not in passthrough]
        if remaining:
          call.args = [ast.copy_location(ast.Name(id=best, ctx=ast.Load()), call)] + remaining
          call.keywords = [k for k in call.keywords if k.arg not in passthrough]
          continue
        if isinstance(par, ast.Assign) and len(par.targets) == 1 and isinstance(par.targets[0], ast.Name) and par.targets[0].id == best and not placed:
          # T = functools.partial(g, ...)  ->  def T(...): ...
          for _o, _f, body in _bodies(F):
            if par in body:
              ast.copy_location(newfn, par)
              body[body.index(par)] = newfn
              placed = True
          continue
        new = ast.copy_location(ast.Name(id=best, ctx=ast.Load()), call)
        for fld, val in ast.iter_fields(par):
          if val is call:
            setattr(par, fld, new)
          elif isinstance(val, list):
            for i, x in enumerate(val):
              if x is call:
                val[i] = new
    if not placed:
      idx = 0
      if F.body and isinstance(F.body[0], ast.Expr) and isinstance(F.body[0].value, ast.Constant) and isinstance(F.body[0].value.value, str):
        idx = 1
      ast.copy_location(newfn, F.body[idx] if idx < len(F.body) else F)
      F.body.insert(idx, newfn)
    ast.fix_missing_locations(F)
    tree.body.remove(gfn)
    done += 1
  return done


_CM_COUNT = [0]


def inline_context_helpers(tree, modname, table=None):
  """A new module-level @contextlib.contextmanager helper (not in the reference tree) of one of the shapes
       pre; try: yield E  finally: post        pre; yield E; post        pre; with CTX: yield E
  is expanded at every `with helper(args) [as X]: BODY`:  pre; try: BODY finally: post  /  pre; BODY; post  /  pre; with CTX: BODY
  (X replaced by E, or assigned first).  The second shape keeps its meaning: `post` is skipped when BODY raises.
  Then  L.acquire(); try: BODY finally: L.release()  is written  with L: BODY."""
  table = table if table is not None else _load_table()
  ref_mod = (table or {}).get(modname) or {}
  helpers = {}
  for st in tree.body:
    if not isinstance(st, ast.FunctionDef) or '%s.%s' % (modname, st.name) in ref_mod:
      continue
    if [ast.unparse(d) for d in st.decorator_list] not in (['contextlib.contextmanager'], ['contextmanager']):
      continue
    a = st.args
    if a.vararg or a.kwarg or a.kwonlyargs or a.posonlyargs:
      continue
    body = list(st.body)
    if body and isinstance(body[0], ast.Expr) and isinstance(body[0].value, ast.Constant) and isinstance(body[0].value.value, str):
      body = body[1:]
    ys = [n for n in ast.walk(st) if isinstance(n, (ast.Yield, ast.YieldFrom))]
    if len(ys) != 1 or not isinstance(ys[0], ast.Yield) or any(isinstance(n, (ast.Return,) + FN + (ast.Lambda,)) for x in body for n in ast.walk(x)):
      continue

    def is_yield(x):
      return isinstance(x, ast.Expr) and x.value is ys[0]
    shape = None
    for i, x in enumerate(body):
      if is_yield(x):
        shape = ('B', body[:i], body[i + 1:], None)
      elif isinstance(x, ast.Try) and not x.handlers and not x.orelse and len(x.body) == 1 and is_yield(x.body[0]) and i == len(body) - 1:
        shape = ('A', body[:i], x.finalbody, None)
      elif isinstance(x, ast.With) and len(x.body) == 1 and is_yield(x.body[0]) and i == len(body) - 1:
        shape = ('C', body[:i], [], x.items)
      if shape:
        break
    if shape is None:
      continue
    if any(n is ys[0] for part in (shape[1], shape[2]) for x in part for n in ast.walk(x)):
      continue
    helpers[st.name] = (st, shape, ys[0].value)
  if not helpers:
    return 0
  done = 0
  for fn in [n for n in ast.walk(tree) if isinstance(n, FN) and n.name not in helpers]:
    for _o, _f, lst in list(_bodies(fn)):
      i = 0
      while i < len(lst):
        w = lst[i]
        i += 1
        if not (isinstance(w, ast.With) and len(w.items) == 1 and isinstance(w.items[0].context_expr, ast.Call)
                and isinstance(w.items[0].context_expr.func, ast.Name) and w.items[0].context_expr.func.id in helpers):
          continue
        call = w.items[0].context_expr
        hfn, (kind, pre, post, items), yv = helpers[call.func.id]
        params = [x.arg for x in hfn.args.args]
        if any(isinstance(x, ast.Starred) for x in call.args) or any(k.arg is None or k.arg not in params for k in call.keywords) or len(call.args) > len(params):
          continue
        bound = dict(zip(params, call.args))
        bound.update({k.arg: k.value for k in call.keywords})
        nd = len(hfn.args.defaults)
        for j, d in enumerate(hfn.args.defaults):
          bound.setdefault(params[len(params) - nd + j], d)
        if set(bound) != set(params) or not all(isinstance(v, (ast.Name, ast.Constant, ast.Attribute)) for v in bound.values()):
          continue
        X = w.items[0].optional_vars
        if X is not None and not isinstance(X, ast.Name):
          continue
        _CM_COUNT[0] += 1
        stored = _names_stored(ast.Module(body=pre + post, type_ignores=[])) - set(params)
        if stored & set(params):
          continue
        sub = _Subst(bound, {n: '%s__cm%d' % (n, _CM_COUNT[0]) for n in stored})
        pre2 = [sub.visit(copy.deepcopy(x)) for x in pre]
        post2 = [sub.visit(copy.deepcopy(x)) for x in post]
        items2 = [sub.visit(copy.deepcopy(x)) for x in (items or [])]
        E = sub.visit(copy.deepcopy(yv)) if yv is not None else ast.Constant(value=None)
        inner = list(w.body)
        if X is not None:
          used_outside = any(isinstance(n, ast.Name) and n.id == X.id and not any(n is m for m in ast.walk(w)) for n in ast.walk(fn))
          restored = X.id in _names_stored(ast.Module(body=inner, type_ignores=[]))
          if isinstance(E, (ast.Name, ast.Constant)) and not used_outside and not restored and not (isinstance(E, ast.Name) and E.id in sub.renames.values()):
            rn = _Subst({X.id: E}, {})
            inner = [rn.visit(x) for x in inner]
          else:
            inner = [ast.Assign(targets=[ast.Name(id=X.id, ctx=ast.Store())], value=E, lineno=w.lineno, col_offset=w.col_offset)] + inner
        if kind == 'A':
          new = pre2 + [ast.Try(body=inner, handlers=[], orelse=[], finalbody=post2)]
        elif kind == 'B':
          new = pre2 + inner + post2
        else:
          new = pre2 + [ast.With(items=items2, body=inner)]
        for x in new:
          ast.copy_location(x, w)
          ast.fix_missing_locations(x)
        lst[i - 1:i] = new
        i = i - 1 + len(new)
        done += 1
  if done:
    for name, (hfn, _s, _y) in helpers.items():
      if not any(isinstance(n, ast.Name) and n.id == name for n in ast.walk(tree)):
        tree.body.remove(hfn)
  # L.acquire(); try: BODY finally: L.release()   ->   with L: BODY
  for _o, _f, lst in list(_bodies(tree)):
    i = 0
    while i + 1 < len(lst):
      a, t = lst[i], lst[i + 1]
      i += 1
      if isinstance(a, ast.Expr) and isinstance(a.value, ast.Call) and isinstance(a.value.func, ast.Attribute) and a.value.func.attr == 'acquire' \
          and not a.value.args and not a.value.keywords and isinstance(t, ast.Try) and not t.handlers and not t.orelse and len(t.finalbody) == 1:
        r = t.finalbody[0]
        if isinstance(r, ast.Expr) and isinstance(r.value, ast.Call) and isinstance(r.value.func, ast.Attribute) and r.value.func.attr == 'release' \
            and not r.value.args and ast.unparse(r.value.func.value) == ast.unparse(a.value.func.value):
          wn = ast.With(items=[ast.withitem(context_expr=a.value.func.value, optional_vars=None)], body=t.body)
          ast.copy_location(wn, a)
          ast.fix_missing_locations(wn)
          lst[i - 1:i + 1] = [wn]
          done += 1
  return done


def restore_function_names(tree, modname, table=None):
  """A reference function (module level, or a method) that is missing, while a new function at the same level has
  (mutually best) similar local bindings, was renamed: give it its reference name back, together with every reference to it."""
  table = table if table is not None else _load_table()
  ref_mod = table.get(modname)
  if not ref_mod:
    return 0
  import difflib
  from .canon import bindings
  done = 0
  levels = [(modname, tree.body)]
  for st in tree.body:
    if isinstance(st, ast.ClassDef):
      levels.append(('%s.%s' % (modname, st.name), st.body))
  for prefix, body in levels:
    cur = {st.name: st for st in body if isinstance(st, FN)}
    missing = [q.rsplit('.', 1)[1] for q in ref_mod if q.rsplit('.', 1)[0] == prefix and q.rsplit('.', 1)[1] not in cur]
    new = [n for n in cur if '%s.%s' % (prefix, n) not in ref_mod]
    if not missing or not new:
      continue

    def fps(seq):
      return [fp for _n, fp in seq if not fp.startswith('param:')]
    score = {}
    for m in missing:
      rb = fps(ref_mod['%s.%s' % (prefix, m)])
      for n in new:
        gb = fps(bindings(cur[n]))
        if not rb and not gb:
          continue
        score[(m, n)] = difflib.SequenceMatcher(None, rb, gb, autojunk=False).ratio()
    # who referred to the missing function on the reference tree, and who refers to the candidates now
    refs_tbl = _load_refs().get(modname, {})
    is_method_level = prefix != modname
    def users_ref(m):
      key = ('.' + m) if is_method_level else m
      return {q for q, names in refs_tbl.items() if key in names and q != '%s.%s' % (prefix, m)}
    def users_now(n):
      out = set()
      from .canon import _functions
      for q, fnode in _functions(tree, modname):
        if fnode is cur[n]:
          continue
        for x in ast.walk(fnode):
          if (not is_method_level and isinstance(x, ast.Name) and x.id == n and isinstance(x.ctx, ast.Load)) or \
             (is_method_level and isinstance(x, ast.Attribute) and x.attr == n and isinstance(x.value, ast.Name) and x.value.id in ('self', 'cls')):
            out.add(q)
      return out
    for m in missing:
      ur = users_ref(m)
      for n in new:
        if (m, n) in score and ur:
          # a renamed function is still used from where the old one was used
          if not (ur & users_now(n)):
            del score[(m, n)]
          else:
            rp = [nm for nm, fp in ref_mod['%s.%s' % (prefix, m)] if fp.startswith('param:')]
            from .canon import _params
            if rp == _params(cur[n]):
              score[(m, n)] = max(score[(m, n)], 0.6) + 0.2
    for m in missing:
      cands = sorted(((sc, n) for (mm, n), sc in score.items() if mm == m), reverse=True)
      if not cands or cands[0][0] < 0.6:
        continue
      sc, n = cands[0]
      # mutual best
      if any(sc2 > sc for (m2, n2), sc2 in score.items() if n2 == n and m2 != m):
        continue
      if len(cands) > 1 and cands[1][0] >= sc:
        continue
      fn = cur[n]
      is_method = prefix != modname
      for x in ast.walk(tree):
        if not is_method and isinstance(x, ast.Name) and x.id == n:
          x.id = m
        elif is_method and isinstance(x, ast.Attribute) and x.attr == n and isinstance(x.value, ast.Name) and x.value.id in ('self', 'cls'):
          x.attr = m
      fn.name = m
      done += 1
  return done


def _jumps_at_loop_level(stmts):
  for x in stmts:
    if isinstance(x, (ast.Break, ast.Continue)):
      return True
    if isinstance(x, (ast.For, ast.While) + FN + (ast.ClassDef,)):
      continue
    for fld in ('body', 'orelse', 'finalbody'):
      if _jumps_at_loop_level(getattr(x, fld, []) or []):
        return True
    for h in getattr(x, 'handlers', []) or []:
      if _jumps_at_loop_level(h.body):
        return True
  return False


def inline_generators(tree, modname, table=None):
  """New generator helpers (module level, or nested in the function that uses them) that are consumed on the spot:
       L.extend(G(a))                      ->  for y in G(a): L.append(y)
       list(G(a)) / sep.join(G(a)) / ...   ->  tmp = []; for y in G(a): tmp.append(y); ... tmp ...
       for T in G(a): BODY                 ->  the body of G with every `yield v` replaced by `T = v; BODY`"""
  table = table if table is not None else _load_table()
  ref_mod = table.get(modname)
  if not ref_mod:
    return 0
  from .canon import _functions
  quals = {id(fn): q for q, fn in _functions(tree, modname)}
  inl = Inliner(tree, modname)
  count = 0
  tmpn = [0]

  owner_class = {}
  for cst in tree.body:
    if isinstance(cst, ast.ClassDef):
      for m_ in cst.body:
        if isinstance(m_, ast.FunctionDef):
          owner_class[id(m_)] = cst

  def generator_def(call, owner):
    """FunctionDef of the new generator helper that `call` calls, or None."""
    if isinstance(call, ast.Call) and isinstance(call.func, ast.Attribute) and isinstance(call.func.value, ast.Name) and call.func.value.id == 'self' \
        and owner is not None and id(owner) in owner_class:
      name = call.func.attr
      cands = [m_ for m_ in owner_class[id(owner)].body if isinstance(m_, ast.FunctionDef) and m_.name == name]
      return _pick(cands, name)
    if not (isinstance(call, ast.Call) and isinstance(call.func, ast.Name)):
      return None
    name = call.func.id
    cands = []
    if owner is not None:
      for st in ast.walk(owner):
        if isinstance(st, ast.FunctionDef) and st is not owner and st.name == name:
          cands.append(st)
    for st in tree.body:
      if isinstance(st, ast.FunctionDef) and st.name == name:
        cands.append(st)
    return _pick(cands, name)

  def _pick(cands, name):
    for g in cands:
      q = quals.get(id(g))
      if q is None or q in ref_mod or [ast.unparse(d) for d in g.decorator_list] not in ([], ['staticmethod']):
        continue
      if not any(isinstance(n, (ast.Yield, ast.YieldFrom)) for n in _own_walk(g)):
        continue
      # yields only as statements; `return` only bare and last
      ok = True
      for n in _own_walk(g):
        if isinstance(n, (ast.Yield, ast.YieldFrom)):
          ok = ok and any(isinstance(p, ast.Expr) and p.value is n for p in _own_walk(g))
        if isinstance(n, ast.Return) and n.value is not None:
          ok = False
        if isinstance(n, ast.Call) and isinstance(n.func, ast.Name) and n.func.id == name:
          ok = False
      if ok and not g.args.vararg and not g.args.kwarg:
        return g
    return None

  def owners():
    for q, fn in _functions(tree, modname):
      yield fn

  changed = True
  rounds = 0
  while changed and rounds < 4:
    changed = False
    rounds += 1
    for owner in list(owners()):
      for _fn, body in _scoped_bodies(owner):
        if _fn is not None and _fn is not owner:
          continue
        i = 0
        while i < len(body):
          st = body[i]
          # A1: L.extend(G(...))
          if isinstance(st, ast.Expr) and isinstance(st.value, ast.Call) and isinstance(st.value.func, ast.Attribute) and st.value.func.attr == 'extend' \
              and len(st.value.args) == 1 and generator_def(st.value.args[0], owner) is not None and isinstance(st.value.func.value, ast.Name):
            tmpn[0] += 1
            y = '__y%d' % tmpn[0]
            app = ast.Expr(value=ast.Call(func=ast.Attribute(value=st.value.func.value, attr='append', ctx=ast.Load()),
                                          args=[ast.Name(id=y, ctx=ast.Load())], keywords=[]))
            new = ast.For(target=ast.Name(id=y, ctx=ast.Store()), iter=st.value.args[0], body=[app], orelse=[])
            ast.copy_location(new, st)
            ast.fix_missing_locations(new)
            body[i] = new
            changed = True
            count += 1
            continue
          # A2: a consuming call list(G()) / tuple / dict / set / sorted / S.join(G()) inside a simple statement
          if isinstance(st, (ast.Return, ast.Assign, ast.Expr, ast.AugAssign)):
            hit = None
            for n in ast.walk(st):
              if isinstance(n, ast.Call) and len(n.args) >= 1 and generator_def(n.args[0], owner) is not None:
                fnm = ast.unparse(n.func)
                if fnm in ('list', 'tuple', 'dict', 'set', 'sorted', 'frozenset') or (isinstance(n.func, ast.Attribute) and n.func.attr == 'join'):
                  hit = n
                  break
            if hit is not None:
              tmpn[0] += 1
              t = '__g%d' % tmpn[0]
              y = '__y%d' % tmpn[0]
              init = ast.Assign(targets=[ast.Name(id=t, ctx=ast.Store())], value=ast.List(elts=[], ctx=ast.Load()))
              app = ast.Expr(value=ast.Call(func=ast.Attribute(value=ast.Name(id=t, ctx=ast.Load()), attr='append', ctx=ast.Load()),
                                            args=[ast.Name(id=y, ctx=ast.Load())], keywords=[]))
              loop = ast.For(target=ast.Name(id=y, ctx=ast.Store()), iter=hit.args[0], body=[app], orelse=[])
              hit.args[0] = ast.Name(id=t, ctx=ast.Load())
              for x_ in (init, loop):
                ast.copy_location(x_, st)
                ast.fix_missing_locations(x_)
              ast.fix_missing_locations(st)
              body[i:i] = [init, loop]
              changed = True
              count += 1
              continue
          # B: for T in G(...): BODY
          if isinstance(st, ast.For) and not st.orelse and generator_def(st.iter, owner) is not None and not _jumps_at_loop_level(st.body):
            g = generator_def(st.iter, owner)
            caller_names = _all_names(owner)
            selfexpr = st.iter.func.value if isinstance(st.iter.func, ast.Attribute) else None
            b = inl._bind(g, st.iter, selfexpr, caller_names)
            if b is not None:
              mapping, pre, renames = b
              gbody = copy.deepcopy(g.body)
              if gbody and isinstance(gbody[0], ast.Expr) and isinstance(gbody[0].value, ast.Constant) and isinstance(gbody[0].value.value, str):
                gbody = gbody[1:]
              # bare `return`s: early exits become else branches, then the ones in tail position just end the body
              gbody = _elseify(gbody)

              def strip_tail_returns(stmts):
                if stmts and isinstance(stmts[-1], ast.Return):
                  stmts[-1:] = [] if len(stmts) > 1 else [ast.Pass()]
                elif stmts and isinstance(stmts[-1], ast.If):
                  strip_tail_returns(stmts[-1].body)
                  if stmts[-1].orelse:
                    strip_tail_returns(stmts[-1].orelse)
                return stmts
              gbody = strip_tail_returns(gbody) or [ast.Pass()]
              if _count_returns(gbody):
                i += 1
                continue        # a `return` somewhere else (inside a loop): not expressible in place
              sub = _Subst(mapping, renames)
              gbody = [sub.visit(x) for x in gbody]

              def repl(stmts):
                out = []
                for x in stmts:
                  if isinstance(x, ast.Expr) and isinstance(x.value, ast.Yield):
                    v = x.value.value if x.value.value is not None else ast.Constant(value=None)
                    out.append(ast.Assign(targets=[copy.deepcopy(st.target)], value=v))
                    out.extend(copy.deepcopy(st.body))
                    continue
                  if isinstance(x, ast.Expr) and isinstance(x.value, ast.YieldFrom):
                    out.append(ast.For(target=copy.deepcopy(st.target), iter=x.value.value, body=copy.deepcopy(st.body), orelse=[]))
                    continue
                  if not isinstance(x, FN + (ast.ClassDef,)):
                    for fld in ('body', 'orelse', 'finalbody'):
                      bb = getattr(x, fld, None)
                      if isinstance(bb, list) and bb and isinstance(bb[0], ast.stmt):
                        setattr(x, fld, repl(bb))
                    for h in getattr(x, 'handlers', []) or []:
                      h.body = repl(h.body)
                  out.append(x)
                return out
              new = pre + repl(gbody)
              for x_ in new:
                ast.copy_location(x_, st)
                for y_ in ast.walk(x_):
                  if not hasattr(y_, 'lineno'):
                    ast.copy_location(y_, st)
                ast.fix_missing_locations(x_)
              body[i:i + 1] = new or [ast.copy_location(ast.Pass(), st)]
              changed = True
              count += 1
              continue
          i += 1
  if count:
    # generator helpers that are no longer referenced
    for owner in list(owners()):
      for _fn, body in _scoped_bodies(owner):
        for st in list(body):
          if isinstance(st, ast.FunctionDef) and quals.get(id(st)) not in ref_mod and quals.get(id(st)) is not None \
              and any(isinstance(n, (ast.Yield, ast.YieldFrom)) for n in _own_walk(st)):
            own = {id(n) for n in ast.walk(st)}
            if not any(isinstance(n, ast.Name) and n.id == st.name and id(n) not in own for n in ast.walk(tree)):
              body.remove(st)
    for cst in tree.body:
      if isinstance(cst, ast.ClassDef):
        for m_ in list(cst.body):
          if isinstance(m_, ast.FunctionDef) and quals.get(id(m_)) is not None and quals.get(id(m_)) not in ref_mod \
              and any(isinstance(n, (ast.Yield, ast.YieldFrom)) for n in _own_walk(m_)) \
              and not any(isinstance(n, ast.Attribute) and n.attr == m_.name for n in ast.walk(tree)):
            cst.body.remove(m_)
    inl._drop_dead_helpers()
  return count


def _load_shape():
  p = os.path.join(os.path.dirname(os.path.abspath(__file__)), 'canon_shape.json')
  try:
    with open(p) as f:
      return json.load(f)
  except (OSError, ValueError):
    return None


def collect_generators(tree, modname, table=None):
  """A private reference function that was a plain function and is now a generator, every call of which is drained on the
  spot (`list(F(..))`, `sep.join(F(..))`, `L.extend(F(..))`, `sorted(F(..))`, `tuple(F(..))`): read it back as the
  function that collects what it yields.  When every caller joins the result with one and the same constant separator,
  the join is moved to the function's return (formatting a fresh list of strings is unobservable either side of the call)."""
  table = table if table is not None else _load_table()
  ref_mod = table.get(modname)
  shape = _load_shape()
  if not ref_mod or shape is None:
    return 0
  ref_gens = set(shape.get(modname, ()))
  from .canon import _functions
  count = 0
  for q, fn in _functions(tree, modname):
    if q not in ref_mod or q in ref_gens or not isinstance(fn, ast.FunctionDef) or not fn.name.startswith('_') or fn.name.startswith('__'):
      continue
    if q.count('.') != 1 or fn.decorator_list:
      continue      # module-level private functions only: every reference is a Name in this module
    own = list(_own_walk(fn))
    ys = [n for n in own if isinstance(n, (ast.Yield, ast.YieldFrom))]
    if not ys:
      continue
    stmts = {id(n.value): n for n in own if isinstance(n, ast.Expr)}
    if not all(id(y) in stmts for y in ys) or any(isinstance(n, ast.Return) and n.value is not None for n in own):
      continue
    if any(isinstance(y, ast.Yield) and y.value is None for y in ys):
      continue
    # every reference to the name is a call consumed at once
    parents = {}
    for n in ast.walk(tree):
      for c in ast.iter_child_nodes(n):
        parents[id(c)] = n
    uses = [n for n in ast.walk(tree) if isinstance(n, ast.Name) and n.id == fn.name and isinstance(n.ctx, ast.Load)]
    sites = []
    ok = bool(uses)
    for n in uses:
      call = parents.get(id(n))
      if not (isinstance(call, ast.Call) and call.func is n):
        ok = False
        break
      cons = parents.get(id(call))
      if not (isinstance(cons, ast.Call) and len(cons.args) == 1 and cons.args[0] is call and not cons.keywords):
        ok = False
        break
      if isinstance(cons.func, ast.Name) and cons.func.id in ('list', 'tuple', 'sorted'):
        sites.append((cons.func.id, call, cons))
      elif isinstance(cons.func, ast.Attribute) and cons.func.attr == 'join' and isinstance(cons.func.value, ast.Constant) \
          and isinstance(cons.func.value.value, str):
        sites.append(('join', call, cons))
      elif isinstance(cons.func, ast.Attribute) and cons.func.attr == 'extend':
        sites.append(('extend', call, cons))
      else:
        ok = False
        break
    if not ok:
      continue
    acc = '__acc_' + fn.name.strip('_')

    def conv(stmts_):
      for i, st in enumerate(stmts_):
        if isinstance(st, ast.Expr) and isinstance(st.value, ast.Yield):
          new = ast.Expr(value=ast.Call(func=ast.Attribute(value=ast.Name(id=acc, ctx=ast.Load()), attr='append', ctx=ast.Load()),
                                        args=[st.value.value], keywords=[]))
          stmts_[i] = ast.copy_location(new, st)
        elif isinstance(st, ast.Expr) and isinstance(st.value, ast.YieldFrom):
          new = ast.Expr(value=ast.Call(func=ast.Attribute(value=ast.Name(id=acc, ctx=ast.Load()), attr='extend', ctx=ast.Load()),
                                        args=[st.value.value], keywords=[]))
          stmts_[i] = ast.copy_location(new, st)
        elif isinstance(st, ast.Return):
          st.value = ast.Name(id=acc, ctx=ast.Load())
        elif isinstance(st, (ast.FunctionDef, ast.AsyncFunctionDef, ast.ClassDef)):
          continue
        else:
          for fld in ('body', 'orelse', 'finalbody'):
            sub = getattr(st, fld, None)
            if isinstance(sub, list):
              conv(sub)
          for h in getattr(st, 'handlers', []) or []:
            conv(h.body)
    conv(fn.body)
    k = 1 if fn.body and isinstance(fn.body[0], ast.Expr) and isinstance(fn.body[0].value, ast.Constant) and isinstance(fn.body[0].value.value, str) else 0
    init = ast.Assign(targets=[ast.Name(id=acc, ctx=ast.Store())], value=ast.List(elts=[], ctx=ast.Load()))
    fn.body.insert(k, ast.copy_location(init, fn.body[min(k, len(fn.body) - 1)]))
    fn.body.append(ast.copy_location(ast.Return(value=ast.Name(id=acc, ctx=ast.Load())), fn.body[-1]))
    if isinstance(fn.returns, ast.AST):
      fn.returns = None
    # callers: list(F(..)) -> F(..)
    for kind, call, cons in sites:
      if kind == 'list':
        par = parents.get(id(cons))
        for fld, val in ast.iter_fields(par):
          if val is cons:
            setattr(par, fld, call)
          elif isinstance(val, list):
            for j, x in enumerate(val):
              if x is cons:
                val[j] = call
        parents[id(call)] = par
    # one separator at every use: the join belongs to the function
    seps = set()
    plans = []
    for kind, call, cons in sites:
      par = parents.get(id(call) if kind == 'list' else id(cons))
      if kind == 'join':
        seps.add(cons.func.value.value)
        plans.append(('direct', cons, call, par))
      elif kind == 'list' and isinstance(par, ast.Assign) and len(par.targets) == 1 and isinstance(par.targets[0], ast.Name):
        t = par.targets[0].id
        owner = None
        for q2, f2 in _functions(tree, modname):
          if any(x is par for x in ast.walk(f2)):
            owner = f2      # innermost wins (later in the list)
        if owner is None:
          seps.add(None)
          continue
        loads = [n for n in _own_walk(owner) if isinstance(n, ast.Name) and n.id == t and isinstance(n.ctx, ast.Load)]
        stores = [n for n in _own_walk(owner) if isinstance(n, ast.Name) and n.id == t and isinstance(n.ctx, ast.Store)]
        j = parents.get(id(loads[0])) if len(loads) == 1 else None
        if len(stores) == 1 and isinstance(j, ast.Call) and isinstance(j.func, ast.Attribute) and j.func.attr == 'join' \
            and isinstance(j.func.value, ast.Constant) and isinstance(j.func.value.value, str) and j.args == [loads[0]] and not j.keywords:
          seps.add(j.func.value.value)
          plans.append(('temp', j, loads[0], parents.get(id(j))))
        else:
          seps.add(None)
      else:
        seps.add(None)
    if len(seps) == 1 and None not in seps:
      sep = seps.pop()
      for st in _own_walk(fn):
        if isinstance(st, ast.Return) and isinstance(st.value, ast.Name) and st.value.id == acc:
          st.value = ast.Call(func=ast.Attribute(value=ast.Constant(value=sep), attr='join', ctx=ast.Load()),
                              args=[ast.Name(id=acc, ctx=ast.Load())], keywords=[])
      for kind, outer, inner, par in plans:
        if par is None:
          continue
        for fld, val in ast.iter_fields(par):
          if val is outer:
            setattr(par, fld, inner)
          elif isinstance(val, list):
            for j_, x in enumerate(val):
              if x is outer:
                val[j_] = inner
    ast.fix_missing_locations(tree)
    count += 1
  return count


_READ_METHODS = {'get', 'items', 'keys', 'values', 'index', 'count', 'copy', 'union', 'intersection', 'difference', 'issubset', 'issuperset',
                 'isdisjoint', 'startswith', 'endswith', 'join', 'format', 'split', 'rsplit', 'strip'}


def _load_vocab():
  p = os.path.join(os.path.dirname(os.path.abspath(__file__)), 'canon_vocab.json')
  try:
    with open(p) as f:
      return set(json.load(f))
  except (OSError, ValueError):
    return None


def _literal_table(e, depth=0):
  """A display built from constants, plain names and dotted names only (no calls): evaluating it again gives an equal value."""
  if isinstance(e, ast.Constant):
    return True
  if isinstance(e, ast.Name):
    return depth > 0
  if isinstance(e, ast.Attribute):
    return depth > 0 and _literal_table(e.value, 1) and isinstance(e.value, (ast.Name, ast.Attribute))
  if isinstance(e, (ast.Tuple, ast.List, ast.Set)):
    return all(_literal_table(x, depth + 1) for x in e.elts)
  if isinstance(e, ast.Dict):
    return all(k is not None and _literal_table(k, depth + 1) for k in e.keys) and all(_literal_table(v, depth + 1) for v in e.values)
  if isinstance(e, ast.Call) and isinstance(e.func, ast.Name) and e.func.id == 'frozenset' and len(e.args) == 1 and not e.keywords:
    return _literal_table(e.args[0], depth + 1)
  return False


def inline_module_constants(tree, modname):
  """A module-level table that the reference tree does not have (`_NEW = (A, B)` / `{...}` of constants and names), bound once,
  only ever read: every use inside a function is replaced by the display itself."""
  vocab = _load_vocab()
  if vocab is None:
    return 0
  cands = {}
  folded_in = set()      # ids of Name nodes that were folded into another constant's definition

  def fold(e):
    """String / number arithmetic over constants and earlier new constants, e.g. _PREFIX + 'name'."""
    if isinstance(e, ast.Constant):
      return e
    if isinstance(e, ast.Name) and e.id in cands and isinstance(cands[e.id], ast.Constant):
      folded_in.add(id(e))
      return cands[e.id]
    if isinstance(e, ast.BinOp) and isinstance(e.op, ast.Add):
      l_, r_ = fold(e.left), fold(e.right)
      if isinstance(l_, ast.Constant) and isinstance(r_, ast.Constant) and type(l_.value) is type(r_.value) and isinstance(l_.value, (str, int)):
        return ast.copy_location(ast.Constant(value=l_.value + r_.value), e)
    return None
  for st in tree.body:
    tgt = None
    if isinstance(st, ast.Assign) and len(st.targets) == 1 and isinstance(st.targets[0], ast.Name):
      tgt, val = st.targets[0].id, st.value
    elif isinstance(st, ast.AnnAssign) and isinstance(st.target, ast.Name) and st.value is not None:
      tgt, val = st.target.id, st.value
    if tgt and tgt not in vocab and isinstance(val, ast.BinOp):
      fv = fold(val)
      if fv is not None:
        val = fv
    if tgt and tgt not in vocab and _literal_table(val) and not (isinstance(val, ast.Constant) and val.value is None):
      cands[tgt] = val
  if not cands:
    return 0
  parents = {}
  for n in ast.walk(tree):
    for c in ast.iter_child_nodes(n):
      parents[id(c)] = n
  stores = {}
  for n in ast.walk(tree):
    if isinstance(n, ast.Name) and n.id in cands and isinstance(n.ctx, (ast.Store, ast.Del)):
      stores[n.id] = stores.get(n.id, 0) + 1
    elif isinstance(n, (ast.Global, ast.Nonlocal)):
      for x in n.names:
        if x in cands:
          stores[x] = 99
    elif isinstance(n, ast.arg) and n.arg in cands:
      stores[n.arg] = 99
  count = 0
  for name, val in sorted(cands.items()):
    if stores.get(name, 0) != 1:
      continue
    immutable = isinstance(val, (ast.Tuple, ast.Call, ast.Constant))
    uses = [n for n in ast.walk(tree) if isinstance(n, ast.Name) and n.id == name and isinstance(n.ctx, ast.Load) and id(n) not in folded_in]
    ok = bool(uses)
    for n in uses:
      par = parents.get(id(n))
      if immutable and not any(isinstance(x, (ast.List, ast.Dict, ast.Set)) for x in ast.walk(val)):
        continue
      if isinstance(par, ast.Compare) and n in par.comparators and all(isinstance(o, (ast.In, ast.NotIn)) for o in par.ops):
        continue
      if any(isinstance(x, (ast.List, ast.Dict, ast.Set, ast.ListComp, ast.DictComp, ast.SetComp)) for x in ast.walk(val) if x is not val):
        # the elements are objects with an identity that every reader shares: a display at the use site would make them fresh
        ok = False
        break
      if isinstance(par, ast.Subscript) and par.value is n and isinstance(par.ctx, ast.Load):
        continue
      if isinstance(par, (ast.For, ast.comprehension)) and par.iter is n:
        continue
      if isinstance(par, ast.Attribute) and par.attr in _READ_METHODS and isinstance(parents.get(id(par)), ast.Call):
        continue
      ok = False
      break
    if not ok:
      continue
    # the names the display mentions must mean the module-level thing where it is used
    vnames = {x.id for x in ast.walk(val) if isinstance(x, ast.Name)}
    funcs = [f for f in ast.walk(tree) if isinstance(f, (ast.FunctionDef, ast.AsyncFunctionDef, ast.Lambda))]
    def shadowed(n):
      cur = parents.get(id(n))
      while cur is not None:
        if isinstance(cur, (ast.FunctionDef, ast.AsyncFunctionDef, ast.Lambda)):
          bound = {a.arg for a in ast.walk(cur.args) if isinstance(a, ast.arg)}
          bound |= {x.id for x in ast.walk(cur) if isinstance(x, ast.Name) and isinstance(x.ctx, ast.Store)}
          if bound & vnames:
            return True
        cur = parents.get(id(cur))
      return False
    in_funcs = [n for n in uses if any(isinstance(a, (ast.FunctionDef, ast.AsyncFunctionDef)) for a in _ancestors(n, parents))]
    if len(in_funcs) != len(uses) or any(shadowed(n) for n in uses):
      continue
    for n in uses:
      par = parents.get(id(n))
      rep = ast.copy_location(copy.deepcopy(val), n)
      for fld, v in ast.iter_fields(par):
        if v is n:
          setattr(par, fld, rep)
        elif isinstance(v, list):
          for j, x in enumerate(v):
            if x is n:
              v[j] = rep
    count += 1
  if count:
    ast.fix_missing_locations(tree)
  return count


def _ancestors(n, parents):
  cur = parents.get(id(n))
  while cur is not None:
    yield cur
    cur = parents.get(id(cur))


def inline_expression_helpers(tree, modname, table=None):
  """A new helper (nested, module level, or a method called through self) that only names a pure expression
       def h(a, b):  t = E1(a); return E2(t, b)
  is substituted, as an expression, into every call of it - also calls inside comprehensions, conditions and lambdas, where
  statement-level inlining cannot go."""
  table = table if table is not None else _load_table()
  ref_mod = table.get(modname)
  if not ref_mod:
    return 0
  from .canon import _functions
  count = 0
  for _round in range(4):
    parents = {}
    for n in ast.walk(tree):
      for c in ast.iter_child_nodes(n):
        parents[id(c)] = n
    done = False
    for q, fn in _functions(tree, modname):
      if q in ref_mod or not isinstance(fn, ast.FunctionDef):
        continue
      decs = [ast.unparse(d) for d in fn.decorator_list]
      is_prop = decs == ['property']
      if any(d != 'staticmethod' for d in decs) and not is_prop:
        continue
      a = fn.args
      if a.vararg or a.kwarg or a.kwonlyargs or a.posonlyargs:
        continue
      if is_prop and (len(a.args) != 1 or not isinstance(parents.get(id(fn)), ast.ClassDef)):
        continue
      body = list(fn.body)
      if body and isinstance(body[0], ast.Expr) and isinstance(body[0].value, ast.Constant) and isinstance(body[0].value.value, str):
        body = body[1:]
      if not body or not isinstance(body[-1], ast.Return) or body[-1].value is None:
        continue
      temps = {}
      ok = True
      for st in body[:-1]:
        if isinstance(st, ast.Assign) and len(st.targets) == 1 and isinstance(st.targets[0], ast.Name) and st.targets[0].id not in temps \
            and _pure(st.value):
          temps[st.targets[0].id] = st.value
        else:
          ok = False
          break
      if not ok or not _pure(body[-1].value) or (temps and False):
        continue
      params = [x.arg for x in a.args]
      if set(params) & set(temps):
        continue
      owner = parents.get(id(fn))
      is_method = isinstance(owner, ast.ClassDef)
      if is_method and 'staticmethod' not in decs:
        if not params:
          continue
        selfname, params = params[0], params[1:]
      else:
        selfname = None
      # the expression, temporaries substituted in definition order
      expr = copy.deepcopy(body[-1].value)
      for t in reversed(list(temps)):
        expr = _Subst({t: temps[t]}, {}).visit(expr)
      if any(isinstance(x, ast.Name) and x.id in temps for x in ast.walk(expr)):
        continue
      free = {x.id for x in ast.walk(expr) if isinstance(x, ast.Name)} - set(params) - ({selfname} if selfname else set())
      defaults = dict(zip([x.arg for x in a.args][len(a.args) - len(a.defaults):], a.defaults))
      # call sites
      scope = owner if isinstance(owner, (ast.FunctionDef, ast.AsyncFunctionDef)) else tree
      sites = []
      other_refs = 0
      if is_prop:
        # a new read-only property: every `<name>.<prop>` load in the module stands for the expression
        psites = []
        for n in ast.walk(tree):
          if n is fn or any(x is fn for x in _ancestors(n, parents)):
            continue
          if isinstance(n, ast.Attribute) and n.attr == fn.name:
            if isinstance(n.ctx, ast.Load) and isinstance(n.value, ast.Name):
              psites.append(n)
            else:
              other_refs += 1
          elif isinstance(n, ast.Constant) and n.value == fn.name:
            other_refs += 1      # getattr(x, 'name') and the like
        if not psites or other_refs or free:
          continue
        for n in psites:
          rep = _Subst({selfname: n.value}, {}).visit(copy.deepcopy(expr))
          ast.copy_location(rep, n)
          par = parents.get(id(n))
          for fld, v in ast.iter_fields(par):
            if v is n:
              setattr(par, fld, rep)
            elif isinstance(v, list):
              for j, x in enumerate(v):
                if x is n:
                  v[j] = rep
        owner.body.remove(fn)
        if not owner.body:
          owner.body.append(ast.Pass())
        ast.fix_missing_locations(tree)
        count += 1
        done = True
        break
      for n in ast.walk(scope):
        if n is fn or any(x is fn for x in _ancestors(n, parents)):
          continue
        if isinstance(n, ast.Call) and ((not is_method and isinstance(n.func, ast.Name) and n.func.id == fn.name) or
                                        (is_method and isinstance(n.func, ast.Attribute) and n.func.attr == fn.name and isinstance(n.func.value, ast.Name)
                                         and n.func.value.id in ('self', 'cls'))):
          sites.append(n)
        elif not is_method and isinstance(n, ast.Name) and n.id == fn.name and not (isinstance(parents.get(id(n)), ast.Call) and parents[id(n)].func is n):
          other_refs += 1
        elif is_method and isinstance(n, ast.Attribute) and n.attr == fn.name and not (isinstance(parents.get(id(n)), ast.Call) and parents[id(n)].func is n):
          other_refs += 1
      if not sites or other_refs:
        continue
      plans = []
      for call in sites:
        if any(isinstance(x, ast.Starred) for x in call.args) or any(k.arg is None or k.arg not in params for k in call.keywords) \
            or len(call.args) > len(params):
          plans = None
          break
        bound = dict(zip(params, call.args))
        for k in call.keywords:
          if k.arg in bound:
            plans = None
            break
          bound[k.arg] = k.value
        if plans is None:
          break
        for p_ in params:
          if p_ not in bound:
            if p_ in defaults and isinstance(defaults[p_], ast.Constant):
              bound[p_] = defaults[p_]
            else:
              plans = None
              break
        if plans is None:
          break
        # an argument that is not a plain value may only be used once (and then it is evaluated in place)
        uses = {p_: sum(1 for x in ast.walk(expr) if isinstance(x, ast.Name) and x.id == p_) for p_ in params}
        if any(not isinstance(v, (ast.Name, ast.Constant, ast.Attribute)) and (uses[p_] != 1 or not _pure(v)) for p_, v in bound.items()):
          plans = None
          break
        # names the helper takes from its surroundings must mean the same thing at the call
        shadow = set()
        for anc in _ancestors(call, parents):
          if isinstance(anc, (ast.ListComp, ast.SetComp, ast.DictComp, ast.GeneratorExp)):
            for g_ in anc.generators:
              shadow |= {x.id for x in ast.walk(g_.target) if isinstance(x, ast.Name)}
          elif isinstance(anc, ast.Lambda):
            shadow |= {x.arg for x in ast.walk(anc.args) if isinstance(x, ast.arg)}
          elif isinstance(anc, (ast.FunctionDef, ast.AsyncFunctionDef)) and anc is not scope and scope is not tree:
            shadow |= {x.arg for x in ast.walk(anc.args) if isinstance(x, ast.arg)}
            shadow |= {x.id for x in ast.walk(anc) if isinstance(x, ast.Name) and isinstance(x.ctx, ast.Store)}
        if scope is tree:
          # a module-level helper reads module names: the calling function must not bind them locally
          for anc in _ancestors(call, parents):
            if isinstance(anc, (ast.FunctionDef, ast.AsyncFunctionDef)):
              shadow |= {x.arg for x in ast.walk(anc.args) if isinstance(x, ast.arg)}
              shadow |= {x.id for x in ast.walk(anc) if isinstance(x, ast.Name) and isinstance(x.ctx, ast.Store)}
        if shadow & free:
          plans = None
          break
        m = dict(bound)
        if selfname:
          m[selfname] = call.func.value
        plans.append((call, m))
      if not plans:
        continue
      for call, m in plans:
        rep = _Subst({k: v for k, v in m.items()}, {}).visit(copy.deepcopy(expr))
        ast.copy_location(rep, call)
        par = parents.get(id(call))
        for fld, v in ast.iter_fields(par):
          if v is call:
            setattr(par, fld, rep)
          elif isinstance(v, list):
            for j, x in enumerate(v):
              if x is call:
                v[j] = rep
      holder = owner.body if hasattr(owner, 'body') else tree.body
      if fn in holder:
        holder.remove(fn)
        if not holder:
          holder.append(ast.Pass())
      ast.fix_missing_locations(tree)
      count += 1
      done = True
      break
    if not done:
      break
  return count


def callee_signatures(tree):
  """Simple name -> parameter names, for the module's own functions, methods (without self) and classes (constructor / NamedTuple fields).
  Names defined more than once with different parameter lists are left out."""
  sigs, clash = {}, set()

  def add(name, params):
    if name in sigs and sigs[name] != params:
      clash.add(name)
    sigs[name] = params

  def params_of(fn, drop_self):
    a = fn.args
    if a.posonlyargs or a.vararg:
      return None
    ps = [x.arg for x in a.args]
    return ps[1:] if drop_self and ps else ps
  for st in tree.body:
    if isinstance(st, ast.FunctionDef):
      ps = params_of(st, False)
      if ps is not None:
        add(st.name, ps)
    elif isinstance(st, ast.ClassDef):
      init = [m for m in st.body if isinstance(m, ast.FunctionDef) and m.name == '__init__']
      if init:
        ps = params_of(init[0], True)
        if ps is not None:
          add(st.name, ps)
      elif any('NamedTuple' in ast.unparse(b) for b in st.bases):
        add(st.name, [x.target.id for x in st.body if isinstance(x, ast.AnnAssign) and isinstance(x.target, ast.Name)])
      for m in st.body:
        if isinstance(m, ast.FunctionDef) and not m.name.startswith('__'):
          static = any(ast.unparse(d) == 'staticmethod' for d in m.decorator_list)
          if any(ast.unparse(d) == 'property' for d in m.decorator_list):
            continue
          ps = params_of(m, not static)
          if ps is not None:
            add('.' + m.name, ps)
  for c in clash:
    sigs.pop(c, None)
  return sigs


def bind_call(call, sigs):
  """(callee key, params, {param: expr}, {param: 'pos'|'kw'}) for a call of one of the module's own callables, else None."""
  f = call.func
  if isinstance(f, ast.Name):
    key = f.id
  elif isinstance(f, ast.Attribute) and isinstance(f.value, ast.Name) and f.value.id in ('self', 'cls'):
    key = '.' + f.attr
  else:
    return None
  params = sigs.get(key)
  if params is None or any(isinstance(a, ast.Starred) for a in call.args) or any(k.arg is None for k in call.keywords) or len(call.args) > len(params):
    return None
  bound, how = {}, {}
  for p_, a in zip(params, call.args):
    bound[p_] = a
    how[p_] = 'pos'
  for k in call.keywords:
    if k.arg not in params or k.arg in bound:
      return None
    bound[k.arg] = k.value
    how[k.arg] = 'kw'
  return key, params, bound, how


def _load_calls():
  p = os.path.join(os.path.dirname(os.path.abspath(__file__)), 'canon_calls.json')
  try:
    with open(p) as f:
      return json.load(f)
  except (OSError, ValueError):
    return None


def call_spelling(tree, modname):
  """Arguments of calls to the module's own functions are written the way the reference tree writes them (positionally or by
  keyword, per callee and parameter), when that keeps the order in which the argument expressions are evaluated."""
  table = _load_calls()
  if table is None:
    return 0
  ref = table.get(modname) or {}
  sigs = callee_signatures(tree)
  count = 0
  # keyword arguments follow a renamed parameter: f(.., new_name=v) is written with the reference name of that position
  names_tbl = (_load_table() or {}).get(modname) or {}
  ref_params = {}
  for q, entries in names_tbl.items():
    ps = [nm for nm, fp in sorted(((nm, fp) for nm, fp in entries if fp.startswith('param:')), key=lambda x: int(x[1].split(':')[1]))]
    simple = q.rsplit('.', 1)[1]
    depth = q.count('.')
    for key in ((simple,) if depth == 1 else ('.' + simple,) if depth == 2 else ()):
      ref_params.setdefault(key, []).append(ps)
  renamed = {}
  for key, cur_ps in sigs.items():
    cands = ref_params.get(key) or []
    if len(cands) != 1:
      continue
    rp = cands[0]
    if key.startswith('.') and rp and rp[0] in ('self', 'cls'):
      rp = rp[1:]
    if len(rp) == len(cur_ps) and rp != cur_ps:
      renamed[key] = dict(zip(cur_ps, rp))
      sigs[key] = rp
  if renamed:
    for n in ast.walk(tree):
      if isinstance(n, ast.Call):
        f_ = n.func
        key = f_.id if isinstance(f_, ast.Name) else ('.' + f_.attr if isinstance(f_, ast.Attribute) and isinstance(f_.value, ast.Name) and f_.value.id in ('self', 'cls') else None)
        mp = renamed.get(key)
        if mp:
          for k in n.keywords:
            if k.arg in mp:
              k.arg = mp[k.arg]
              count += 1
  for n in ast.walk(tree):
    if not isinstance(n, ast.Call):
      continue
    b = bind_call(n, sigs)
    if b is None:
      continue
    key, params, bound, how = b
    want = ref.get(key)
    if not want:
      continue
    target = {p_: want.get(p_, how[p_]) for p_ in bound}
    # positional arguments must be a gap-free prefix of the parameter list
    cut = 0
    for i, p_ in enumerate(params):
      if p_ in bound and target[p_] == 'pos' and all(q in bound for q in params[:i]):
        cut = i + 1
    new_args = [bound[p_] for p_ in params[:cut]]
    rest = [p_ for p_ in params[cut:] if p_ in bound]
    # keywords keep their written order
    written = [k.arg for k in n.keywords if k.arg in rest] + [p_ for p_ in rest if how[p_] == 'pos']
    new_kw = [ast.keyword(arg=p_, value=bound[p_]) for p_ in written]
    old_order = [id(a) for a in n.args] + [id(k.value) for k in n.keywords]
    new_order = [id(a) for a in new_args] + [id(k.value) for k in new_kw]
    if new_order == old_order and len(new_args) == len(n.args):
      continue
    if new_order != old_order and not all(_pure(bound[p_]) or isinstance(bound[p_], (ast.Name, ast.Constant)) for p_ in bound):
      continue
    n.args, n.keywords = new_args, new_kw
    count += 1
  return count


def restore_closure_names(tree, modname, table=None):
  """A closure of a reference function that is missing, while a new closure of that function has (mutually best) similar
  local bindings, was renamed: it gets its reference name back, with every reference to it inside the function."""
  table = table if table is not None else _load_table()
  ref_mod = table.get(modname)
  if not ref_mod:
    return 0
  import difflib
  from .canon import _functions, bindings
  done = 0
  for q, F in _functions(tree, modname):
    if q not in ref_mod:
      continue
    ref_nested = {k.rsplit('.', 1)[1]: v for k, v in ref_mod.items() if k.rsplit('.', 1)[0] == q}
    if not ref_nested:
      continue
    cur = {n.name: n for n in _own_walk(F) if isinstance(n, ast.FunctionDef)}
    missing = [m for m in ref_nested if m not in cur]
    new = [n for n in cur if n not in ref_nested]
    if not missing or not new:
      continue

    def fps(seq):
      return [fp for _n, fp in seq if not fp.startswith('param:')]
    score = {}
    for m in missing:
      rb = fps(ref_nested[m])
      for n in new:
        gb = fps(bindings(cur[n]))
        if rb or gb:
          # the same bindings, in whatever order they are written
          jac = len(set(rb) & set(gb)) / float(len(set(rb) | set(gb)))
          score[(m, n)] = max(jac, difflib.SequenceMatcher(None, rb, gb, autojunk=False).ratio())
    for m in missing:
      cands = sorted(((sc, n) for (mm, n), sc in score.items() if mm == m), reverse=True)
      if not cands or cands[0][0] < 0.5 or (len(cands) > 1 and cands[1][0] >= cands[0][0]):
        continue
      sc, n = cands[0]
      if any(sc2 > sc for (m2, n2), sc2 in score.items() if n2 == n and m2 != m):
        continue
      if any(isinstance(x, ast.Name) and x.id == m for x in ast.walk(F)):
        continue
      for x in ast.walk(F):
        if isinstance(x, ast.Name) and x.id == n:
          x.id = m
      cur[n].name = m
      done += 1
  return done


def fuse_accumulators(tree, modname, table=None):
  """A list that is only built to be added to another one
       S = [a, b]; ...S.append(x)...; L += S        (L untouched in between, S not used otherwise)
  is read as the direct form  L.append(a); L.append(b); ...L.append(x)...   (what ends up in L, and in which order, is the same)."""
  table = table if table is not None else _load_table()
  ref_mod = table.get(modname)
  if not ref_mod:
    return 0
  from .canon import _functions
  count = 0
  for q, fn in _functions(tree, modname):
    ref = ref_mod.get(q)
    if ref is None:
      continue
    refnames = {n for n, _ in ref}
    changed = True
    while changed:
      changed = False
      for _fn, body in _scoped_bodies(fn):
        if _fn is not None and _fn is not fn:
          continue
        for i, st in enumerate(body):
          if not (isinstance(st, ast.Assign) and len(st.targets) == 1 and isinstance(st.targets[0], ast.Name) and isinstance(st.value, ast.List)
                  and not any(isinstance(e, ast.Starred) for e in st.value.elts)):
            continue
          S = st.targets[0].id
          if S in refnames and not S.startswith('__t_'):
            continue
          # the consumption
          j = None
          for k in range(i + 1, len(body)):
            x = body[k]
            if isinstance(x, ast.AugAssign) and isinstance(x.op, ast.Add) and isinstance(x.target, ast.Name) and isinstance(x.value, ast.Name) and x.value.id == S:
              j, L = k, x.target.id
              break
            if isinstance(x, ast.Expr) and isinstance(x.value, ast.Call) and isinstance(x.value.func, ast.Attribute) and x.value.func.attr == 'extend' \
                and isinstance(x.value.func.value, ast.Name) and len(x.value.args) == 1 and isinstance(x.value.args[0], ast.Name) and x.value.args[0].id == S:
              j, L = k, x.value.func.value.id
              break
          if j is None or L == S:
            continue
          region = body[i + 1:j]
          occ_all = [n for n in _own_walk(fn) if isinstance(n, ast.Name) and n.id == S]
          occ_region = [n for x in region for n in ast.walk(x) if isinstance(n, ast.Name) and n.id == S]
          if len(occ_all) != len(occ_region) + 2:
            continue
          if any(isinstance(n, ast.Name) and n.id == S for sc in _nested_scopes(fn) for n in ast.walk(sc)):
            continue
          if any(isinstance(n, ast.Name) and n.id == L for x in region for n in ast.walk(x)):
            continue
          # S is only appended to / extended in the region
          uses = []
          okr = True

          def scan(stmts, depth):
            nonlocal okr
            for x in stmts:
              if isinstance(x, (ast.Return,)) or (isinstance(x, (ast.Break, ast.Continue)) and depth == 0):
                okr = False
              if isinstance(x, FN + (ast.ClassDef,)):
                continue
              if isinstance(x, ast.Expr) and isinstance(x.value, ast.Call) and isinstance(x.value.func, ast.Attribute) and isinstance(x.value.func.value, ast.Name) \
                  and x.value.func.value.id == S and x.value.func.attr in ('append', 'extend') \
                  and not any(isinstance(n, ast.Name) and n.id == S for a in x.value.args for n in ast.walk(a)):
                uses.append(x.value.func.value)
                continue
              if isinstance(x, ast.AugAssign) and isinstance(x.op, ast.Add) and isinstance(x.target, ast.Name) and x.target.id == S \
                  and not any(isinstance(n, ast.Name) and n.id == S for n in ast.walk(x.value)):
                uses.append(x.target)
                continue
              d2 = depth + 1 if isinstance(x, (ast.For, ast.While)) else depth
              for fld in ('body', 'orelse', 'finalbody'):
                sub = getattr(x, fld, None)
                if isinstance(sub, list):
                  scan(sub, d2)
              for h in getattr(x, 'handlers', []) or []:
                scan(h.body, d2)
          scan(region, 0)
          if not okr or len(uses) != len(occ_region):
            continue
          for n in uses:
            n.id = L
          heads = [ast.Expr(value=ast.Call(func=ast.Attribute(value=ast.Name(id=L, ctx=ast.Load()), attr='append', ctx=ast.Load()), args=[e], keywords=[]))
                   for e in st.value.elts]
          for h in heads:
            ast.copy_location(h, st)
          body[j:j + 1] = []
          body[i:i + 1] = heads
          if not body:
            body.append(ast.Pass())
          ast.fix_missing_locations(fn)
          count += 1
          changed = True
          break
        if changed:
          break
  return count


def class_attrs(tree):
  """Class name -> sorted attribute names stored through the first parameter of its methods (self.X = ..., self.X: T = ...)."""
  out = {}
  for st in tree.body:
    if isinstance(st, ast.ClassDef):
      names = set()
      for m in st.body:
        if isinstance(m, ast.FunctionDef) and m.args.args:
          selfn = m.args.args[0].arg
          for n in ast.walk(m):
            if isinstance(n, ast.Attribute) and isinstance(n.ctx, ast.Store) and isinstance(n.value, ast.Name) and n.value.id == selfn:
              names.add(n.attr)
      if names:
        out[st.name] = sorted(names)
  return out


def restore_attribute_names(tree, modname):
  """A class that stores exactly one attribute the reference class does not have, and lacks exactly one the reference class
  stores, renamed it: the attribute gets its reference name back everywhere in the module (the new name must not be used by
  the reference tree for anything else)."""
  p = os.path.join(os.path.dirname(os.path.abspath(__file__)), 'canon_attrs.json')
  try:
    with open(p) as f:
      allref = json.load(f)
      ref = allref.get(modname) or {}
  except (OSError, ValueError):
    return 0
  vocab = set(allref.get('__all__') or (_load_vocab() or set()))     # attribute names the reference tree uses
  count = 0
  for _round in range(16):
    cur = class_attrs(tree)
    done = False
    for cname, rattrs in sorted(ref.items()):
      cattrs = cur.get(cname)
      if not cattrs:
        continue
      missing = sorted(set(rattrs) - set(cattrs))
      new = sorted(set(cattrs) - set(rattrs))
      if len(missing) != 1 or len(new) != 1 or new[0] in vocab:
        continue
      old_name, new_name = missing[0], new[0]
      if any(isinstance(n, ast.Attribute) and n.attr == old_name for n in ast.walk(tree)):
        continue
      for n in ast.walk(tree):
        if isinstance(n, ast.Attribute) and n.attr == new_name:
          n.attr = old_name
        elif isinstance(n, ast.Constant) and n.value == new_name:
          n.value = old_name      # getattr(self, 'name') / hasattr / __slots__
      count += 1
      done = True
      break       # one at a time: a rename shared by two classes changes what the other class is missing
    if not done:
      break
  return count


_PKG_METHODS = {}      # package-wide: new method name -> (self name, params, expression); set by scan_package_methods


def _expression_body(fn):
  """(params, expression) when `fn` only names a pure expression (straight-line pure temporaries and a return), else None."""
  a = fn.args
  if a.vararg or a.kwarg or a.kwonlyargs or a.posonlyargs or a.defaults:
    return None
  body = list(fn.body)
  if body and isinstance(body[0], ast.Expr) and isinstance(body[0].value, ast.Constant) and isinstance(body[0].value.value, str):
    body = body[1:]
  if not body or not isinstance(body[-1], ast.Return) or body[-1].value is None or not _pure(body[-1].value):
    return None
  temps = {}
  for st in body[:-1]:
    if isinstance(st, ast.Assign) and len(st.targets) == 1 and isinstance(st.targets[0], ast.Name) and st.targets[0].id not in temps and _pure(st.value):
      temps[st.targets[0].id] = st.value
    else:
      return None
  params = [x.arg for x in a.args]
  if set(params) & set(temps):
    return None
  expr = copy.deepcopy(body[-1].value)
  for t in reversed(list(temps)):
    expr = _Subst({t: temps[t]}, {}).visit(expr)
  if any(isinstance(x, ast.Name) and x.id in temps for x in ast.walk(expr)):
    return None
  return params, expr


def scan_package_methods(trees):
  """Methods, anywhere in the package, that the reference tree does not have under any name use (`statement.binds_directly()`),
  are defined exactly once, take only `self`-like receivers and name a pure expression of their parameters: calls of them
  through a plain name are substituted in every module."""
  global _PKG_METHODS
  _PKG_METHODS = {}
  vocab = _load_vocab()
  if vocab is None:
    return
  seen = {}
  for tree in trees:
    for cls in tree.body:
      if isinstance(cls, ast.ClassDef):
        for m in cls.body:
          if isinstance(m, ast.FunctionDef):
            seen.setdefault(m.name, []).append(m)
    for n in ast.walk(tree):
      if isinstance(n, ast.FunctionDef) and not any(n in c.body for c in tree.body if isinstance(c, ast.ClassDef)):
        seen.setdefault(n.name, []).append(None)
  for name, defs in seen.items():
    if name in vocab or len(defs) != 1 or defs[0] is None or name.startswith('__'):
      continue
    m = defs[0]
    decs_ = [ast.unparse(d) for d in m.decorator_list]
    if decs_ not in ([], ['property']) or not m.args.args:
      continue
    eb = _expression_body(m)
    if eb is None:
      continue
    params, expr = eb
    free = {x.id for x in ast.walk(expr) if isinstance(x, ast.Name)} - set(params)
    comp_bound = {x.id for c in ast.walk(expr) if isinstance(c, ast.comprehension) for x in ast.walk(c.target) if isinstance(x, ast.Name)}
    if (free - comp_bound) - {'bool', 'len', 'str', 'int', 'tuple', 'list', 'isinstance', 'any', 'all', 'sorted', 'min', 'max'}:
      continue      # it reads module names: only meaningful in its own module
    if decs_ == ['property'] and len(params) != 1:
      continue
    _PKG_METHODS[name] = (params[0], params[1:], expr, decs_ == ['property'])


def inline_package_methods(tree, modname):
  if not _PKG_METHODS:
    return 0
  parents = {}
  for n in ast.walk(tree):
    for c in ast.iter_child_nodes(n):
      parents[id(c)] = n
  count = 0
  for n in list(ast.walk(tree)):
    if isinstance(n, ast.Attribute) and isinstance(n.ctx, ast.Load) and n.attr in _PKG_METHODS and _PKG_METHODS[n.attr][3] \
        and isinstance(n.value, ast.Name) and not (isinstance(parents.get(id(n)), ast.Call) and parents[id(n)].func is n):
      # a new read-only property of a class of the package
      selfn, _ps, expr, _isprop = _PKG_METHODS[n.attr]
      rep = _Subst({selfn: n.value}, {}).visit(copy.deepcopy(expr))
      ast.copy_location(rep, n)
      par = parents.get(id(n))
      if par is not None:
        for fld, v in ast.iter_fields(par):
          if v is n:
            setattr(par, fld, rep)
          elif isinstance(v, list):
            for j, x in enumerate(v):
              if x is n:
                v[j] = rep
        count += 1
      continue
    if isinstance(n, ast.Call) and isinstance(n.func, ast.Attribute) and n.func.attr in _PKG_METHODS and not _PKG_METHODS[n.func.attr][3] \
        and isinstance(n.func.value, ast.Name) \
        and not n.keywords and not any(isinstance(a, ast.Starred) for a in n.args):
      selfn, params, expr, _isprop = _PKG_METHODS[n.func.attr]
      if len(n.args) != len(params) or not all(isinstance(a, (ast.Name, ast.Constant, ast.Attribute)) for a in n.args):
        continue
      m = {selfn: n.func.value}
      m.update(dict(zip(params, n.args)))
      rep = _Subst(m, {}).visit(copy.deepcopy(expr))
      ast.copy_location(rep, n)
      par = parents.get(id(n))
      if par is None:
        continue
      for fld, v in ast.iter_fields(par):
        if v is n:
          setattr(par, fld, rep)
        elif isinstance(v, list):
          for j, x in enumerate(v):
            if x is n:
              v[j] = rep
      count += 1
  if count:
    ast.fix_missing_locations(tree)
  return count


def inline_closure_factories(tree, modname, table=None):
  """A new module-level function that only builds and returns a closure
       def make_g(a, b):  def g(...): ...a...b...;  return g
  is undone at its call sites `make_g(x, y)` (x, y plain names bound once in the caller): the closure is defined there, over
  the caller's own variables, as it is on the reference tree."""
  table = table if table is not None else _load_table()
  ref_mod = table.get(modname)
  if not ref_mod:
    return 0
  from .canon import _functions
  count = 0
  for _round in range(4):
    done = False
    for F in [st for st in tree.body if isinstance(st, ast.FunctionDef)]:
      if '%s.%s' % (modname, F.name) in ref_mod or F.decorator_list:
        continue
      a = F.args
      if a.vararg or a.kwarg or a.kwonlyargs or a.posonlyargs or a.defaults:
        continue
      body = list(F.body)
      if body and isinstance(body[0], ast.Expr) and isinstance(body[0].value, ast.Constant) and isinstance(body[0].value.value, str):
        body = body[1:]
      if not (len(body) == 2 and isinstance(body[0], ast.FunctionDef) and isinstance(body[1], ast.Return)
              and isinstance(body[1].value, ast.Name) and body[1].value.id == body[0].name):
        continue
      g = body[0]
      params = [x.arg for x in a.args]
      gl = {x.id for x in ast.walk(g) if isinstance(x, ast.Name) and isinstance(x.ctx, ast.Store)} | {x.arg for x in ast.walk(g.args) if isinstance(x, ast.arg)}
      if set(params) & gl:
        continue
      parents = {}
      for n in ast.walk(tree):
        for c in ast.iter_child_nodes(n):
          parents[id(c)] = n
      refs = [n for n in ast.walk(tree) if isinstance(n, ast.Name) and n.id == F.name and isinstance(n.ctx, ast.Load)]
      if not refs:
        continue
      plans = []
      for r in refs:
        call = parents.get(id(r))
        if not (isinstance(call, ast.Call) and call.func is r and not call.keywords and len(call.args) == len(params)
                and all(isinstance(x, ast.Name) for x in call.args)):
          plans = None
          break
        # the statement and function holding the call
        st, H = call, None
        while id(st) in parents and not isinstance(st, ast.stmt):
          st = parents[id(st)]
        cur = st
        while id(cur) in parents:
          cur = parents[id(cur)]
          if isinstance(cur, (ast.FunctionDef, ast.AsyncFunctionDef)):
            H = cur
            break
        if H is None or H is F:
          plans = None
          break
        hp = {x.arg for x in ast.walk(H.args) if isinstance(x, ast.arg)}
        for x in call.args:
          stores = sum(1 for n in _own_walk(H) if isinstance(n, ast.Name) and n.id == x.id and isinstance(n.ctx, (ast.Store, ast.Del)))
          if not ((x.id in hp and stores == 0) or (x.id not in hp and stores == 1)):
            # re-bound in the caller: allowed only when every binding precedes the call lexically at the top level of H
            tops = [i for i, s_ in enumerate(H.body) if any(isinstance(n, ast.Name) and n.id == x.id and isinstance(n.ctx, (ast.Store, ast.Del)) for n in ast.walk(s_))]
            here = next((i for i, s_ in enumerate(H.body) if any(n is call for n in ast.walk(s_))), None)
            if here is None or any(i >= here for i in tops):
              plans = None
              break
        if plans is None:
          break
        if any(isinstance(n, ast.Name) and n.id == g.name for n in _own_walk(H)) or any(isinstance(n, ast.FunctionDef) and n.name == g.name for n in _own_walk(H)):
          plans = None
          break
        holder = parents.get(id(st))
        plans.append((call, st, holder, H))
      if not plans:
        continue
      for call, st, holder, H in plans:
        newg = copy.deepcopy(g)
        m = {p_: x for p_, x in zip(params, call.args) if p_ != x.id}
        if m:
          class R(ast.NodeTransformer):
            def visit_Name(self, n):
              if n.id in m and isinstance(n.ctx, ast.Load):
                return ast.copy_location(ast.Name(id=m[n.id].id, ctx=ast.Load()), n)
              return n
          newg = R().visit(newg)
        ast.copy_location(newg, st)
        for fld in ('body', 'orelse', 'finalbody'):
          lst = getattr(holder, fld, None)
          if isinstance(lst, list) and st in lst:
            lst.insert(lst.index(st), newg)
            break
        par = parents.get(id(call))
        rep = ast.copy_location(ast.Name(id=g.name, ctx=ast.Load()), call)
        for fld, v in ast.iter_fields(par):
          if v is call:
            setattr(par, fld, rep)
          elif isinstance(v, list):
            for j, x in enumerate(v):
              if x is call:
                v[j] = rep
      tree.body.remove(F)
      ast.fix_missing_locations(tree)
      count += 1
      done = True
      break
    if not done:
      break
  return count


def lifted_candidates(tree, modname, table=None):
  """Names of new module-level functions that look like a reference closure that is missing now."""
  table = table if table is not None else _load_table()
  ref_mod = table.get(modname)
  if not ref_mod:
    return set()
  import difflib
  from .canon import bindings, _functions
  cur = {q for q, _f in _functions(tree, modname)}
  missing = [q for q in ref_mod if q not in cur and q.rsplit('.', 1)[0] in ref_mod]
  out = set()
  if not missing:
    return out
  for st in tree.body:
    if isinstance(st, ast.FunctionDef) and '%s.%s' % (modname, st.name) not in ref_mod:
      gb = [fp for _n, fp in bindings(st) if not fp.startswith('param:')]
      for q in missing:
        rb = [fp for _n, fp in ref_mod[q] if not fp.startswith('param:')]
        if (rb or gb) and difflib.SequenceMatcher(None, rb, gb, autojunk=False).ratio() >= 0.5:
          out.add(st.name)
  return out


def match_reference_shape(tree, modname, table=None):
  """`x = A if c else B`  <->  `if c: x = A / else: x = B`, whichever of the two the reference tree uses for x."""
  table = table if table is not None else _load_table()
  ref_mod = table.get(modname)
  if not ref_mod:
    return 0
  from .canon import _functions
  n = 0
  for q, fn in _functions(tree, modname):
    ref = ref_mod.get(q)
    if ref is None:
      continue
    shape = {}
    for name, fp in ref:
      if fp.startswith('assign:'):
        try:
          e = ast.parse(fp[len('assign:'):], mode='eval').body
        except SyntaxError:
          continue
        shape[name] = 'ifexp' if isinstance(e, ast.IfExp) else 'plain'
    ref_for_iters = {fp.split(':', 1)[1] for _nm, fp in ref if fp.startswith('for0:')}
    from .canon import _blank, bindings as _bindings
    local_names = {nm for nm, _fp in _bindings(fn)}
    for _fn, body in _scoped_bodies(fn):
      if _fn is not None and _fn is not fn:
        continue
      i = 0
      while i < len(body):
        st = body[i]
        # return any(C for x in X)  ->  for x in X: if C: return True / return False      when the reference loops over X
        if isinstance(st, ast.Return) and isinstance(st.value, ast.Call) and isinstance(st.value.func, ast.Name) and st.value.func.id in ('any', 'all') \
            and len(st.value.args) == 1 and isinstance(st.value.args[0], ast.GeneratorExp) and len(st.value.args[0].generators) == 1 \
            and not st.value.args[0].generators[0].ifs and isinstance(st.value.args[0].generators[0].target, ast.Name):
          ge = st.value.args[0]
          gen = ge.generators[0]
          if _blank(gen.iter, local_names) in ref_for_iters:
            is_any = st.value.func.id == 'any'
            test = ge.elt if is_any else ast.UnaryOp(op=ast.Not(), operand=ge.elt)
            loop = ast.For(target=ast.Name(id=gen.target.id, ctx=ast.Store()), iter=gen.iter,
                           body=[ast.If(test=test, body=[ast.Return(value=ast.Constant(value=is_any))], orelse=[])], orelse=[])
            tail = ast.Return(value=ast.Constant(value=not is_any))
            for x_ in (loop, tail):
              ast.copy_location(x_, st)
              ast.fix_missing_locations(x_)
            body[i:i + 1] = [loop, tail]
            n += 1
            i += 2
            continue
        if isinstance(st, ast.Assign) and len(st.targets) == 1 and isinstance(st.targets[0], ast.Name) and isinstance(st.value, ast.IfExp) \
            and shape.get(st.targets[0].id) == 'plain':
          v = st.value
          new = ast.If(test=v.test, body=[ast.Assign(targets=[copy.deepcopy(st.targets[0])], value=v.body)],
                       orelse=[ast.Assign(targets=[copy.deepcopy(st.targets[0])], value=v.orelse)])
          ast.copy_location(new, st)
          ast.fix_missing_locations(new)
          body[i] = new
          n += 1
        elif isinstance(st, ast.If) and len(st.body) == 1 and len(st.orelse) == 1 and all(
            isinstance(x, ast.Assign) and len(x.targets) == 1 and isinstance(x.targets[0], ast.Name) for x in (st.body[0], st.orelse[0])) \
            and st.body[0].targets[0].id == st.orelse[0].targets[0].id and shape.get(st.body[0].targets[0].id) == 'ifexp':
          new = ast.Assign(targets=[st.body[0].targets[0]], value=ast.IfExp(test=st.test, body=st.body[0].value, orelse=st.orelse[0].value))
          ast.copy_location(new, st)
          ast.fix_missing_locations(new)
          body[i] = new
          n += 1
        i += 1
  return n


def post_canon(tree, modname):
  """Second stage, run after the local names were mapped back to the reference names."""
  a = b = 0
  from .canon import canonicalise
  for _round in range(3):
    if _round:
      canonicalise(tree, modname)      # rewrites of the previous round may have made more bindings line up with the reference
    # loop forms first: a binding that only differs by the loop form it sits in must get its reference name before temporaries are judged
    b0 = loop_forms(tree)
    if b0:
      canonicalise(tree, modname)
      b += b0
    a1 = inline_temps(tree, modname)
    a1 += fuse_accumulators(tree, modname)
    a1 += match_reference_shape(tree, modname)
    b1 = loop_forms(tree)
    b1 += idioms(tree) if (a1 or b1) else 0
    a += a1
    b += b1
    if not (a1 or b1):
      break
  ast.fix_missing_locations(tree)
  return a, b


def restore_property_getters(tree):
  """`name = property(operator.attrgetter('a', 'b'))` in a class body is the method
  `@property def name(self): return (self.a, self.b)` (one field: `return self.a`; dotted fields are attribute chains)."""
  n = 0
  for cls in ast.walk(tree):
    if not isinstance(cls, ast.ClassDef):
      continue
    for i, st in enumerate(cls.body):
      if not (isinstance(st, ast.Assign) and len(st.targets) == 1 and isinstance(st.targets[0], ast.Name)):
        continue
      v = st.value
      if not (isinstance(v, ast.Call) and isinstance(v.func, ast.Name) and v.func.id == 'property' and len(v.args) == 1 and not v.keywords):
        continue
      g = v.args[0]
      if not (isinstance(g, ast.Call) and ast.unparse(g.func) in ('operator.attrgetter', 'attrgetter') and g.args and not g.keywords
              and all(isinstance(a, ast.Constant) and isinstance(a.value, str) and all(p_.isidentifier() for p_ in a.value.split('.')) for a in g.args)):
        continue
      def chain(path):
        e = ast.Name(id='self', ctx=ast.Load())
        for p_ in path.split('.'):
          e = ast.Attribute(value=e, attr=p_, ctx=ast.Load())
        return e
      elts = [chain(a.value) for a in g.args]
      ret = ast.Return(value=elts[0] if len(elts) == 1 else ast.Tuple(elts=elts, ctx=ast.Load()))
      fn = ast.FunctionDef(name=st.targets[0].id,
                           args=ast.arguments(posonlyargs=[], args=[ast.arg(arg='self')], kwonlyargs=[], kw_defaults=[], defaults=[]),
                           body=[ret], decorator_list=[ast.Name(id='property', ctx=ast.Load())], returns=None, type_comment=None, type_params=[])
      for x in ast.walk(fn):
        ast.copy_location(x, st)
      cls.body[i] = fn
      n += 1
  return n


def normalize(tree, modname):
  """Returns (helpers_inlined, idioms_rewritten)."""
  global _NORETURN
  _NORETURN = _noreturn_names(tree)
  if os.environ.get('GINSA_NO_NORMALIZE'):
    # debugging switch: structural rewrites off; the spelling idioms stay on because some rules are written against them
    b = idioms(tree)
    ast.fix_missing_locations(tree)
    return 0, b
  a = restore_property_getters(tree)
  a += inline_module_constants(tree, modname)
  a += restore_attribute_names(tree, modname)
  a += call_spelling(tree, modname)
  a += restore_function_names(tree, modname)
  a += inline_context_helpers(tree, modname)
  a += collect_generators(tree, modname)
  a += inline_package_methods(tree, modname)
  a += inline_expression_helpers(tree, modname)
  a += inline_generators(tree, modname)
  a += inline_closure_factories(tree, modname)
  a += unlift(tree, modname)
  cands = lifted_candidates(tree, modname)
  if cands:
    # helpers around a lifted closure are inlined first, so that all uses of the closure are back in one function
    a += Inliner(tree, modname, skip=cands).run()
    a += unlift(tree, modname)
  a += Inliner(tree, modname).run()
  a += restore_closure_names(tree, modname)
  a += Inliner(tree, modname, nested=True).run()
  b = idioms(tree)
  if a:
    b += loop_forms(tree)
  ast.fix_missing_locations(tree)
  return a, b
