"""Scratch copies of /repo for the development tools.

No tool in this directory writes to /repo: a patch is applied to a detached
scratch worktree under the system temp directory and the checks are pointed at
it with `./check <ID> --repo <dir>`.  (The tools used to `git apply` into /repo
and `git checkout -- .` afterwards; a session that ended between the two left
a refactoring in /repo's working tree, which then became "the unchanged tree".)
"""
import contextlib, shutil, subprocess, tempfile


def sh(cmd, cwd=None, **kw):
  return subprocess.run(cmd, cwd=cwd, shell=isinstance(cmd, str), capture_output=True, text=True, **kw)


@contextlib.contextmanager
def scratch(patch=None, prefix='ginsa_scratch_'):
  """Yields (dir, applied): a detached worktree of /repo's HEAD with `patch` applied (applied False: it does not apply).
  /repo's working tree must be clean, so that HEAD is what the checks see there."""
  assert sh('git -C /repo status --porcelain --untracked-files=no').stdout.strip() == '', '/repo has uncommitted changes'
  wt = tempfile.mkdtemp(prefix=prefix)
  shutil.rmtree(wt)
  try:
    r = sh(['git', '-C', '/repo', 'worktree', 'add', '-q', '--detach', wt, 'HEAD'])
    assert r.returncode == 0, r.stderr
    applied = True
    if patch:
      applied = sh(['git', 'apply', patch], cwd=wt).returncode == 0
    yield wt, applied
  finally:
    sh(['git', '-C', '/repo', 'worktree', 'remove', '--force', wt])
    shutil.rmtree(wt, ignore_errors=True)
    sh(['git', '-C', '/repo', 'worktree', 'prune'])
