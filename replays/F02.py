from _common import *
calls = []
@gin.configurable
def g(): calls.append(1); return 7
@gin.configurable
def f(x=None): return x
gin.parse_config("f.x = @g()")
r = f(x=3)
done(bool(calls), "f(x=3) with `f.x = @g()`: g called %d time(s), f received %r" % (len(calls), r))
