"""C10 REQUIRED parameters are filled from the config or the call fails cleanly."""
import ast

from ..cfg import witness, describe_path
from ..core import AnalysisError, u, walk_local, enclosing_stmt
from ..lib import (construct, std_facts, def_of, facts_imply, calls_of_node,
                   in_subtree, terminates_in_raise, facts_at, format_sites)
from .wrapper import WrapperModel, REQ
from .common import allowed_stores, fresh_kwarg_defaults, signature_agreement


def run(ctx):
  prog = ctx.prog
  allowed_stores(ctx, 'C10.registration', {'config._get_validated_required_kwargs': set(), 'config._get_kwarg_defaults': set(),
                                          'config._order_by_signature': set()},
                 'which parameters are REQUIRED is a function of the signature and the lists given at this registration only')
  fresh_kwarg_defaults(ctx, 'C10.registration')
  signature_agreement(ctx, 'C10.registration')
  w = WrapperModel(ctx)
  f, g, facts = w.f, w.g, w.facts
  con = construct(f)
  fs_call = facts[w.call_node.id]

  # ---- C10.before-call
  raises = [n for n in g.live_nodes() if n.kind == 'raise_stmt' and n.ast.exc is not None and 'RuntimeError' in u(n.ast.exc)]
  missing = None
  for n in raises:
    conds = [fct for fct in facts[n.id] if fct[0] == 'c' and fct[2] is True and fct[1].isidentifier()]
    if conds:
      missing = conds[-1][1]
  # the list that the REQUIRED loops append to
  appended = {}
  for n in g.live_nodes():
    s = n.ast
    if n.kind == 'stmt' and isinstance(s, ast.Expr) and isinstance(s.value, ast.Call) and isinstance(s.value.func, ast.Attribute) \
        and s.value.func.attr == 'append':
      appended.setdefault(u(s.value.func.value), []).append(n)
  if missing is None or missing not in appended:
    # try: any list appended under `not in <bindings>` facts
    cand = [k for k, ns in appended.items() if any(any(fct[0] == 'c' and ' in ' in fct[1] and fct[2] is False for fct in facts[n.id]) for n in ns)]
    missing = cand[0] if cand else missing
  if missing is None:
    ctx.fail('C10.before-call', con, 'the wrapper no longer raises for unfilled REQUIRED parameters', f.loc(), instance='raise')
    return
  ok = ('c', missing, False) in fs_call
  ctx.check(ok, 'C10.before-call', con,
            'the wrapped call is reached only when the list of unfilled REQUIRED parameters (`%s`) is empty: otherwise the wrapper raises first' % missing,
            'the wrapped call is not dominated by `if %s: raise`: the function body can run with an unfilled REQUIRED parameter' % missing,
            w.loc(w.call_node), instance='raise')
  def under_missing_if(n):
    a = n.ast
    while getattr(a, 'parent', None) is not None and a is not f.node:
      a = a.parent
      if isinstance(a, ast.If) and u(a.test) == missing:
        return True
    return False
  rt = [n for n in raises if under_missing_if(n)]
  ctx.check(bool(rt), 'C10.before-call', con, 'the failure is a RuntimeError', 'the missing-parameter failure is no longer a RuntimeError', f.loc(), instance='type')

  # the configurable is named in that message by its shortest unambiguous selector (what the user has to write to bind it)
  from ..lib import format_sites as _fs, expand_expr as _ee
  named = False
  for n_ in rt:
    fs_ = facts[n_.id]
    ex = _ee(fs_, n_.ast.exc) if n_.ast.exc is not None else None
    for x_ in (ast.walk(ex) if ex is not None else []):
      if isinstance(x_, ast.Call) and u(x_.func) == '_REGISTRY.minimal_selector':
        named = True
    # ... or computed in the same `if <missing>:` block and used in the message
    blk = n_.ast
    while getattr(blk, 'parent', None) is not None and not (isinstance(blk, ast.If) and u(blk.test) == missing):
      blk = blk.parent
    if isinstance(blk, ast.If):
      ms_names = {u(a_.targets[0]) for a_ in walk_local(blk) if isinstance(a_, ast.Assign) and isinstance(a_.value, ast.Call)
                  and u(a_.value.func) == '_REGISTRY.minimal_selector'}
      used = {x_.id for st_ in blk.body for x_ in ast.walk(st_) if isinstance(x_, ast.Name) and isinstance(x_.ctx, ast.Load)}
      if ms_names & used:
        named = True
  ctx.check(named or not rt, 'C10.before-call', con, 'the error names the configurable by its minimal selector',
            'the missing-binding error no longer names the configurable through _REGISTRY.minimal_selector: the name printed may be ambiguous '
            '(two configurables sharing a bare name) and cannot be used to supply the binding', f.loc(rt[0].ast) if rt else f.loc(), instance='names-minimal')

  # ---- C10.vararg
  vg = []
  for n in g.live_nodes():
    if n.kind == 'raise_stmt' and n.loops:
      lp = n.loops[-1]
      if isinstance(lp, ast.For) and w.posnames and isinstance(lp.iter, ast.Subscript) and u(lp.iter.value) == w.A \
          and isinstance(lp.iter.slice, ast.Slice) and lp.iter.slice.upper is None and lp.iter.slice.step is None \
          and lp.iter.slice.lower is not None and u(lp.iter.slice.lower) == 'len(%s)' % w.posnames:
        if any(fct[0] == 'c' and fct[2] is True and fct[1] == '%s is %s' % (u(lp.target), REQ) for fct in facts[n.id]):
          vg.append((n, lp))
  ok = bool(vg)
  if ok:
    lpn = [x for x in g.live_nodes() if x.kind == 'for' and x.ast is vg[0][1]]
    ok = bool(lpn) and witness(g, g.entry.id, [w.call_node.id], avoid=[lpn[0].id]) is None
  if not ok:
    # equivalent form:  if any(v is REQUIRED for v in args[len(names):]): raise
    for n in g.live_nodes():
      if n.kind == 'raise_stmt':
        for fct in facts[n.id]:
          if fct[0] == 'c' and fct[2] is True and fct[1].startswith('any('):
            t = ast.parse(fct[1], mode='eval').body
            if isinstance(t, ast.Call) and t.args and isinstance(t.args[0], ast.GeneratorExp):
              ge = t.args[0]
              it = ge.generators[0].iter
              cond = isinstance(ge.elt, ast.Compare) and isinstance(ge.elt.ops[0], ast.Is) and u(ge.elt.comparators[0]) == REQ \
                  and u(ge.elt.left) == u(ge.generators[0].target)
              sl = isinstance(it, ast.Subscript) and u(it.value) == w.A and isinstance(it.slice, ast.Slice) and it.slice.upper is None \
                  and it.slice.lower is not None and w.posnames and u(it.slice.lower) == 'len(%s)' % w.posnames
              tests = [x for x in g.live_nodes() if x.kind == 'test' and
                       (u(x.ast) == fct[1] or (g.expanded.get(x.id) is not None and u(g.expanded[x.id]) == fct[1]))]
              if cond and sl and tests and witness(g, g.entry.id, [w.call_node.id], avoid=[tests[0].id]) is None:
                ok = True
  if not ok:
    # one loop over enumerate(args): raise where the value is the marker and the index is beyond the named positionals
    for n in g.live_nodes():
      if n.kind != 'raise_stmt':
        continue
      for lp in [l for l in n.loops if isinstance(l, ast.For)]:
        if not (isinstance(lp.iter, ast.Call) and u(lp.iter.func) == 'enumerate' and lp.iter.args and u(lp.iter.args[0]) == w.A
                and isinstance(lp.target, ast.Tuple) and len(lp.target.elts) == 2):
          continue
        k_, v_ = u(lp.target.elts[0]), u(lp.target.elts[1])
        fsn = facts[n.id]
        beyond = any(f_[0] == 'c' and ((f_[2] is True and f_[1].replace(' ', '') == '%s>=len(%s)' % (k_, w.posnames)) or
                                        (f_[2] is False and f_[1].replace(' ', '') == '%s<len(%s)' % (k_, w.posnames))) for f_ in fsn)
        lpn = [x for x in g.live_nodes() if x.kind == 'for' and x.ast is lp]
        if ('c', '%s is %s' % (v_, REQ), True) in fsn and beyond and lpn and witness(g, g.entry.id, [w.call_node.id], avoid=[lpn[0].id]) is None:
          # nothing but the two tests guards the raise
          extra = [f_ for f_ in fsn if f_[0] == 'c' and (k_ in f_[1] or v_ in f_[1]) and REQ not in f_[1] and 'len(' not in f_[1]]
          ok = not extra
  ctx.check(ok, 'C10.vararg', con, 'the marker among unnamed (variadic) positionals raises before anything else is done',
            'passing the REQUIRED marker for an unnamed variadic positional is no longer rejected', f.loc(), instance='vararg')

  # ---- C10.identity
  cmp_sites = 0
  bad = []
  for fn in ctx.ix.all_funcs(['config']):
    for n in walk_local(fn.node):
      if isinstance(n, ast.Compare):
        ops = [n.left] + list(n.comparators)
        for op, (a, b) in zip(n.ops, zip(ops, ops[1:])):
          if u(a) == REQ or u(b) == REQ:
            cmp_sites += 1
            if not isinstance(op, (ast.Is, ast.IsNot)):
              bad.append(fn.loc(n))
  ctx.expect_at_least('comparisons with the REQUIRED sentinel', cmp_sites, 3)
  ctx.check(not bad, 'C10.identity', 'gin/config.py::REQUIRED', 'all %d comparisons with the sentinel use identity (`is`)' % cmp_sites,
            'the sentinel is compared by equality / membership at %s: a user value that compares equal to anything (or whose __eq__ raises) '
            'is mistaken for the marker' % bad, bad[0] if bad else 'gin/config.py', sites=cmp_sites)

  # ---- C10.complete
  B = w.B
  Xn = u(w.dstar[0]) if w.dstar else B
  dcs = {t for _, t, _ in w.deepcopies}
  maps = {B, Xn} | dcs
  # (a) positional markers
  pos_ok = False
  detail = 'no loop over the REQUIRED positional indexes'
  for n in g.live_nodes():
    if n.kind == 'for' and w.required_positional_loop(n.ast):
      lp = n.ast
      body_nodes = [x for x in g.live_nodes() if x.ast is not None and in_subtree(x.ast, lp) and x.id != n.id]
      app = [x for x in body_nodes if x in appended.get(missing, [])]
      sub = [x for x in body_nodes if x.kind == 'stmt' and isinstance(x.ast, ast.Assign) and isinstance(x.ast.targets[0], ast.Subscript)
             and w.star and u(x.ast.targets[0].value) == u(w.star[0])]
      tgt = [u(e) for e in (lp.target.elts if isinstance(lp.target, ast.Tuple) else [lp.target])]
      a_ok = any(any(fct[0] == 'c' and fct[2] is False and fct[1].split(' in ')[0] in tgt and fct[1].split(' in ')[-1] in maps
                     for fct in facts[x.id]) for x in app)
      s_ok = any(any(fct[0] == 'c' and fct[2] is True and fct[1].split(' in ')[0] in tgt and fct[1].split(' in ')[-1] in maps
                     for fct in facts[x.id]) for x in sub)
      # no path through the body that neither substitutes nor reports
      through = witness(g, [b for b, k in g.succ[n.id] if k == 'loop'][0], [n.id], avoid=[x.id for x in app + sub]) if app and sub else True
      first = [b for b, k in g.succ[n.id] if k == 'loop'][0]
      if first in [x.id for x in app + sub]:
        through = None
      pos_ok = a_ok and s_ok and through is None
      detail = 'bound branch substitutes: %s, unbound branch reports: %s, fall-through: %s' % (s_ok, a_ok, through is not None)
  ctx.check(pos_ok, 'C10.complete', con,
            'a positional marker is either replaced by the bound value (in its own position) or reported missing; no branch leaves it in place',
            'a positional REQUIRED marker can stay in the arguments (%s)' % detail, f.loc(), instance='positional')
  # (b) keyword markers
  kw_ok = False
  detail = 'no loop over the REQUIRED keywords'
  for n in g.live_nodes():
    if n.kind == 'for' and w.req_kw and u(n.ast.iter) == w.req_kw:
      lp = n.ast
      var = u(lp.target)
      body_nodes = [x for x in g.live_nodes() if x.ast is not None and in_subtree(x.ast, lp) and x.id != n.id]
      app = [x for x in body_nodes if x in appended.get(missing, [])]
      pops = [x for x in body_nodes if any(isinstance(c.func, ast.Attribute) and c.func.attr == 'pop' and u(c.func.value) == w.K
                                           and c.args and u(c.args[0]) == var for c in calls_of_node(x))] + \
             [x for x in body_nodes if x.kind == 'stmt' and isinstance(x.ast, ast.Delete) and u(x.ast.targets[0]) == '%s[%s]' % (w.K, var)]
      a_ok = any(('c', '%s in %s' % (var, m), False) in facts[x.id] for x in app for m in maps)
      p_ok = any(('c', '%s in %s' % (var, m), True) in facts[x.id] for x in pops for m in maps)
      first = [b for b, k in g.succ[n.id] if k == 'loop'][0]
      ids = [x.id for x in app + pops]
      through = None if first in ids else (witness(g, first, [n.id], avoid=ids) if ids else True)
      kw_ok = a_ok and p_ok and through is None
      detail = 'bound branch removes the marker from **%s: %s, unbound branch reports: %s, fall-through: %s' % (w.K, p_ok, a_ok, through is not None)
  ctx.check(kw_ok, 'C10.complete', con,
            'a keyword marker is either removed from the caller\'s keywords (so the bound value is used) or reported missing',
            'a keyword REQUIRED marker can reach the function through the final merge of the caller\'s keywords (%s)' % detail,
            f.loc(), instance='keyword')
  # (c) signature-default markers
  sig_var = None
  for st in walk_local(w.factory.node):
    if isinstance(st, ast.Assign) and isinstance(st.value, ast.Call) and \
        prog.resolve_call(w.factory, st.value) == 'config._get_validated_required_kwargs':
      sig_var = u(st.targets[0])
  sig_ok = False
  detail = 'no loop over the signature-level REQUIRED parameters'
  if sig_var:
    for n in g.live_nodes():
      if n.kind == 'for' and u(n.ast.iter) == sig_var:
        var = u(n.ast.target)
        app = [x for x in appended.get(missing, []) if in_subtree(x.ast, n.ast)]

        def atom(e):
          if isinstance(e, ast.Compare) and len(e.ops) == 1 and isinstance(e.ops[0], ast.In) and u(e.left) == var:
            r = u(e.comparators[0])
            if r == w.posnames:
              return 'pos'
            if r == w.K:
              return 'kw'
            if r in maps:
              return 'bound'
          return None
        if app:
          m1 = facts_imply(facts[app[0].id], [('reported only when unfilled', 'not pos and not kw and not bound')], atom)
          tests = [t for t in g.live_nodes() if t.kind == 'test' and in_subtree(t.ast, n.ast)]
          m2 = []
          for t in tests:
            if any(b == app[0].id for b, k in g.succ[t.id] if k == 'T'):
              m2 = True
              for tx in (t.ast, g.expanded.get(t.id), g.expanded_bool.get(t.id)):
                if tx is not None and m2:
                  m2 = facts_imply({('c', u(tx), False)}, [('every unfilled marker reported', 'pos or kw or bound')], atom)
          sig_ok = not m1 and not m2
          detail = 'counter-example %s' % ((m1 or m2)[0][1] if (m1 or m2) else '')
  ctx.check(sig_ok, 'C10.complete', con,
            'a signature-default marker is reported missing exactly when the name is in neither the positionals, the keywords nor the bindings',
            'the signature-level REQUIRED test is not `not positional and not keyword and not bound` (%s)' % detail, f.loc(), instance='signature')

  # ---- C10.order
  okord = False
  for n in rt:
    d = def_of(facts[n.id], missing)
    if d and d.startswith('_order_by_signature('):
      okord = True
  fmt_uses = [c for n in g.live_nodes() if n.ast is not None and n.kind in ('stmt', 'raise_stmt', 'return') for c, _t, ops in format_sites(n.ast)
              if any(u(a) == missing for a in ops)]
  for c in fmt_uses:
    st = enclosing_stmt(c)
    fs = facts_at(g, facts, st) or frozenset()
    d = def_of(fs, missing)
    okord = d is not None and d.startswith('_order_by_signature(')
  ctx.check(okord, 'C10.order', con, 'the missing names are ordered by _order_by_signature before they are formatted into the error',
            'the missing names are reported without being put into signature order', f.loc(), instance='order')
  ob = ctx.func('config._order_by_signature')
  try:
    got, problems = order_semantics(ob)
  except Uninterpreted as e:
    raise AnalysisError('_order_by_signature uses a form the ordering rule cannot interpret: %s' % e)
  want = [('A', frozenset({(1, 0, 1)})), ('K', frozenset({(0, 1, 1)})), ('G', frozenset({(0, 0, 1)}))]
  ctx.check(got == want and not problems, 'C10.order', construct(ob),
            'the helper returns the given names that are positional-or-keyword parameters in signature order, then the keyword-only ones in '
            'signature order, then the remaining given names in the order given',
            '_order_by_signature returns %s%s, not [given names among args, in signature order] + [given names among kwonlyargs, in signature order] + '
            '[other given names, as given]' % (show_order(got), ('; ' + '; '.join(problems)) if problems else ''), ob.loc(), instance='helper')

  # ---- C10.registration
  rv = ctx.func('config._get_validated_required_kwargs')
  g2, facts2 = std_facts(prog, rv)
  apps = [n for n in g2.live_nodes() if n.kind == 'stmt' and isinstance(n.ast, ast.Expr) and isinstance(n.ast.value, ast.Call)
          and isinstance(n.ast.value.func, ast.Attribute) and n.ast.value.func.attr == 'append']

  def atom2(e):
    t = u(e)
    if t == 'allowlist':
      return 'allow'
    if t == 'denylist':
      return 'deny'
    if isinstance(e, ast.Compare) and len(e.ops) == 1 and isinstance(e.ops[0], ast.In):
      if u(e.comparators[0]) == 'allowlist':
        return 'in_allow'
      if u(e.comparators[0]) == 'denylist':
        return 'in_deny'
    if isinstance(e, ast.Compare) and len(e.ops) == 1 and isinstance(e.ops[0], ast.Is) and u(e.comparators[0]) == REQ:
      return 'is_required'
    return None
  ok = bool(apps)
  miss = []
  reqs = [('denylisted', 'not deny or not in_deny'), ('not allowlisted', 'not allow or in_allow')]
  for n in apps:
    miss = facts_imply(facts2[n.id], reqs + [('not marked REQUIRED at all', 'is_required')], atom2)
    if miss:
      ok = False
  if not apps:
    # collect-then-validate form: R = [k for k, v in defaults.items() if v is REQUIRED]; for k in R: <raise if rejected>; return R
    from ..cfg import decompose
    rets_v = [n for n in g2.live_nodes() if n.kind == 'return' and isinstance(n.ast.value, ast.Name)]
    for r in rets_v:
      R = r.ast.value.id
      d = def_of(facts2[r.id], R)
      try:
        comp = ast.parse(d, mode='eval').body if d else None
      except SyntaxError:
        comp = None
      collected = isinstance(comp, ast.ListComp) and len(comp.generators) == 1 and len(comp.generators[0].ifs) == 1 \
          and atom2(comp.generators[0].ifs[0]) == 'is_required' and isinstance(comp.generators[0].target, ast.Tuple) \
          and u(comp.elt) == u(comp.generators[0].target.elts[0]) and u(comp.generators[0].iter).endswith('.items()')
      loops = [n for n in g2.live_nodes() if n.kind == 'for' and u(n.ast.iter) == R and not any(isinstance(x, (ast.Break, ast.Return)) for x in ast.walk(n.ast))]
      ok = collected and bool(loops)
      for lpn in loops:
        # every way of finishing one iteration normally establishes both acceptance conditions
        if witness(g2, g2.entry.id, [r.id], avoid=[lpn.id]) is not None:
          ok = False
        inside = [(a, k) for a, k in g2.pred[lpn.id] if g2.nodes[a].ast is not None and in_subtree(g2.nodes[a].ast, lpn.ast) and a != lpn.id]
        if not inside:
          ok = False
        for a, k in inside:
          pn = g2.nodes[a]
          fs = set(facts2[a])
          if pn.kind == 'test' and k in ('T', 'F'):
            for tx in (pn.ast, g2.expanded.get(a), g2.expanded_bool.get(a)):
              if tx is not None:
                fs |= {('c', t_, p_) for t_, p_ in decompose(tx, k == 'T')}
          miss = facts_imply(fs, reqs, atom2)
          if miss:
            ok = False
  ctx.check(ok, 'C10.registration', construct(rv),
            'a signature-level marker is collected only after the denylist / allowlist rejections',
            'a signature-level REQUIRED on a parameter that is %s is accepted at registration' %
            ('; '.join(l for l, _ in miss) if miss else 'denylisted or not allowlisted'), rv.loc(), instance='guards')
  called = [c for c in walk_local(w.factory.node) if isinstance(c, ast.Call) and prog.resolve_call(w.factory, c) == rv.qual]
  ctx.check(bool(called) and not any(in_subtree(c, f.node) for c in called), 'C10.registration', construct(w.factory),
            'the validation runs in the factory, i.e. at registration', 'signature-level REQUIRED markers are no longer validated at registration',
            w.factory.loc(), instance='at-registration')
  ctx.borrow('C01', 'C01.precedence', 'C10.vararg', instances={'positional-names'})     # a value beyond the named positionals belongs to *args
  ctx.borrow('C11', 'C11.signature', 'C10.registration')     # which signature / which names count as parameters


class Uninterpreted(Exception):
  pass


REGIONS = [(a, k, g_) for a in (0, 1) for k in (0, 1) for g_ in (0, 1) if not (a and k)]
ATOM = {'A': frozenset(r for r in REGIONS if r[0]), 'K': frozenset(r for r in REGIONS if r[1]), 'G': frozenset(r for r in REGIONS if r[2])}


def show_order(segs):
  if segs is None:
    return 'nothing'
  names = {(1, 0, 1): 'given&args', (0, 1, 1): 'given&kwonly', (0, 0, 1): 'given-only', (1, 0, 0): 'args-not-given', (0, 1, 0): 'kwonly-not-given',
           (0, 0, 0): 'neither'}
  return '[' + ' + '.join('%s in %s order' % ('|'.join(sorted(names[r] for r in rs)),
                                                 {'A': 'args', 'K': 'kwonly', 'G': 'given', '?': 'unspecified'}.get(o, o)) for o, rs in segs) + ']'


class _Seq:
  def __init__(self, segs, alias=False):
    self.segs = [(o, frozenset(r)) for o, r in segs if r]
    self.alias = alias

  def elements(self):
    out = frozenset()
    for _o, r in self.segs:
      out |= r
    return out


class _Pos:
  def __init__(self, seq):
    self.seq = seq


def order_semantics(fn):
  """Abstract evaluation of the ordering helper over the domain
  (order atom, Venn regions of {args, kwonlyargs, given names}) per segment.
  Returns (segments of the returned list, problems)."""
  params = fn.params
  if len(params) < 2:
    raise Uninterpreted('signature')
  env = {params[1]: _Seq([('G', ATOM['G'])], alias=True)}
  spec_names = set()
  problems = []
  result = []

  def elements(v):
    if isinstance(v, _Seq):
      return v.elements()
    if isinstance(v, _Pos):
      return v.seq.elements()
    if isinstance(v, frozenset):
      return v
    raise Uninterpreted('membership in a value of unknown kind')

  def ev(e):
    if isinstance(e, ast.Name):
      if e.id in env:
        return env[e.id]
      raise Uninterpreted('name %s' % e.id)
    if isinstance(e, ast.Attribute) and ((isinstance(e.value, ast.Name) and e.value.id in spec_names) or
                                         (isinstance(e.value, ast.Call) and u(e.value.func) == '_get_cached_arg_spec' and len(e.value.args) == 1
                                          and u(e.value.args[0]) == params[0])):
      if e.attr == 'args':
        return _Seq([('A', ATOM['A'])], alias=True)
      if e.attr == 'kwonlyargs':
        return _Seq([('K', ATOM['K'])], alias=True)
      raise Uninterpreted('arg spec field %s' % e.attr)
    if isinstance(e, ast.BoolOp) and isinstance(e.op, ast.Or) and len(e.values) == 2 and isinstance(e.values[1], (ast.Tuple, ast.List)) \
        and not e.values[1].elts:
      return ev(e.values[0])
    if isinstance(e, (ast.List, ast.Tuple)) and not e.elts:
      return _Seq([])
    if isinstance(e, (ast.List, ast.Tuple)) and all(isinstance(x, ast.Starred) for x in e.elts):
      # [*A, *B]: the concatenation
      segs = []
      for x in e.elts:
        v_ = ev(x.value)
        if not isinstance(v_, _Seq):
          raise Uninterpreted(u(e))
        segs += v_.segs
      return _Seq(segs)
    if isinstance(e, ast.BinOp) and isinstance(e.op, ast.Add):
      a, b = ev(e.left), ev(e.right)
      if isinstance(a, _Seq) and isinstance(b, _Seq):
        return _Seq(a.segs + b.segs)
      raise Uninterpreted(u(e))
    if isinstance(e, ast.Subscript) and isinstance(e.slice, ast.Slice) and e.slice.lower is None and e.slice.upper is None and e.slice.step is None:
      v = ev(e.value)
      return _Seq(v.segs) if isinstance(v, _Seq) else v
    if isinstance(e, ast.Call):
      fnm = u(e.func)
      if fnm in ('list', 'tuple') and len(e.args) == 1:
        v = ev(e.args[0])
        if isinstance(v, _Seq):
          return _Seq(v.segs)
        if isinstance(v, frozenset):
          return _Seq([('?', v)])
        raise Uninterpreted(u(e))
      if fnm in ('list', 'tuple') and not e.args:
        return _Seq([])
      if fnm in ('set', 'frozenset') and len(e.args) <= 1:
        return elements(ev(e.args[0])) if e.args else frozenset()
      if isinstance(e.func, ast.Attribute) and e.func.attr == 'copy' and not e.args:
        v = ev(e.func.value)
        return _Seq(v.segs) if isinstance(v, _Seq) else v
      if fnm in ('itertools.chain', 'chain') and e.args and not e.keywords:
        segs = []
        for a_ in e.args:
          v_ = ev(a_)
          if not isinstance(v_, _Seq):
            raise Uninterpreted(u(e))
          segs += v_.segs
        return _Seq(segs)
      if fnm == 'reversed' or (fnm == 'sorted' and any(k.arg == 'reverse' for k in e.keywords)):
        v = ev(e.args[0])
        return _Seq([('?', elements(v))])
      if fnm == 'sorted' and len(e.args) == 1:
        v = ev(e.args[0])
        key = next((k.value for k in e.keywords if k.arg == 'key'), None)
        if key is None:
          return _Seq([('?', elements(v))])     # alphabetical: not a signature order
        pm = None
        if isinstance(key, ast.Attribute) and key.attr in ('__getitem__', 'get', 'index') and isinstance(key.value, ast.Name):
          pm = ev(key.value)
        elif isinstance(key, ast.Lambda) and len(key.args.args) == 1:
          b = key.body
          x = key.args.args[0].arg
          if isinstance(b, ast.Subscript) and u(b.slice) == x:
            pm = ev(b.value)
          elif isinstance(b, ast.Call) and isinstance(b.func, ast.Attribute) and b.func.attr in ('index', 'get') and len(b.args) == 1 and u(b.args[0]) == x:
            pm = ev(b.func.value)
        if pm is None:
          raise Uninterpreted('sort key %s' % u(key))
        base = pm.seq if isinstance(pm, _Pos) else pm
        if not isinstance(base, _Seq):
          raise Uninterpreted('sort key %s' % u(key))
        els = elements(v)
        if not els <= base.elements():
          problems.append('`%s` looks up names that have no position' % u(e))
        return _Seq([(o, r & els) for o, r in base.segs])
      if _is_cached_spec(e):
        return 'SPEC'
      raise Uninterpreted(u(e))
    if isinstance(e, (ast.ListComp, ast.SetComp, ast.GeneratorExp)) and len(e.generators) == 1:
      gen = e.generators[0]
      if not (isinstance(gen.target, ast.Name) and isinstance(e.elt, ast.Name) and e.elt.id == gen.target.id):
        raise Uninterpreted(u(e))
      src = ev(gen.iter)
      keep = None
      for i in gen.ifs:
        keep = _filter(i, gen.target.id, keep)
      if isinstance(src, _Seq):
        out = _Seq([(o, r if keep is None else r & keep) for o, r in src.segs])
      else:
        els = elements(src)
        out = _Seq([('?', els if keep is None else els & keep)])
      return out.elements() if isinstance(e, ast.SetComp) else out
    if isinstance(e, ast.DictComp) and len(e.generators) == 1 and not e.generators[0].ifs:
      gen = e.generators[0]
      it = gen.iter
      if isinstance(it, ast.Call) and u(it.func) == 'enumerate' and len(it.args) == 1 and isinstance(gen.target, ast.Tuple) \
          and len(gen.target.elts) == 2 and u(e.key) == u(gen.target.elts[1]) and u(e.value) == u(gen.target.elts[0]):
        v = ev(it.args[0])
        if isinstance(v, _Seq):
          return _Pos(v)
      raise Uninterpreted(u(e))
    raise Uninterpreted(u(e))

  def _is_cached_spec(e):
    return isinstance(e, ast.Call) and isinstance(e.func, ast.Name) and e.func.id in ('_get_cached_arg_spec',) and len(e.args) == 1

  def _filter(test, var, keep):
    all_r = frozenset(REGIONS)
    keep = all_r if keep is None else keep
    if isinstance(test, ast.Compare) and len(test.ops) == 1 and isinstance(test.ops[0], (ast.In, ast.NotIn)) and u(test.left) == var:
      s_ = elements(ev(test.comparators[0]))
      return keep & s_ if isinstance(test.ops[0], ast.In) else keep - s_
    if isinstance(test, ast.BoolOp) and isinstance(test.op, ast.And):
      for v in test.values:
        keep = _filter(v, var, keep)
      return keep
    raise Uninterpreted('filter %s' % u(test))

  def extend(name, val, where):
    tgt = env.get(name)
    if not isinstance(tgt, _Seq) or not isinstance(val, _Seq):
      raise Uninterpreted('extend at line %d' % where.lineno)
    if tgt.alias:
      problems.append('line %d extends `%s`, which is the list held by the cached signature itself (or the caller\'s list): the cache is '
                      'corrupted for every later call' % (where.lineno, name))
    env[name] = _Seq(tgt.segs + val.segs, alias=tgt.alias)

  def run(stmts):
    for st in stmts:
      if isinstance(st, ast.Expr) and isinstance(st.value, ast.Constant):
        continue
      if isinstance(st, ast.Assign) and len(st.targets) == 1 and isinstance(st.targets[0], ast.Name):
        if _is_cached_spec(st.value):
          spec_names.add(st.targets[0].id)
          continue
        env[st.targets[0].id] = ev(st.value)
      elif isinstance(st, ast.AugAssign) and isinstance(st.target, ast.Name) and isinstance(st.op, ast.Add):
        extend(st.target.id, ev(st.value), st)
      elif isinstance(st, ast.Expr) and isinstance(st.value, ast.Call) and isinstance(st.value.func, ast.Attribute) \
          and st.value.func.attr == 'extend' and isinstance(st.value.func.value, ast.Name) and len(st.value.args) == 1:
        extend(st.value.func.value.id, ev(st.value.args[0]), st)
      elif isinstance(st, ast.If) and not st.orelse and isinstance(st.test, ast.Attribute) and st.test.attr == 'kwonlyargs':
        run(st.body)            # extending by an empty sequence is the identity
      elif isinstance(st, ast.For) and not st.orelse and isinstance(st.target, ast.Name):
        # for x in S: [if x (not) in T:] L.append(x)
        inner, keep = st.body[0] if len(st.body) == 1 else None, None
        while isinstance(inner, ast.If) and not inner.orelse and len(inner.body) == 1:
          keep = _filter(inner.test, st.target.id, keep)
          inner = inner.body[0]
        if not (isinstance(inner, ast.Expr) and isinstance(inner.value, ast.Call) and isinstance(inner.value.func, ast.Attribute)
                and inner.value.func.attr == 'append' and isinstance(inner.value.func.value, ast.Name) and len(inner.value.args) == 1
                and u(inner.value.args[0]) == st.target.id):
          raise Uninterpreted('loop at line %d' % st.lineno)
        src = ev(st.iter)
        if not isinstance(src, _Seq):
          raise Uninterpreted('loop at line %d iterates an unordered value' % st.lineno)
        extend(inner.value.func.value.id, _Seq([(o, r if keep is None else r & keep) for o, r in src.segs]), st)
      elif isinstance(st, ast.Return) and st.value is not None:
        v = ev(st.value)
        if not isinstance(v, _Seq):
          raise Uninterpreted('return value')
        result.append(v)
        return
      else:
        raise Uninterpreted('%s at line %d' % (type(st).__name__, st.lineno))
  run(fn.node.body)
  if not result:
    return None, problems
  # merge neighbouring segments that have the same order atom
  segs = []
  for o, r in result[0].segs:
    if segs and segs[-1][0] == o:
      segs[-1] = (o, segs[-1][1] | r)
    else:
      segs.append((o, r))
  # an element listed twice
  seen = frozenset()
  for o, r in segs:
    if seen & r:
      problems.append('some names are listed twice')
    seen |= r
  return segs, problems
