from _common import *
gin.finalize()
try:
  with gin.unlock_config():
    raise KeyError('boom')
except KeyError: pass
done(not gin.config_is_locked(), "lock state after a raising unlock_config block: locked=%s" % gin.config_is_locked())
