"""Rule pieces shared by several properties."""
import ast

from ..cfg import describe_path, witness
from ..core import AnalysisError, u, walk_local
from ..lib import (construct, copy_kind, std_facts, calls_of_node, stored_names, def_of,
                   at_least)
from ..core import enclosing_stmt

ENTER = 'config._ScopeManager.enter_scope'
EXIT = 'config._ScopeManager.exit_scope'


def nodes_calling(prog, f, g, qual):
  out = []
  for n in g.live_nodes():
    for c in calls_of_node(n):
      if prog.resolve_call(f, c) == qual:
        out.append(n)
        break
  return out


def scope_entry(ctx, rule):
  """C01.scope-entry / C09 first sentence: the three value paths to the push
  in config_scope (list => the list itself; non-empty str => copy of the
  current scope extended by split('/'); otherwise => [] with validity
  `in (None, '')`)."""
  prog = ctx.prog
  f = ctx.func('config.config_scope')
  con = construct(f)
  if not f.params:
    raise AnalysisError('config_scope has no parameter')
  p = f.params[0]
  g, facts = std_facts(prog, f)
  pushes = nodes_calling(prog, f, g, ENTER)
  if not pushes and ENTER not in ctx.ix.by_qual:
    raise AnalysisError('the scope stack push %s vanished: the push protocol changed, so the entry forms cannot be read off config_scope' % ENTER)
  if not pushes:
    ctx.fail(rule, con, 'config_scope no longer calls the scope stack push (%s)' % ENTER, f.loc())
    return
  paths = []
  for pn in pushes:
    paths.extend(g.paths(g.entry.id, [pn.id], max_visits=1))
  ctx.expect_at_least('paths from entry to the scope push in config_scope', len(paths), 3)
  seen_kinds = set()
  for path in paths:
    conds = {}
    value = None       # expression last assigned to the pushed variable
    muts = []
    push_node = g.nodes[path[-1][0]]
    push_call = [c for c in calls_of_node(push_node) if prog.resolve_call(f, c) == ENTER][0]
    if len(push_call.args) != 1 or push_call.keywords:
      raise AnalysisError('config_scope calls the scope push as `%s`: the push protocol (one argument: the complete new scope) changed, '
                          'so the three entry forms cannot be read off config_scope alone' % u(push_call))
    if not push_call.args or not isinstance(push_call.args[0], ast.Name):
      ctx.fail(rule, con, 'the scope push does not push a plain local list', f.loc(push_node.ast))
      return
    var = push_call.args[0].id
    valid_def = None
    for nid, ek in path[:-1]:
      n = g.nodes[nid]
      if n.kind == 'test' and ek in ('T', 'F'):
        conds[u(n.ast)] = (ek == 'T')
        from ..cfg import decompose
        for t, pol in decompose(n.ast, ek == 'T'):
          conds[t] = pol
      a = n.ast
      if n.kind == 'stmt' and isinstance(a, ast.Assign):
        for t in a.targets:
          if isinstance(t, ast.Name) and t.id == var:
            value = a.value
            muts = []
          if isinstance(t, ast.Name) and t.id.startswith('valid'):
            valid_def = a.value
      if n.kind == 'stmt' and isinstance(a, ast.Expr) and isinstance(a.value, ast.Call) \
          and isinstance(a.value.func, ast.Attribute) and u(a.value.func.value) == var:
        muts.append(a.value)
    is_list = conds.get('isinstance(%s, list)' % p) is True
    is_str = conds.get('isinstance(%s, str)' % p) is True
    where = f.loc(push_node.ast)
    desc = ['L%d %s' % (g.nodes[i].lineno, g.nodes[i].text()) for i, _ in path]
    if value is None:
      ctx.fail(rule, con, 'a path reaches the scope push without defining the new scope', where, path=desc)
      continue
    if is_list:
      seen_kinds.add('list')
      ok = (isinstance(value, ast.Name) and value.id == p and not muts) or \
           (copy_kind(value) == 'SHALLOW' and u(value) in ('list(%s)' % p, '%s[:]' % p, '%s.copy()' % p) and not muts)
      ctx.check(ok, rule, con,
                'list argument: the list itself becomes the active scope (replace)',
                'list argument: pushed scope is `%s`%s, not the given list -- an explicit list must replace the active scope'
                % (u(value), ' then ' + ', '.join(u(m) for m in muts) if muts else ''),
                where, instance='list', path=None if ok else desc)
    elif is_str and conds.get(p) is True:
      seen_kinds.add('str')
      base_ok = isinstance(value, ast.Call) and prog.resolve_call(f, value) in (
          'config.current_scope',) or (isinstance(value, ast.Attribute) and u(value) == '_SCOPE_MANAGER.current_scope')
      ext_ok = (len(muts) == 1 and isinstance(muts[0].func, ast.Attribute) and
                muts[0].func.attr == 'extend' and len(muts[0].args) == 1 and
                u(muts[0].args[0]) == "%s.split('/')" % p)
      # equivalent single-expression form: current_scope() + p.split('/')
      if isinstance(value, ast.BinOp) and isinstance(value.op, ast.Add) and not muts:
        l, r = value.left, value.right
        base_ok = isinstance(l, ast.Call) and prog.resolve_call(f, l) == 'config.current_scope'
        ext_ok = u(r) == "%s.split('/')" % p
      # ... or the display [*current_scope(), *p.split('/')]
      if isinstance(value, ast.List) and len(value.elts) == 2 and all(isinstance(e, ast.Starred) for e in value.elts) and not muts:
        l, r = value.elts[0].value, value.elts[1].value
        base_ok = isinstance(l, ast.Call) and prog.resolve_call(f, l) == 'config.current_scope'
        ext_ok = u(r) == "%s.split('/')" % p
      ctx.check(base_ok and ext_ok, rule, con,
                "non-empty str: active scope copy extended by split('/') (append)",
                "non-empty str: pushed scope is `%s`%s -- a name must append its '/'-components to a copy of the active scope"
                % (u(value), ''.join('; ' + u(m) for m in muts)),
                where, instance='str', path=None if (base_ok and ext_ok) else desc)
    else:
      seen_kinds.add('clear')
      empty = isinstance(value, ast.List) and not value.elts and not muts
      vok = False
      if valid_def is not None and isinstance(valid_def, ast.Compare) and len(valid_def.ops) == 1 \
          and isinstance(valid_def.ops[0], ast.In) and u(valid_def.left) == p \
          and isinstance(valid_def.comparators[0], (ast.Tuple, ast.List, ast.Set)):
        elts = {u(e) for e in valid_def.comparators[0].elts}
        vok = elts == {'None', "''"}
      ctx.check(empty and vok, rule, con,
                "other values: scope cleared ([]), valid only for None / ''",
                "other values: pushed scope `%s`, validity `%s` -- None/'' must clear the scope and anything else must be rejected"
                % (u(value), u(valid_def) if valid_def is not None else 'not computed'),
                where, instance='clear', path=None if (empty and vok) else desc)
  for k in ('list', 'str', 'clear'):
    if k not in seen_kinds:
      ctx.fail(rule, con, 'no path implements the %s form of scope entry' % k, f.loc(), instance=k)

  # the body (the yield) is reached only for a valid value whose every component matches the scope-name regex
  from ..lib import facts_imply, all_match_form
  pushed = {c.args[0].id for pn in pushes for c in calls_of_node(pn) if prog.resolve_call(f, c) == ENTER and c.args and isinstance(c.args[0], ast.Name)}

  def atom(e):
    if isinstance(e, ast.Name) and e.id.startswith('valid'):
      return 'valid'
    am = all_match_form(e)
    if am is not None:
      fn_, xs, positive = am
      if fn_.endswith('MODULE_RE.match') and u(xs) in pushed:
        return 'allmatch' if positive else ('allmatch', True)
    return None
  ys = [n for n in g.live_nodes() if n.ast is not None and n.kind == 'stmt' and any(isinstance(x, ast.Yield) for x in ast.walk(n.ast))]
  ok = bool(ys)
  for y in ys:
    if facts_imply(facts[y.id], [('valid value', 'valid'), ('well-formed scope names', 'allmatch')], atom):
      ok = False
  # scopes_are_valid must be computed from MODULE_RE over the new scope
  ctx.check(ok, rule, con, 'invalid values and malformed scope names raise (guard over validity flag and component regex)',
            'the guard rejecting invalid scope values / names is gone', f.loc(), instance='reject')


def hasheq(ctx, rule):
  """HASHEQ for ParsedBindingKey (shared by C08 and C12)."""
  c = ctx.cls('config.ParsedBindingKey')
  con = '%s::%s' % (c.module.relpath, c.name)
  h = c.methods.get('__hash__')
  e = c.methods.get('__eq__')
  if h is None:
    ctx.hold(rule, con, 'no custom __hash__: tuple hash/eq over all fields agree', c.module.relpath + ':%d' % c.node.lineno)
    ctx.note('ParsedBindingKey has no custom __hash__; spelling independence then relies on given_selector being absent')
    return
  def projection(m):
    rets = [n for n in walk_local(m.node) if isinstance(n, ast.Return) and n.value is not None]
    attrs = set()
    for r in rets:
      for n in ast.walk(r.value):
        if isinstance(n, ast.Attribute) and isinstance(n.value, ast.Name) and n.value.id == m.params[0]:
          attrs.add(n.attr)
    return attrs
  hp = projection(h)
  loc = '%s:%d' % (c.module.relpath, h.node.lineno)
  if e is None:
    odd = sorted(n for n in c.methods if n.startswith('__') and n.endswith('__') and n not in _DATA_MODEL)
    ctx.fail(rule, con,
             '__hash__ is defined over %s but the class defines no __eq__ (inherited tuple equality compares all fields, '
             'including the spelling as given)%s: two spellings of one parameter hash alike but compare unequal, so '
             'finalize cannot detect conflicting hook updates'
             % (sorted(hp), '; method(s) %s are not part of the data model' % odd if odd else ''),
             loc, instance='__eq__')
    return
  ep = projection(e)
  ctx.check(ep == hp and bool(hp), rule, con,
            '__eq__ and __hash__ use the same projection %s' % sorted(hp),
            '__eq__ compares %s but __hash__ hashes %s' % (sorted(ep), sorted(hp)), loc, instance='__eq__')
  ne = c.methods.get('__ne__')
  if ne is not None:
    ctx.hold(rule, con, '__ne__ defined alongside __eq__', loc, instance='__ne__')


_DATA_MODEL = {
    '__init__', '__new__', '__eq__', '__ne__', '__hash__', '__repr__', '__str__',
    '__lt__', '__le__', '__gt__', '__ge__', '__bool__', '__len__', '__iter__',
    '__contains__', '__getitem__', '__setitem__', '__delitem__', '__call__',
    '__enter__', '__exit__', '__copy__', '__deepcopy__', '__getattr__',
    '__getattribute__', '__setattr__', '__delattr__', '__next__', '__reduce__',
    '__reduce_ex__', '__getstate__', '__setstate__', '__format__', '__del__',
    '__add__', '__radd__', '__sub__', '__mul__', '__index__', '__int__',
    '__float__', '__class_getitem__', '__init_subclass__', '__set_name__',
    '__get__', '__set__', '__delete__', '__dir__', '__sizeof__', '__bytes__',
    '__reversed__', '__missing__', '__length_hint__', '__post_init__',
    '__getnewargs__', '__getnewargs_ex__', '__fspath__', '__match_args__',
    '__await__', '__aiter__', '__anext__', '__aenter__', '__aexit__',
    '__and__', '__or__', '__xor__', '__iadd__', '__neg__', '__pos__', '__abs__',
    '__invert__', '__truediv__', '__floordiv__', '__mod__', '__pow__',
    '__matmul__', '__lshift__', '__rshift__', '__instancecheck__',
    '__subclasscheck__', '__prepare__', '__subclasshook__',
}


def dunder_sweep(ctx, rule, modules):
  """Methods shaped like special methods that are not in the data model."""
  n = 0
  for c in ctx.ix.all_classes(modules):
    for name, m in c.methods.items():
      if name.startswith('__') and name.endswith('__'):
        n += 1
        if name not in _DATA_MODEL:
          ctx.note('%s.%s is dunder-shaped but not a data-model method' % (c.qual, name))
  return n


# ----------------------------------------------------------------------------
# Lock guard (C11, C12, C16)

LOCK_SETTER = 'config._set_config_is_locked'
LOCK_GETTER = 'config.config_is_locked'


def lock_model(ctx):
  """Finds the lock flag, its getter and setter semantically and returns
  (atom_texts, writers) where writers = functions from which the setter is
  reachable."""
  prog = ctx.prog
  getter = ctx.func(LOCK_GETTER)
  setter = ctx.func(LOCK_SETTER)
  rets = [n for n in walk_local(getter.node) if isinstance(n, ast.Return)]
  if len(rets) != 1 or not isinstance(rets[0].value, ast.Name):
    what = u(rets[0].value) if rets and rets[0].value is not None else 'nothing'
    ctx.fail('C12.guarded', 'gin/config.py::config_is_locked',
             'the lock state is no longer one module-level flag (config_is_locked returns `%s`): state held per object / per thread means a '
             'configuration finalized by one thread is still modifiable from another' % what, getter.loc(), instance='global-flag')
    raise AnalysisError('config_is_locked no longer returns a module-level flag')
  flag = rets[0].value.id
  writes = [n for n in walk_local(setter.node) if isinstance(n, ast.Name)
            and n.id == flag and isinstance(n.ctx, ast.Store)]
  if not writes:
    raise AnalysisError('_set_config_is_locked no longer writes %s' % flag)
  other = []
  for f in ctx.ix.all_funcs(['config']):
    if f is setter:
      continue
    for n in walk_local(f.node):
      if isinstance(n, ast.Global) and flag in n.names:
        other.append(f)
  writers = set()
  for f in ctx.ix.all_funcs():
    if LOCK_SETTER in prog.reachable([f.qual]) or f in other:
      writers.add(f.qual)
  return {'config_is_locked()', flag}, writers, flag, other


def lock_facts(ctx, f, atoms, writers):
  """std_facts for f where lock atoms are killed by calls that may write the
  lock flag."""
  prog = ctx.prog

  def extra_kill(node, fact):
    if fact[0] == 'c' and fact[1] in atoms:
      for c in calls_of_node(node):
        if prog.resolve_call(f, c) in writers:
          return True
    return False

  return std_facts(prog, f, extra_kill=extra_kill)


def unlocked_at(fs, atoms):
  return any(('c', a, False) in fs for a in atoms)


# ----------------------------------------------------------------------------
# WHO-reads: which module-level stores a function may touch, and which
# per-object state a class may hold (tables confirmed by reading; a new store
# or attribute in the data path of a property is new state the property's
# guarantee now depends on).


def allowed_stores(ctx, rule, table, why):
  """table: {function qual: set of allowed store names of gin/config.py}.
  Nested functions are included with their enclosing function."""
  from ..resolve import store_accesses
  prog = ctx.prog
  stores, acc = store_accesses(prog, 'config')
  for q, allowed in table.items():
    f = ctx.func(q)
    mine = [a for a in acc if a.func is not None and (a.func.qual == q or a.func.qual.startswith(q + '.'))]
    extra = sorted({a.store for a in mine} - set(allowed))
    if extra:
      for st in extra:
        a = [x for x in mine if x.store == st][0]
        ctx.fail(rule, construct(f),
                 '%s reads/writes module-level store %s (%s), which is outside what this function may depend on (%s): %s'
                 % (f.name, st, a.method or a.kind, sorted(allowed) or 'no store', why),
                 a.func.loc(a.node), sites=len(mine), instance='store:' + st)
    else:
      ctx.hold(rule, construct(f), '%s touches only %s' % (f.name, sorted({a.store for a in mine}) or 'no module-level store'),
               f.loc(), sites=max(len(mine), 1), instance='stores')


def instance_state(ctx, rule, class_qual, allowed, why):
  """Every `self.X = ...` in any method of the class must name an attribute in
  `allowed`; a new mutable attribute is new per-object state."""
  c = ctx.cls(class_qual)
  con = '%s::%s' % (c.module.relpath, c.name)
  seen = {}
  for name, m in c.methods.items():
    selfn = m.params[0] if m.params else 'self'
    for n in walk_local(m.node):
      if isinstance(n, ast.Attribute) and isinstance(n.ctx, ast.Store) and isinstance(n.value, ast.Name) and n.value.id == selfn:
        seen.setdefault(n.attr, []).append((m, n))
  extra = sorted(set(seen) - set(allowed))
  vanished = sorted(set(allowed) - set(seen))
  if extra and vanished and len(vanished) >= len(extra):
    raise AnalysisError('the state layout of %s changed (no longer set: %s; new: %s): the rules about its attributes cannot be read off this class'
                        % (c.name, vanished, extra))
  for a in extra:
    m, n = seen[a][0]
    ctx.fail(rule, con, 'new per-object state `self.%s` (set in %s): %s' % (a, m.name, why), m.loc(n), instance='attr:' + a)
  if not extra:
    ctx.hold(rule, con, 'per-object state is exactly %s' % sorted(seen), '%s:%d' % (c.module.relpath, c.node.lineno),
             sites=sum(len(v) for v in seen.values()), instance='attrs')
  return seen


def module_has_no_state(ctx, rule, modname, why):
  from ..resolve import module_stores
  st = module_stores(ctx.prog, modname)
  m = ctx.ix.module(modname)
  ctx.check(not st, rule, m.relpath, 'gin/%s.py keeps no module-level mutable state' % modname,
            'gin/%s.py now keeps module-level state %s: %s' % (modname, sorted(st), why),
            '%s:%d' % (m.relpath, (list(st.values())[0][0].lineno if st else 1)), instance='module-state')


def must_pass(g, start_id, stop_ids, through_ids):
  """True iff every path from start to any node in stop_ids passes a node in
  through_ids (paths that leave by raising are ignored)."""
  return witness(g, start_id, stop_ids, avoid=through_ids) is None


def fresh_kwarg_defaults(ctx, rule):
  """`_get_kwarg_defaults` hands out a dict that its callers filter in place
  (`del arg_vals[k]`), so every call must build a fresh dict."""
  prog = ctx.prog
  f = ctx.func('config._get_kwarg_defaults')
  g, facts = std_facts(prog, f)
  rets = [n for n in g.live_nodes() if n.kind == 'return' and n.ast.value is not None]
  ok = bool(rets)
  bad = ''
  for r in rets:
    v = r.ast.value
    if isinstance(v, ast.Name):
      defs = [a.value for a in walk_local(f.node) if isinstance(a, ast.Assign) and u(a.targets[0]) == v.id]
      kinds = [copy_kind(d) for d in defs]
      fresh = bool(defs) and all(k in ('FRESH', 'SHALLOW') or (isinstance(d, ast.Call) and u(d.func) == 'dict') for d, k in zip(defs, kinds))
      if not fresh:
        ok = False
        bad = '%s = %s' % (v.id, [u(d) for d in defs])
    elif copy_kind(v) not in ('FRESH', 'SHALLOW'):
      ok = False
      bad = u(v)
  mutators = []
  for cf, cn in prog.call_sites_of(f.qual):
    st = enclosing_stmt(cn)
    if isinstance(st, ast.Assign) and isinstance(st.targets[0], ast.Name):
      nm = st.targets[0].id
      if any(isinstance(x, ast.Delete) and any(isinstance(t, ast.Subscript) and u(t.value) == nm for t in x.targets) for x in walk_local(cf.node)):
        mutators.append(cf.name)
  ctx.section(kwarg_defaults_sources, ctx, rule)
  ctx.check(ok, rule, construct(f),
            'each call builds a fresh dict of signature defaults (callers %s filter it in place)' % (mutators or 'may'),
            'the dict of signature defaults handed out is not fresh (`%s`), but %s delete(s) entries from it in place: after the first '
            'registration of a function its REQUIRED / filtered defaults are missing for every later registration' % (bad, mutators or 'a caller'),
            f.loc(), instance='fresh-defaults')


def kwarg_defaults_sources(ctx, rule):
  """`_get_kwarg_defaults` returns the defaults of the positional-or-keyword parameters *and* of the keyword-only ones:
  abstract evaluation of the dict it builds, for each of the four (has positional defaults, has keyword-only defaults) cases."""
  f = ctx.func('config._get_kwarg_defaults')
  con = construct(f)

  class Unint(Exception):
    pass

  def content(e, env):
    out = set()
    for x in ast.walk(e):
      if isinstance(x, ast.Attribute) and x.attr == 'defaults':
        out.add('POS')
      elif isinstance(x, ast.Attribute) and x.attr == 'kwonlydefaults':
        out.add('KWO')
      elif isinstance(x, ast.Name) and isinstance(x.ctx, ast.Load) and x.id in env:
        out |= env[x.id]
    return out

  def truth(t, case, env):
    if isinstance(t, ast.UnaryOp) and isinstance(t.op, ast.Not):
      return not truth(t.operand, case, env)
    if isinstance(t, ast.BoolOp):
      vs = [truth(v, case, env) for v in t.values]
      return all(vs) if isinstance(t.op, ast.And) else any(vs)
    if isinstance(t, ast.Compare) and len(t.ops) == 1 and isinstance(t.comparators[0], ast.Constant) and t.comparators[0].value is None \
        and isinstance(t.ops[0], (ast.Is, ast.IsNot)):
      v = truth(t.left, case, env)
      return v if isinstance(t.ops[0], ast.IsNot) else not v
    if isinstance(t, ast.Attribute) and t.attr == 'defaults':
      return case[0]
    if isinstance(t, ast.Attribute) and t.attr == 'kwonlydefaults':
      return case[1]
    if isinstance(t, ast.Name) and t.id in env and len(env[t.id]) == 1:
      return case[0] if env[t.id] == {'POS'} else case[1]
    raise Unint('condition `%s`' % u(t))

  def run(stmts, case, env):
    """Returns the content of the returned dict, or None when no return was reached."""
    for st in stmts:
      if isinstance(st, ast.Expr) and isinstance(st.value, ast.Constant):
        continue
      if isinstance(st, ast.Return):
        if st.value is None:
          raise Unint('bare return')
        return content(st.value, env)
      if isinstance(st, ast.If):
        r = run(st.body if truth(st.test, case, env) else st.orelse, case, env)
        if r is not None:
          return r
      elif isinstance(st, (ast.Assign, ast.AnnAssign)) and st.value is not None:
        tg = st.targets if isinstance(st, ast.Assign) else [st.target]
        for t in tg:
          if isinstance(t, ast.Name):
            env[t.id] = content(st.value, env)
          elif isinstance(t, ast.Subscript) and isinstance(t.value, ast.Name):
            env[t.value.id] = env.get(t.value.id, set()) | content(st.value, env)
          else:
            raise Unint('`%s`' % u(st))
      elif isinstance(st, ast.AugAssign) and isinstance(st.target, ast.Name):
        env[st.target.id] = env.get(st.target.id, set()) | content(st.value, env)
      elif isinstance(st, ast.Expr) and isinstance(st.value, ast.Call) and isinstance(st.value.func, ast.Attribute) \
          and isinstance(st.value.func.value, ast.Name) and st.value.func.attr in ('update', 'setdefault', '__setitem__'):
        nm = st.value.func.value.id
        env[nm] = env.get(nm, set()) | set().union(*[content(a, env) for a in list(st.value.args) + [k.value for k in st.value.keywords]])
      elif isinstance(st, ast.For) and not st.orelse:
        src = content(st.iter, env)
        for x in ast.walk(st.target):
          if isinstance(x, ast.Name):
            env[x.id] = set(src)
        r = run(st.body, case, env)
        if r is not None:
          raise Unint('return inside a loop')
      elif isinstance(st, ast.Pass):
        continue
      else:
        raise Unint('`%s`' % u(st)[:60])
    return None
  bad = []
  for case in ((True, True), (True, False), (False, True), (False, False)):
    try:
      got = run(f.node.body, case, {})
    except Unint as e:
      raise AnalysisError('_get_kwarg_defaults builds its result in a form this rule cannot interpret: %s' % e)
    if got is None:
      raise AnalysisError('_get_kwarg_defaults: no return reached')
    want = ({'POS'} if case[0] else set()) | ({'KWO'} if case[1] else set())
    if (got & want) != want:
      bad.append((case, sorted(got & want), sorted(want)))
  ctx.check(not bad, rule, con, 'the defaults returned cover the positional-or-keyword and the keyword-only parameters, whichever of the two a function has',
            'for a function with%s positional defaults and with%s keyword-only defaults the result holds %s instead of %s: the missing defaults are never '
            'recorded in the operative config (and a REQUIRED among them goes unnoticed)'
            % (('' if bad[0][0][0] else 'out', '' if bad[0][0][1] else 'out', bad[0][1], bad[0][2]) if bad else ('', '', '', '')),
            f.loc(), sites=4, instance='both-sources')


def explicit_scope_replaces(ctx, rule):
  """`_as_scope_and_selector` (get_configurable / get_bindings): a scope written in the selector string is the whole scope
  the result runs under; the active scope is used only when the string carries none (or a function / class was given)."""
  from ..lib import content_eval, Uninterpreted
  prog = ctx.prog
  f = ctx.func('config._as_scope_and_selector')
  if not f.params:
    raise AnalysisError('_as_scope_and_selector takes no argument')
  P = f.params[0]

  def atom_content(e):
    out = set()
    for x in ast.walk(e):
      if isinstance(x, ast.Call) and prog.resolve_call(f, x) == 'config.current_scope':
        out.add('CUR')
      elif isinstance(x, ast.Call) and isinstance(x.func, ast.Attribute) and x.func.attr in ('split', 'rsplit', 'rpartition', 'partition') \
          and u(x.func.value) == P and x.args and isinstance(x.args[0], ast.Constant) and x.args[0].value == '/':
        out.add('SEL')
    return out

  def tracked(v):
    if isinstance(v, ast.Name):
      ds = [a.value for a in walk_local(f.node) if isinstance(a, ast.Assign) and len(a.targets) == 1 and u(a.targets[0]) == v.id]
      if len(ds) == 1:
        v = ds[0]
    return v.elts[0] if isinstance(v, ast.Tuple) and len(v.elts) == 2 else None
  # the names that receive the scope part of the split: `*scope, selector = s.split('/')`
  starred = {x.value.id for a in walk_local(f.node) if isinstance(a, ast.Assign) for t in a.targets if isinstance(t, (ast.Tuple, ast.List))
             for x in t.elts if isinstance(x, ast.Starred) and isinstance(x.value, ast.Name)}
  empties = {u(a.targets[0]) for a in walk_local(f.node) if isinstance(a, ast.Assign) and len(a.targets) == 1 and isinstance(a.targets[0], ast.Name)
             and u(a.value).replace(' ', '') in ('[]', '()', 'list()', 'tuple()')}
  # the variable(s) the returned scope is read from, and the separator of `a, sep, b = s.rpartition('/')` (non-empty iff a scope was written)
  tracked_names = set()
  for r_ in [x for x in walk_local(f.node) if isinstance(x, ast.Return) and x.value is not None]:
    tv = tracked(r_.value)
    if tv is not None:
      tracked_names |= {x.id for x in ast.walk(tv) if isinstance(x, ast.Name)}
  separators = {a.targets[0].elts[1].id for a in walk_local(f.node) if isinstance(a, ast.Assign) and len(a.targets) == 1
                and isinstance(a.targets[0], ast.Tuple) and len(a.targets[0].elts) == 3 and isinstance(a.targets[0].elts[1], ast.Name)
                and isinstance(a.value, ast.Call) and isinstance(a.value.func, ast.Attribute) and a.value.func.attr in ('partition', 'rpartition')}
  bad = []
  for is_str, has_scope, label in ((True, True, "a string with a scope ('inner/fn')"), (True, False, "a string without a scope ('fn')"),
                                   (False, False, 'a function or class')):
    def atom_truth(t, env, is_str=is_str, has_scope=has_scope):
      tt = u(t).replace(' ', '')
      if tt in ('isinstance(%s,str)' % P, 'isinstance(%s,(str,))' % P):
        return is_str
      if isinstance(t, ast.Compare) and len(t.ops) == 1 and u(t.left) == "'/'" and u(t.comparators[0]) == P and is_str:
        return has_scope if isinstance(t.ops[0], ast.In) else (not has_scope if isinstance(t.ops[0], ast.NotIn) else None)
      if isinstance(t, ast.Name) and t.id in env:
        c = env[t.id]
        if not c and t.id in starred | empties:
          return False                # built from nothing: an empty list
        if c == {'SEL'} and (t.id in starred or t.id in tracked_names or t.id in separators):
          return has_scope
      return None
    try:
      got = content_eval(f.node.body, atom_content, atom_truth, tracked)
    except Uninterpreted as e:
      raise AnalysisError('_as_scope_and_selector computes the scope in a form this rule cannot interpret: %s' % e)
    if got == 'RAISE' or got is None:
      raise AnalysisError('_as_scope_and_selector: no return reached for %s' % label)
    eff = set(got) if has_scope else set(got) - {'SEL'}     # without a written scope that part is empty
    want = {'SEL'} if has_scope else {'CUR'}
    if eff != want:
      bad.append((label, sorted(eff), sorted(want)))
  ctx.check(not bad, rule, construct(f), 'a scope written in the selector replaces the active scope; the active scope is used only when none is written',
            'given %s the scope returned is built from %s instead of %s (SEL = the scope written in the selector, CUR = the active scope): '
            'get_configurable(\'inner/fn\') obtained while scope `outer` is active then runs under outer/inner, or an unscoped one under no scope at all'
            % (bad[0] if bad else ('', '', '')), f.loc(), sites=3, instance='explicit-replaces')


def finalize_conflict_guard(ctx, rule):
  """finalize(): each hook update is keyed by the *parsed* binding key and
  inserted only if that key is not yet present (else raise)."""
  prog = ctx.prog
  ff = ctx.func('config.finalize')
  g, facts = std_facts(prog, ff)
  loops = [n for n in g.live_nodes() if n.kind == 'for' and '_FINALIZE_HOOKS' in u(n.ast.iter)]
  if not loops:
    ctx.fail(rule, construct(ff), 'finalize no longer iterates the registered hooks', ff.loc(), instance='conflict-guard')
    return
  loop_st = loops[0].ast
  ins = [n for n in g.live_nodes() if n.kind == 'stmt' and isinstance(n.ast, ast.Assign)
         and isinstance(n.ast.targets[0], ast.Subscript) and _inside(n.ast, loop_st)]
  okc = False
  why = 'no keyed insertion of hook results found'
  for n in ins:
    sub = n.ast.targets[0]
    key = u(sub.slice)
    cont = u(sub.value)
    present = ('c', '%s in %s' % (key, cont), False) in facts[n.id]
    d = None
    for fct in facts[n.id]:
      if fct[0] == 'def' and fct[1] == key:
        d = fct[2]
    parsed = d is not None and 'ParsedBindingKey.parse' in d
    okc = present and parsed
    why = 'the key `%s` %s' % (key, ('is `%s`, not the parsed binding key: two spellings of one parameter are different keys' % d) if not parsed
                               else 'is inserted without the `in` test that detects a second update')
  ctx.check(okc, rule, construct(ff),
            'each hook update is keyed by the parsed (validated) binding key and inserted only if that key is not yet present, else raise',
            'conflicting hook updates are not detected independently of spelling: %s' % why, ff.loc(loop_st), instance='conflict-guard')


def _inside(node, root):
  while node is not None:
    if node is root:
      return True
    node = getattr(node, 'parent', None)
  return False


# ----------------------------------------------------------------------------
# Rules shared between properties (each is a genuine necessary condition of
# every property it is run under).

SIG_HELPERS = ('config._get_validated_required_kwargs', 'config._get_default_configurable_parameter_values',
               'config._get_supplied_positional_parameter_names', 'config._order_by_signature',
               'config._get_all_positional_parameter_names')


def signature_agreement(ctx, rule):
  """AGREE: every helper that inspects "the signature" inside the wrapper
  factory is given the same callable, and that callable is the class's
  construction function for classes."""
  prog = ctx.prog
  fac = ctx.func('config._make_gin_wrapper')

  def root_callable(f, a, depth=0):
    """The callable an argument is derived from: a helper may be handed what another signature helper computed from it."""
    if isinstance(a, ast.Name) and depth < 3:
      ds = [x for x in walk_local(fac.node) if isinstance(x, ast.Assign) and len(x.targets) == 1 and u(x.targets[0]) == a.id]
      if len(ds) == 1 and isinstance(ds[0].value, ast.Call) and ds[0].value.args and \
          prog.resolve_call(fac, ds[0].value) in set(SIG_HELPERS) | {'config._get_kwarg_defaults', 'config._get_cached_arg_spec'}:
        return root_callable(f, ds[0].value.args[0], depth + 1)
    return u(a)
  args = {}
  for f in [fac] + [x for x in fac.nested.values() if hasattr(x, 'node') and isinstance(x.node, (ast.FunctionDef,))]:
    for c in walk_local(f.node):
      if isinstance(c, ast.Call) and prog.resolve_call(f, c) in SIG_HELPERS and c.args:
        args.setdefault(root_callable(f, c.args[0]), []).append((f, c))
  ctx.expect_at_least('signature-inspecting helper calls in the wrapper factory', sum(len(v) for v in args.values()), 3)
  if len(args) > 1:
    major = max(args, key=lambda k: len(args[k]))
    for k, sites in args.items():
      if k == major:
        continue
      f, c = sites[0]
      ctx.fail(rule, construct(fac),
               '`%s` inspects `%s` while its sibling helpers inspect `%s`: for a class registered through the metaclass call wrapper these are '
               'different callables, so REQUIRED defaults / positional names / configurable defaults are read from the wrong signature'
               % (u(c.func), k, major), f.loc(c), sites=sum(len(v) for v in args.values()), instance='sig:' + u(c.func))
  else:
    ctx.hold(rule, construct(fac), 'all %d signature-inspecting helpers receive the same callable `%s`'
             % (sum(len(v) for v in args.values()), list(args)[0]), fac.loc(), sites=sum(len(v) for v in args.values()), instance='sig-agree')
  ctx.section(construction_fn_order, ctx, rule)
  name = max(args, key=lambda k: len(args[k])) if args else None
  defs = [a for a in walk_local(fac.node) if isinstance(a, ast.Assign) and name and u(a.targets[0]) == name]
  texts = sorted(u(a.value) for a in defs)
  ok = texts == sorted([fac.params[1], '_find_class_construction_fn(%s)' % fac.params[1]])
  ctx.check(ok, rule, construct(fac), 'that callable is the registered function, or the class\'s __init__/__new__ for a class',
            'the inspected callable is defined as %s' % texts, fac.loc(), instance='sig-def')


def construction_fn_order(ctx, rule):
  """The callable Gin injects into for a class is found class by class along the MRO: the first class that defines
  __init__ or __new__ decides, and within one class __init__ wins."""
  prog = ctx.prog
  f = ctx.func('config._find_class_construction_fn')
  con = construct(f)
  if not f.params:
    raise AnalysisError('_find_class_construction_fn takes no class')
  P = f.params[0]
  g, facts = std_facts(prog, f)
  from ..core import ancestors

  def is_mro(e, depth=0):
    t = u(e).replace(' ', '')
    if t in ('inspect.getmro(%s)' % P, '%s.__mro__' % P, '%s.mro()' % P, 'type.mro(%s)' % P, 'getmro(%s)' % P):
      return True
    if isinstance(e, ast.Call) and u(e.func) in ('list', 'tuple', 'iter') and len(e.args) == 1:
      return is_mro(e.args[0], depth)
    if isinstance(e, ast.Name) and depth < 3:
      ds = [x for x in walk_local(f.node) if isinstance(x, ast.Assign) and len(x.targets) == 1 and u(x.targets[0]) == e.id]
      return len(ds) == 1 and is_mro(ds[0].value, depth + 1)
    return False
  # table-driven spelling: one nest of loops / generators over (classes of the MRO) x ('__init__', '__new__'), returning getattr(base, name)
  def names_iter(e):
    return isinstance(e, (ast.Tuple, ast.List)) and len(e.elts) == 2 and all(isinstance(x, ast.Constant) for x in e.elts) \
        and {x.value for x in e.elts} == {'__init__', '__new__'}
  nests = []      # (generators as [(target, iter)], guards, value, node)
  for r in [x for x in walk_local(f.node) if isinstance(x, ast.Return) and x.value is not None]:
    v = r.value
    chain = [a for a in ancestors(r) if isinstance(a, (ast.For, ast.If)) and any(a is x for x in ast.walk(f.node))]
    fors = [a for a in reversed(chain) if isinstance(a, ast.For)]
    gens, guards = [], [a.test for a in chain if isinstance(a, ast.If) and any(r is x for st in a.body for x in ast.walk(st))]
    for fo in fors:
      if isinstance(fo.iter, (ast.ListComp, ast.GeneratorExp)) and isinstance(fo.iter.elt, ast.Tuple) and isinstance(fo.target, ast.Tuple) \
          and [u(x) for x in fo.iter.elt.elts] == [u(x) for x in fo.target.elts]:
        gens += [(g_.target, g_.iter) for g_ in fo.iter.generators]
        guards += [i_ for g_ in fo.iter.generators for i_ in g_.ifs]
      else:
        gens.append((fo.target, fo.iter))
    if isinstance(v, ast.Call) and u(v.func) == 'next' and v.args and isinstance(v.args[0], ast.GeneratorExp):
      ge = v.args[0]
      gens += [(g_.target, g_.iter) for g_ in ge.generators]
      guards += [i_ for g_ in ge.generators for i_ in g_.ifs]
      v = ge.elt
    if any(names_iter(it) for _t, it in gens):
      nests.append((gens, guards, v, r))
  if nests:
    for gens, guards, v, r in nests:
      i_m = [i for i, (_t, it) in enumerate(gens) if is_mro(it)]
      i_n = [i for i, (_t, it) in enumerate(gens) if names_iter(it)]
      if len(i_m) != 1 or len(i_n) != 1 or len(gens) != 2 or not all(isinstance(t, ast.Name) for t, _ in gens):
        raise AnalysisError('_find_class_construction_fn searches `%s`: not a nest this rule can read' % [u(it) for _t, it in gens])
      B, N = gens[i_m[0]][0].id, gens[i_n[0]][0].id
      atoms = []
      for x in guards:
        atoms += x.values if isinstance(x, ast.BoolOp) and isinstance(x.op, ast.And) else [x]
      gtxt = [u(x).replace(' ', '') for x in atoms]
      # skipping `object` changes nothing: it is last in every MRO and the fall-through handles it
      gtxt = [t for t in gtxt if t not in ('%sisnotobject' % B, '%s!=object' % B)]
      if not (isinstance(v, ast.Call) and u(v.func) == 'getattr' and [u(a) for a in v.args[:2]] == [B, N]) or \
          not any(t in ('%sin%s.__dict__' % (N, B), '%sinvars(%s)' % (N, B)) for t in gtxt) or len(gtxt) != 1:
        raise AnalysisError('_find_class_construction_fn returns `%s` under %s: not a form this rule can read' % (u(v), gtxt))
      ctx.check(i_m[0] < i_n[0], rule, con, 'the search runs class by class along the MRO (the MRO loop is the outermost loop)',
                'the names loop `%s` runs outside the MRO loop: the search is no longer class by class, so a class whose own __new__ (or __init__) carries the '
                'parameters is passed over for one defined further up the MRO and the bound values never reach it' % u(gens[i_n[0]][1]), f.loc(r), instance='mro-outermost')
      order = [x.value for x in gens[i_n[0]][1].elts]
      ctx.check(order == ['__init__', '__new__'], rule, con, 'within one class __init__ is preferred: __new__ is returned only if the class defines no __init__',
                'the names are tried in the order %s: for a class defining both, the bindings go to __new__ and its __init__ (called by Python with the caller\'s '
                'arguments only) never sees them' % order, f.loc(r), instance='init-first')
    return
  loops = [n for n in walk_local(f.node) if isinstance(n, ast.For) and is_mro(n.iter)]
  if not loops:
    raise AnalysisError('_find_class_construction_fn: no loop over the MRO of `%s` found' % P)
  nested = [lp for lp in loops if any(isinstance(a, (ast.For, ast.While)) for a in ancestors(lp) if a is not f.node and any(a is x for x in ast.walk(f.node)))]
  ctx.check(not nested, rule, con, 'the search runs class by class along the MRO (the MRO loop is the outermost loop)',
            'the MRO loop runs inside another loop (`%s`): the search is no longer class by class, so a class whose own __new__ (or __init__) '
            'carries the parameters is passed over for one defined further up the MRO and the bound values never reach it'
            % (u(nested[0].iter) if nested else ''), f.loc(nested[0]) if nested else f.loc(), instance='mro-outermost')
  if nested:
    return
  n_ret = 0
  for lp in loops:
    if not isinstance(lp.target, ast.Name):
      raise AnalysisError('_find_class_construction_fn: MRO loop target is not a plain name')
    B = lp.target.id
    for r in [x for x in ast.walk(lp) if isinstance(x, ast.Return) and x.value is not None]:
      v = r.value
      attr = None
      if isinstance(v, ast.Attribute) and u(v.value) == B:
        attr = v.attr
      elif isinstance(v, ast.Call) and u(v.func) == 'getattr' and len(v.args) >= 2 and u(v.args[0]) == B and isinstance(v.args[1], ast.Constant):
        attr = v.args[1].value
      if attr not in ('__init__', '__new__'):
        raise AnalysisError('_find_class_construction_fn returns `%s` from the MRO loop: not a form this rule can read' % u(v))
      n_ret += 1
      nodes = g.nodes_for(r)
      fs = facts[nodes[0].id] if nodes else frozenset()

      def has(name, pol):
        for fc in fs:
          if fc[0] == 'c' and fc[2] is pol and fc[1].replace(' ', '').replace('"', "'") in (
              "'%s'in%s.__dict__" % (name, B), "'%s'invars(%s)" % (name, B)):
            return True
        return False
      loose = [fc[1] for fc in fs if fc[0] == 'c' and fc[2] is True and ('hasattr(%s' % B) in fc[1].replace(' ', '') and attr in fc[1]]
      if not has(attr, True):
        if loose:
          ctx.fail(rule, con, '`%s` is returned for a class that merely inherits it (`%s`): the first class of the MRO always wins, '
                   'so the defining class is never looked for' % (u(v), loose[0]), f.loc(r), instance='defines:' + attr)
          continue
        raise AnalysisError('_find_class_construction_fn returns `%s` without a recognisable `in %s.__dict__` test' % (u(v), B))
      if attr == '__new__':
        ctx.check(has('__init__', False), rule, con, 'within one class __init__ is preferred: __new__ is returned only if the class defines no __init__',
                  '`%s.__new__` is returned without first ruling out that the same class defines __init__: for a class defining both, the bindings '
                  'go to __new__ and its __init__ (called by Python with the caller\'s arguments only) never sees them' % B, f.loc(r), instance='init-first')
      else:
        ctx.hold(rule, con, '`%s.__init__` is returned only for a class that defines it' % B, f.loc(r), instance='defines:__init__')
  ctx.expect_at_least('returns inside the MRO loop of _find_class_construction_fn', n_ret, 2)


def scope_who(ctx, rule):
  """Scopes are pushed / popped only inside config_scope; everyone else uses `with config_scope(...)`."""
  prog = ctx.prog
  f = ctx.func('config.config_scope')
  for q, label in ((ENTER, 'push'), (EXIT, 'pop')):
    sites = prog.call_sites_of(q)
    outside = [(cf, cn) for cf, cn in sites if cf.qual != 'config.config_scope']
    ctx.check(not outside and sites, rule, 'gin/config.py::_ScopeManager.' + q.rsplit('.', 1)[1],
              'scope %s is called only from config_scope (%d site)' % (label, len(sites)),
              'scope %s is called outside config_scope: %s (a hand-written push/pop has its own exit paths to get right)' % (label, [cf.loc(cn) for cf, cn in outside]),
              outside[0][0].loc(outside[0][1]) if outside else f.loc(), sites=len(sites), instance=label)
  uses = prog.call_sites_of('config.config_scope')
  bad = [cf.loc(cn) for cf, cn in uses if not isinstance(cn.parent, ast.withitem)]
  ctx.check(not bad, rule, construct(f), 'all %d in-package uses of config_scope are `with` items' % len(uses),
            'config_scope(...) used outside a with statement at %s' % bad, bad[0] if bad else f.loc(), sites=len(uses), instance='with-only')


def scope_copy_out(ctx, rule):
  from ..lib import returns_of
  c = ctx.cls('config._ScopeManager')
  ccon = '%s::%s' % (c.module.relpath, c.name)
  for pname in ('current_scope', 'active_scopes'):
    pm = c.methods.get(pname)
    if pm is None:
      raise AnalysisError('anchor _ScopeManager.%s vanished' % pname)
    rets = returns_of(pm)
    kinds = [copy_kind(r.value) for r in rets if r.value is not None]
    ok = bool(kinds) and all(at_least(k, 'SHALLOW') for k in kinds)
    ctx.check(ok, rule, ccon + '.' + pname, 'returns a copy (%s) of the live frame' % kinds,
              'returns the live stack frame itself (%s): whoever receives it (config_scope extends it; user code may) mutates the active '
              'scope, or the scope list held by a reference, in place' % [u(r.value) for r in rets], pm.loc(), instance=pname)


def lazy_init_stmt(st):
  """`if not hasattr(self, '_active…'): self._active… = V` -> V (the per-thread lazy initialisation written in line), else None."""
  if isinstance(st, ast.If) and not st.orelse and len(st.body) == 1 and isinstance(st.body[0], ast.Assign) \
      and isinstance(st.test, ast.UnaryOp) and isinstance(st.test.op, ast.Not) and isinstance(st.test.operand, ast.Call) \
      and u(st.test.operand.func) == 'hasattr' and len(st.test.operand.args) == 2 and u(st.test.operand.args[0]) == 'self' \
      and isinstance(st.test.operand.args[1], ast.Constant) and str(st.test.operand.args[1].value).startswith('_active') \
      and len(st.body[0].targets) == 1 and u(st.body[0].targets[0]) == 'self.' + st.test.operand.args[1].value:
    return st.body[0].value
  return None


def stack_discipline(ctx, rule):
  c = ctx.cls('config._ScopeManager')
  ccon = '%s::%s' % (c.module.relpath, c.name)
  en, ex = c.methods.get('enter_scope'), c.methods.get('exit_scope')
  if en is None or ex is None:
    raise AnalysisError('_ScopeManager.enter_scope / exit_scope vanished')
  def muts(m):
    out = []
    for n in walk_local(m.node):
      if isinstance(n, ast.Call) and isinstance(n.func, ast.Attribute) and u(n.func.value).startswith('self._active'):
        out.append(n.func.attr + '(' + ','.join(u(a) for a in n.args) + ')')
      if isinstance(n, (ast.Delete,)):
        out.append('del ' + ','.join(u(t) for t in n.targets))
      if isinstance(n, ast.Assign) and any('_active' in u(t) for t in n.targets):
        if lazy_init_stmt(getattr(n, 'parent', None)) is not None:
          continue      # the lazy per-thread initialisation, written in line (checked by the thread rule)
        out.append(u(n))
    return out
  me, mx = muts(en), muts(ex)
  ctx.check(me == ['append(%s)' % en.params[1]], rule, ccon + '.enter_scope', 'entering pushes the new scope on top of the stack',
            'enter_scope mutates the stack with %s' % me, en.loc(), instance='push')
  ctx.check(mx == ['pop()'], rule, ccon + '.exit_scope', 'leaving pops the top of the stack (strict LIFO)',
            'exit_scope mutates the stack with %s instead of popping the top: when an equal scope is active at an outer depth the wrong '
            'entry is removed and the previously active scope is not restored' % mx, ex.loc(), instance='pop')


def method_selector_rule(ctx, rule):
  """ImportManager.minimal_selector (static branch): the registry's minimal
  selector is widened to Class.method only for a method whose minimal selector is a bare name."""
  prog = ctx.prog
  f = ctx.func('config.ImportManager.minimal_selector')
  g, facts = std_facts(prog, f)
  rets = [n for n in g.live_nodes() if n.kind == 'return' and n.ast.value is not None
          and ('c', 'self.dynamic_registration', False) in facts[n.id]]
  ok = bool(rets)
  why = 'no static-branch return'
  base_names = {u(a.targets[0]) for a in walk_local(f.node) if isinstance(a, ast.Assign) and len(a.targets) == 1 and isinstance(a.targets[0], ast.Name)
                and isinstance(a.value, ast.Call) and u(a.value.func) == '_REGISTRY.minimal_selector'}
  for r in rets:
    v = r.ast.value
    name = v.id if isinstance(v, ast.Name) else None
    if name is None:
      # returned directly: the registry's answer itself, or the widened form under "a method whose minimal selector is a bare name"
      if isinstance(v, ast.Call) and u(v.func) == '_REGISTRY.minimal_selector':
        continue
      fs = facts[r.id]
      cond = ('c', 'configurable_.is_method', True) in fs and any(('c', "'.' in %s" % b_, False) in fs for b_ in base_names)
      if not cond:
        ok = False
        why = 'the selector `%s` is returned without the condition "a method whose minimal selector is a bare name"' % u(v) if base_names else \
            'the returned selector `%s` does not come from _REGISTRY.minimal_selector' % u(v)
      continue
    defs = [a for a in walk_local(f.node) if isinstance(a, ast.Assign) and name and u(a.targets[0]) == name]
    base = [a for a in defs if isinstance(a.value, ast.Call) and u(a.value.func) == '_REGISTRY.minimal_selector']
    widen = [a for a in defs if a not in base]
    if not base:
      ok = False
      why = 'the returned selector `%s` does not come from _REGISTRY.minimal_selector' % u(v)
      continue
    for wn in widen:
      node = g.nodes_for(wn)[0]
      fs = facts[node.id]
      cond = ('c', 'configurable_.is_method', True) in fs and ('c', "'.' in %s" % name, False) in fs
      if not cond:
        ok = False
        why = 'the selector is replaced by `%s` without the condition "a method whose minimal selector is a bare name"' % u(wn.value)
  ctx.check(ok, rule, construct(f),
            'emitted selectors are the registry\'s minimal (unambiguous) ones; only a bare method name is widened to Class.method',
            'the selector emitted for a configurable is not the registry\'s minimal unambiguous selector (%s): with two classes of the same '
            'name the emitted `Class.method` is ambiguous and the config string no longer parses back' % why, f.loc(), instance='static-branch')


def lock_order(ctx, rule):
  """LOCK-ORDER: the module's locks are acquired in one global order.

  Edges A -> B: B may be acquired while A is held -- lexically nested `with`,
  through a resolved callee, or through a call to a *user-supplied callable*
  (a parameter / loop variable / attribute being called), which may call any
  configurable and therefore take every lock the wrapper takes."""
  prog = ctx.prog
  m = ctx.ix.module('config')
  locks = {}
  for name, lst in m.assigns.items():
    v = lst[0][1]
    if isinstance(v, ast.Call) and u(v.func) in ('threading.Lock', 'threading.RLock'):
      locks[name] = u(v.func).split('.')[1]
  if not locks:
    ctx.note('no module-level locks')
    return
  takes = {}    # func qual -> set of locks taken directly
  for f in ctx.ix.all_funcs(['config']):
    for n in walk_local(f.node):
      if isinstance(n, ast.With):
        for it in n.items:
          if isinstance(it.context_expr, ast.Name) and it.context_expr.id in locks:
            takes.setdefault(f.qual, set()).add(it.context_expr.id)
  def reach_locks(q, seen=None):
    out = set()
    for r in prog.reachable([q]):
      out |= takes.get(r, set())
    return out
  wrapper_locks = reach_locks('config._make_gin_wrapper.gin_wrapper') | takes.get('config._make_gin_wrapper.gin_wrapper', set())
  edges = {}
  for f in ctx.ix.all_funcs(['config']):
    for n in walk_local(f.node):
      if not isinstance(n, ast.With):
        continue
      held = [it.context_expr.id for it in n.items if isinstance(it.context_expr, ast.Name) and it.context_expr.id in locks]
      if not held:
        continue
      for i, a in enumerate(held):       # `with A, B:` acquires A then B
        for b in held[i + 1:]:
          edges.setdefault((a, b), f.loc(n))
      for a in held:
        for x in walk_local(n):
          if x is n:
            continue
          if isinstance(x, ast.With):
            for it in x.items:
              if isinstance(it.context_expr, ast.Name) and it.context_expr.id in locks:
                edges.setdefault((a, it.context_expr.id), f.loc(x))
          if isinstance(x, ast.Call):
            q = prog.resolve_call(f, x)
            if q:
              for b in reach_locks(q):
                edges.setdefault((a, b), f.loc(x))
            elif isinstance(x.func, ast.Name) and x.func.id in f.params:
              for b in wrapper_locks:       # user callable: may call any configurable
                edges.setdefault((a, b), f.loc(x) + ' (user callable `%s`)' % x.func.id)
  # self edges on non re-entrant locks and cycles
  bad = []
  for (a, b), where in edges.items():
    if a == b and locks[a] != 'RLock':
      bad.append(('%s is re-acquired while held (not re-entrant)' % a, where))
    if a != b and (b, a) in edges:
      bad.append(('%s -> %s at %s but %s -> %s at %s' % (a, b, where, b, a, edges[(b, a)]), where))
  ctx.check(not bad, rule, 'gin/config.py::locks', 'locks %s are acquired in one order (edges: %s)' % (sorted(locks), sorted('%s->%s' % e for e in edges if e[0] != e[1]) or 'none'),
            'lock-order inversion: %s -- two threads taking the locks in opposite orders deadlock (e.g. a singleton under construction calls a '
            'configurable while another thread clears the configuration)' % (bad[0][0] if bad else ''), bad[0][1].split(' ')[0] if bad else 'gin/config.py',
            sites=len(edges) or 1, instance='lock-order')


def bind_always_writes(ctx, rule):
  """bind_parameter has no normal exit that skips the write of the value."""
  prog = ctx.prog
  bp = ctx.func('config.bind_parameter')
  g, facts = std_facts(prog, bp)
  vw = []
  for n in g.live_nodes():
    a = n.ast
    if n.kind == 'stmt' and isinstance(a, ast.Assign) and isinstance(a.targets[0], ast.Subscript) and isinstance(a.targets[0].value, ast.Name):
      d = None
      for fct in facts[n.id]:
        if fct[0] == 'def' and fct[1] == a.targets[0].value.id:
          d = fct[2]
      if d and '_CONFIG.setdefault(' in d:
        vw.append(n)
    elif n.kind == 'stmt' and isinstance(a, ast.Assign) and isinstance(a.targets[0], ast.Subscript) and isinstance(a.targets[0].value, ast.Call) \
        and u(a.targets[0].value.func) == '_CONFIG.setdefault':
      vw.append(n)      # _CONFIG.setdefault(K, {})[A] = value
  w0 = witness(g, g.entry.id, [g.exit.id], avoid=[n.id for n in vw]) if vw else [g.entry.id]
  ctx.check(bool(vw) and w0 is None, rule, construct(bp), 'every successful bind stores the given value (the most recent binding wins)',
            'bind_parameter can return without storing the value: a re-binding that compares equal to the old value (1 vs True, two references / macros that '
            'differ only in scope) is dropped, so the most recently bound value is not the one in effect', bp.loc(), instance='always-writes')


def loop_examines_all(ctx, rule, qual, inner_pred, what):
  """Every pass through the outermost loop of a finalize hook reaches the
  examining step (no entry is filtered out by a `continue` / condition)."""
  prog = ctx.prog
  f = ctx.func(qual)
  g = prog.cfg(f)
  loops = [n for n in g.live_nodes() if n.kind == 'for' and not n.loops]
  targets = [n for n in g.live_nodes() if inner_pred(f, n)]
  ok = bool(loops) and bool(targets)
  w = None
  def skip_path(start, goal, avoid):
    # a path that does not rely on a nested loop having nothing to iterate
    prev = {start: None}
    queue = [start]
    while queue:
      x = queue.pop(0)
      if x == goal:
        out = []
        while x is not None:
          out.append(x)
          x = prev[x]
        return out[::-1]
      for b, k in g.succ[x]:
        if k == 'exhaust' and x != goal:
          continue
        if b not in prev and b not in avoid:
          prev[b] = x
          queue.append(b)
    return None
  for lp in loops:
    first = [b for b, k in g.succ[lp.id] if k == 'loop']
    if first and first[0] not in [t.id for t in targets]:
      w = w or skip_path(first[0], lp.id, {t.id for t in targets})
  ctx.check(ok and w is None, rule, construct(f), 'every entry of the configuration is examined (%s)' % what,
            'some entries are skipped before they are examined (%s): what the hook is meant to reject is accepted for those entries' % what, f.loc(),
            instance='examines-all', path=describe_path(g, w) if w else None)


def rehoming_rules(ctx, rule_order, rule_key):
  """_find_registered_methods: pop(old) precedes the insertion under the new
  selector (they can be the same string); overrides are keyed by the class attribute name."""
  prog = ctx.prog
  f = ctx.func('config._find_registered_methods')
  g, facts = std_facts(prog, f)
  pops = [n for n in g.live_nodes() if any(u(c.func) == '_REGISTRY.pop' for c in calls_of_node(n))]
  ins = [n for n in g.live_nodes() if n.kind == 'stmt' and isinstance(n.ast, ast.Assign) and isinstance(n.ast.targets[0], ast.Subscript)
         and u(n.ast.targets[0].value) == '_REGISTRY']
  ok = bool(pops) and bool(ins)
  for p_ in pops:
    for i_ in ins:
      # within one iteration the insert must come after the pop: the pop is not reachable from the insert without passing the loop head
      heads = [x.id for x in g.live_nodes() if x.kind == 'for']
      if witness(g, i_.id, [p_.id], avoid=heads) is not None:
        ok = False
  ctx.check(ok, rule_order, construct(f), 'a re-homed method is removed under its old selector before it is inserted under the new one',
            'the method is inserted under its new selector before the old selector is popped: when both are the same string (class registered twice, or the '
            'method registered with module equal to the class selector) the entry just inserted is removed and the method vanishes from the selector registry',
            f.loc(), instance='pop-then-insert')
  # the by-name and the by-object registry record the same (renamed) Configurable
  inv = [n for n in g.live_nodes() if n.kind == 'stmt' and isinstance(n.ast, ast.Assign) and isinstance(n.ast.targets[0], ast.Subscript)
         and u(n.ast.targets[0].value) == '_INVERSE_REGISTRY']
  if not inv or not ins:
    raise AnalysisError('_find_registered_methods no longer writes both registries for a re-homed method')
  for v_ in inv:
    same = []
    for i_ in ins:
      a_, b_ = i_.ast.value, v_.ast.value
      if isinstance(a_, ast.Name) and isinstance(b_, ast.Name):
        if a_.id == b_.id:
          # no redefinition of the name between the two stores
          same.append(def_of(facts[i_.id], a_.id) == def_of(facts[v_.id], b_.id))
        else:
          same.append(def_of(facts[v_.id], b_.id) == a_.id or def_of(facts[i_.id], a_.id) == b_.id)
      elif u(b_).replace(' ', '') == u(i_.ast.targets[0]).replace(' ', '') or u(a_).replace(' ', '') == u(v_.ast.targets[0]).replace(' ', ''):
        same.append(True)
      elif u(a_) == u(b_):
        same.append(True)
      else:
        raise AnalysisError('_find_registered_methods stores `%s` and `%s` in the two registries: not forms this rule can compare' % (u(a_), u(b_)))
    ctx.check(all(same), rule_key, construct(f), 'the selector registry and the by-object registry record the same renamed Configurable',
              '_REGISTRY gets `%s` but _INVERSE_REGISTRY gets `%s`: looked up through the original method object, the method still has its old selector and module, '
              'so get_configurable / get_bindings on it fail or miss the bound values' % (u(ins[0].ast.value), u(v_.ast.value)),
              f.loc(v_.ast), instance='registries-agree')
  loops = [n for n in walk_local(f.node) if isinstance(n, ast.For) and isinstance(n.iter, ast.Call) and u(n.iter.func) == 'inspect.getmembers']
  okk = bool(loops)
  for lp in loops:
    attr = u(lp.target.elts[0]) if isinstance(lp.target, ast.Tuple) else None
    for a in walk_local(lp):
      if isinstance(a, ast.Assign) and isinstance(a.targets[0], ast.Subscript) and u(a.targets[0].value) == 'registered_methods':
        if u(a.targets[0].slice) != attr:
          okk = False
  ctx.check(okk, rule_key, construct(f), 'method overrides are stored under the attribute name the class uses for the method',
            'a method override is stored under a key other than the class attribute name: a method registered under a different Gin name is not overridden in '
            'the configurable class, so its bindings are never injected', f.loc(), instance='override-key')


def factory_state_rule(ctx, rule):
  from ..lib import in_subtree
  """No per-call scratch state may live in the wrapper factory: an object created once per configurable in
  `_make_gin_wrapper` and *mutated* by `gin_wrapper` is shared by every call of that configurable, in every thread."""
  prog = ctx.prog
  fac = ctx.func('config._make_gin_wrapper')
  wr = ctx.func('config._make_gin_wrapper.gin_wrapper')
  _MUT = {'update', 'setdefault', 'clear', 'pop', 'popitem', 'append', 'add', 'extend', 'insert', 'remove', 'discard', 'sort', 'reverse'}
  made = {}
  for a in walk_local(fac.node):
    if isinstance(a, ast.Assign) and len(a.targets) == 1 and isinstance(a.targets[0], ast.Name) and not in_subtree(a, wr.node):
      v = a.value
      kind = None
      if isinstance(v, (ast.Dict, ast.List, ast.Set, ast.ListComp, ast.DictComp, ast.SetComp)):
        kind = 'container'
      elif isinstance(v, ast.Call):
        q = prog.resolve_call(fac, v)
        cobj = prog.ix.get(q) if q else None
        if cobj is not None and cobj.__class__.__name__ == 'Class':
          kind = cobj
        elif u(v.func) in ('dict', 'list', 'set', 'collections.defaultdict', 'collections.OrderedDict', 'collections.deque'):
          kind = 'container'
        elif q and q.startswith('config.'):
          # the result of a helper that returns a dict / list it built is a container as well
          cf = prog.ix.get(q)
          rets = [r.value for r in ast.walk(cf.node) if isinstance(r, ast.Return) and r.value is not None] if hasattr(cf, 'node') and hasattr(cf, 'params') else []
          if rets and all(isinstance(r, ast.Name) for r in rets):
            kind = 'container'
      if kind is not None:
        made[a.targets[0].id] = (kind, a)
  bad = []
  for n in walk_local(wr.node):
    # X[...] = v / del X[...] / X.attr = v
    if isinstance(n, (ast.Subscript, ast.Attribute)) and isinstance(n.ctx, (ast.Store, ast.Del)) and isinstance(n.value, ast.Name) and n.value.id in made:
      bad.append((n.value.id, n, 'written to'))
    if isinstance(n, ast.Call) and isinstance(n.func, ast.Attribute) and isinstance(n.func.value, ast.Name) and n.func.value.id in made:
      nm = n.func.value.id
      kind = made[nm][0]
      if kind == 'container' and n.func.attr in _MUT:
        bad.append((nm, n, 'mutated by .%s()' % n.func.attr))
      elif kind != 'container':
        m = kind.methods.get(n.func.attr)
        if m is not None and any(isinstance(x, ast.Attribute) and isinstance(x.ctx, (ast.Store, ast.Del)) and isinstance(x.value, ast.Name) and x.value.id == 'self'
                                 for x in walk_local(m.node)):
          bad.append((nm, n, 'changed by its method %s(), which stores attributes on the object' % n.func.attr))
  ctx.check(not bad, rule, construct(wr),
            'nothing created once per configurable in the factory is modified by a call (per-call values live in locals of gin_wrapper)',
            '`%s` is created once per configurable in _make_gin_wrapper and %s inside gin_wrapper: all calls of the configurable, in all threads and '
            'scopes, share that scratch state, so one call can record / use values of another' % ((bad[0][0], bad[0][2]) if bad else ('', '')),
            wr.loc(bad[0][1]) if bad else wr.loc(), sites=len(made), instance='factory-state')


def loop_source_unfiltered(ctx, rule, qual, source_qual, what):
  """The loop of a finalize hook runs over everything `source` yields: the iterable is the call itself (a list / tuple / sorted
  copy of it is fine), not a filtered or de-duplicated selection of it."""
  prog = ctx.prog
  f = ctx.func(qual)
  g, facts = std_facts(prog, f)
  from ..lib import expand_expr
  loops = [n for n in g.live_nodes() if n.kind == 'for' and not n.loops]
  ok, why, n_src = bool(loops), 'no loop', 0
  for lp in loops:
    it = expand_expr(facts[lp.id], lp.ast.iter)
    src = [c for c in ast.walk(it) if isinstance(c, ast.Call) and prog.resolve_call(f, c) == source_qual]
    if not src:
      continue
    n_src += 1
    e = it
    while isinstance(e, ast.Call) and u(e.func) in ('list', 'tuple', 'sorted', 'iter') and e.args:
      e = e.args[0]
    if e is not src[0] and not (isinstance(e, ast.Call) and prog.resolve_call(f, e) == source_qual):
      ok = False
      why = 'the hook loops over `%s`' % u(it)[:100]
  ctx.check(ok and n_src > 0, rule, construct(f), 'the hook examines every %s' % what,
            'the hook no longer examines every %s (%s): what it is meant to reject is accepted for the ones left out' % (what, why if n_src else 'source not iterated'),
            f.loc(), instance='source-unfiltered')


def inverse_lookup_by_equality(ctx, rule):
  """_inverse_lookup recognises the registered object by equality (`in (wrapped, wrapper)` / `==`): bound methods, class
  methods and method-wrappers are re-created on every attribute access and are equal to, not identical with, what was registered (T6)."""
  f = ctx.func('config._inverse_lookup')
  p0 = f.params[0]
  ident, equal = [], []
  for c in walk_local(f.node):
    if isinstance(c, ast.Compare) and len(c.ops) == 1:
      sides = [c.left] + list(c.comparators)
      txt = [u(x) for x in sides]
      if p0 not in txt:
        continue
      other = sides[1] if txt[0] == p0 else sides[0]
      about_reg = any((isinstance(x, ast.Attribute) and x.attr in ('wrapped', 'wrapper')) or (isinstance(x, ast.Name) and x.id in ('wrapped', 'wrapper'))
                      for x in ast.walk(other)) or \
          (isinstance(other, ast.Name) and any(isinstance(a, ast.Assign) and u(a.targets[0]) == other.id and
                                               any(isinstance(x, ast.Attribute) and x.attr in ('wrapped', 'wrapper') for x in ast.walk(a.value))
                                               for a in walk_local(f.node)))
      if not about_reg:
        continue
      if isinstance(c.ops[0], (ast.Is, ast.IsNot)):
        ident.append(c)
      elif isinstance(c.ops[0], (ast.In, ast.NotIn, ast.Eq, ast.NotEq)):
        equal.append(c)
  ctx.check(bool(equal) and not ident, rule, construct(f), 'the object handed in is matched against the registered original / wrapper by equality',
            'the registered object is matched by identity (`%s`): a bound method, class method or method-wrapper is a new (equal) object on every '
            'access, so it is no longer found -- lookups by object fail and dynamic registration registers it a second time'
            % (u(ident[0]) if ident else 'no equality test left'), f.loc(ident[0]) if ident else f.loc(), instance='lookup-by-equality')


def record_before_call(ctx, rule):
  """The wrapper writes the call's parameters into the operative record *before* it calls the configurable: a record written
  after the call is missing for calls that raise, and lands in a configuration that was cleared while the call was running."""
  from .wrapper import WrapperModel
  from ..lib import def_of
  w = WrapperModel(ctx)
  f, g, facts = w.f, w.g, w.facts
  ups = []
  for n in g.live_nodes():
    s_ = n.ast
    if n.kind == 'stmt' and isinstance(s_, ast.Expr) and isinstance(s_.value, ast.Call) and isinstance(s_.value.func, ast.Attribute) \
        and s_.value.func.attr == 'update':
      rv = s_.value.func.value
      d = (def_of(facts[n.id], rv.id) or '') if isinstance(rv, ast.Name) else u(rv)
      if d.startswith('_OPERATIVE_CONFIG.setdefault(') or d.startswith('_OPERATIVE_CONFIG['):
        ups.append(n)
    if n.kind == 'stmt' and isinstance(s_, ast.Assign) and isinstance(s_.targets[0], ast.Subscript) and u(s_.targets[0].value).startswith('_OPERATIVE_CONFIG'):
      ups.append(n)
  if not ups or w.call_node is None:
    raise AnalysisError('gin_wrapper: the operative-record update or the wrapped call was not found')
  late = witness(g, g.entry.id, [w.call_node.id], avoid=[n.id for n in ups])
  ctx.check(late is None, rule, construct(f), 'the operative record is updated on every path before the configurable is called',
            'the configurable can be called before the operative record is updated (the update at line %d comes later, or only on some paths): a call that '
            'raises leaves no record, and a record written after the call survives a clear_config made during the call' % ups[0].lineno,
            f.loc(w.call_node.ast), instance='record-before-call', path=describe_path(g, late) if late else None)


def bindings_result_fresh(ctx, rule):
  """_get_bindings hands out a dict of its own: callers remove names from it (the wrapper pops what the caller supplied), so a
  result that *is* an entry of the binding store would delete bindings from the configuration."""
  from ..lib import copy_kind, returns_of
  f = ctx.func('config._get_bindings')
  seen = set()

  def stored(e, depth=0):
    """True if e may denote an entry of _CONFIG itself (not a copy)."""
    if depth > 4:
      return False
    if isinstance(e, ast.IfExp):
      return stored(e.body, depth) or stored(e.orelse, depth)
    if isinstance(e, ast.BoolOp):
      return any(stored(v, depth) for v in e.values)
    if isinstance(e, ast.Subscript) and not isinstance(e.slice, ast.Slice):
      return u(e.value) == '_CONFIG'
    if isinstance(e, ast.Call) and isinstance(e.func, ast.Attribute) and e.func.attr in ('get', 'setdefault', 'pop') and u(e.func.value) == '_CONFIG':
      return True
    if isinstance(e, ast.Name):
      if e.id in seen:
        return False
      seen.add(e.id)
      return any(stored(a.value, depth + 1) for a in walk_local(f.node) if isinstance(a, ast.Assign) and len(a.targets) == 1 and u(a.targets[0]) == e.id)
    return False
  rets = [r for r in returns_of(f) if r.value is not None]
  bad = [r for r in rets if stored(r.value)]
  ctx.check(bool(rets) and not bad, rule, construct(f), 'the merged bindings are returned in a dict of their own, never an entry of the binding store',
            '_get_bindings can return an entry of _CONFIG itself (`%s` may be the stored dict): the wrapper pops caller-supplied names from the result, '
            'which then deletes those bindings from the configuration for every later call' % (u(bad[0].value) if bad else ''),
            f.loc(bad[0]) if bad else f.loc(), instance='result-fresh')
