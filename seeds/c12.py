from ._h import S
C = 'config.py'
SEEDS = [
  S('bind-guard-weakened', 'C12.guarded', C, "  if config_is_locked():\n    raise RuntimeError('Attempted to modify locked Gin config.')", "  if config_is_locked() and not _INTERACTIVE_MODE:\n    raise RuntimeError('Attempted to modify locked Gin config.')"),
  S('bind-guard-after-write', 'C12.guarded', C, "  if config_is_locked():\n    raise RuntimeError('Attempted to modify locked Gin config.')\n\n  pbk = ParsedBindingKey.parse(binding_key)\n  fn_dict = _CONFIG.setdefault(pbk.config_key, {})\n  fn_dict[pbk.arg_name] = value\n", "  pbk = ParsedBindingKey.parse(binding_key)\n  fn_dict = _CONFIG.setdefault(pbk.config_key, {})\n  if config_is_locked():\n    raise RuntimeError('Attempted to modify locked Gin config.')\n  fn_dict[pbk.arg_name] = value\n"),
  S('register-guard-dropped', 'C12.guarded', C, "  if config_is_locked():\n    err_str = 'Attempted to add a new configurable after the config was locked.'\n    raise RuntimeError(err_str)\n", ""),
  S('unlock-no-finally', 'C12.restore', C, "  try:\n    yield\n  finally:\n    _set_config_is_locked(config_was_locked)", "  yield\n  _set_config_is_locked(config_was_locked)", 'F8 re-introduced'),
  S('unlock-always-relocks', 'C12.restore', C, "    _set_config_is_locked(config_was_locked)", "    _set_config_is_locked(True)", 'nested unlock in an unlocked config locks it'),
  S('unlock-reads-state-late', 'C12.restore', C, "  config_was_locked = config_is_locked()\n  _set_config_is_locked(False)\n  try:", "  _set_config_is_locked(False)\n  config_was_locked = config_is_locked()\n  try:"),
  S('lock-before-hooks', 'C12.finalize-order', C, "    raise RuntimeError('Finalize called twice (config already locked).')\n\n  bindings = {}", "    raise RuntimeError('Finalize called twice (config already locked).')\n  _set_config_is_locked(True)\n\n  bindings = {}"),
  S('bind-inside-hook-loop', 'C12.finalize-order', C, "        bindings[pbk] = value\n\n  for pbk, value in bindings.items():\n    bind_parameter(pbk, value)\n", "        bindings[pbk] = value\n        bind_parameter(pbk, value)\n"),
  S('double-finalize-allowed', 'C12.finalize-order', C, "  if config_is_locked():\n    raise RuntimeError('Finalize called twice (config already locked).')\n", ""),
  S('conflict-check-dropped', 'C12.finalize-order', C, "        if pbk in bindings:\n          err_str = 'Received conflicting updates when running {}.'\n          raise ValueError(err_str.format(hook))\n", ""),
  S('hooks-see-a-copy', 'C12.finalize-order', C, "    new_bindings = hook(_CONFIG)", "    new_bindings = hook(dict(bindings))"),
  S('never-locks', 'C12.finalize-order', C, "    bind_parameter(pbk, value)\n\n  _set_config_is_locked(True)\n", "    bind_parameter(pbk, value)\n"),
  S('eq-typo', 'C12.conflict', C, "  def __eq__(self, other):\n    # Equality ignores", "  def __equal__(self, other):\n    # Equality ignores"),
  S('clear-keeps-lock', 'C12.clear', C, "  _set_config_is_locked(False)\n  _CONFIG.clear()", "  _CONFIG.clear()"),
  S('required-hook-unregistered', 'C12.hooks', C, "@register_finalize_hook\ndef find_missing_overrides_hook(config):", "def find_missing_overrides_hook(config):"),
  S('unknown-refs-hook-silent', 'C12.hooks', C, "          additional_msg = additional_msg_fmt.format(binding_key)\n          _raise_unknown_reference_error(maybe_unknown, additional_msg)", "          additional_msg = additional_msg_fmt.format(binding_key)\n          logging.warning(additional_msg)"),
]
