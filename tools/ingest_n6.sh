#!/bin/bash
# ingest_n3.sh C13 ...   (round-3 natural refactorings from /tmp/n6_<id>/ref_{g,h,i})
for p in "$@"; do
for r in p q r; do /verif/tools/try_refactor.py /tmp/n6_$p ref_$r ${p}r$r 2>&1 | python3 -c "
import json,sys
t=sys.stdin.read(); d=json.loads(t[t.index('{'):])
print(d['id'], d['confirmed'], {k:(v['exit'], v['msg'][:4]) for k,v in d['alarms'].items()})"; done; done
