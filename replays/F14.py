from _common import *
import threading
n = []; b = threading.Barrier(2, timeout=5)
def ctor():
  n.append(1)
  try: b.wait()
  except threading.BrokenBarrierError: pass
  return object()
res = []
def w(): res.append(config.singleton_value('k', ctor))
ts = [threading.Thread(target=w) for _ in range(2)]
[t.start() for t in ts]; [t.join() for t in ts]
done(len(n) > 1, "two threads first-using one singleton: constructor ran %d time(s), same object: %s" % (len(n), res[0] is res[1]))
