from ._h import S
C = 'config.py'
SEEDS = [
  S('macro-not-evaluated', 'C05.late', C, "    return ConfigurableReference(name + '/gin.macro', True)", "    return ConfigurableReference(name + '/gin.macro', False)"),
  S('macro-eager-lookup', 'C05.late', C, "    return ConfigurableReference(name + '/gin.macro', True)", "    if (name, 'gin.macro') in _CONFIG:\n      return _CONFIG[name, 'gin.macro']['value']\n    return ConfigurableReference(name + '/gin.macro', True)"),
  S('delegate-key-typo', 'C05.key', C, "        return ConfigurableReference(name + '/gin.constant', True)", "        return ConfigurableReference(name + '/gin.constants', True)"),
  S('consumer-key-mismatch', 'C05.key', C, "            bind_parameter((macro_name, 'gin.macro', 'value'), value, location)", "            bind_parameter((macro_name, 'gin.macro', 'val'), value, location)"),
  S('macro-scope-drops-scope', 'C05.key', C, "          macro_name = '{}/{}'.format(scope, selector) if scope else selector", "          macro_name = selector"),
  S('constant-copied', 'C05.identity', C, "  return _CONSTANTS[current_scope_str()]", "  return copy.copy(_CONSTANTS[current_scope_str()])"),
  S('macro-copied', 'C05.identity', C, '  """A Gin macro."""\n  return value', '  """A Gin macro."""\n  return copy.deepcopy(value)'),
  S('duplicate-constant-allowed', 'C05.constant-guards', C, "  if not _INTERACTIVE_MODE and _CONSTANTS.matching_selectors(name):", "  if not _INTERACTIVE_MODE and name in _CONSTANTS and False:"),
  S('invalid-constant-name-allowed', 'C05.constant-guards', C, "  if not config_parser.MODULE_RE.match(name):\n    raise ValueError(\"Invalid constant selector '{}'.\".format(name))\n", ""),
  S('ambiguous-constant-first-match', 'C05.constant-guards', C, "      if len(matching_selectors) == 1:\n        name = matching_selectors[0]", "      if len(matching_selectors) >= 1:\n        name = matching_selectors[0]"),
  S('macro-hook-unregistered', 'C05.hook', C, "@register_finalize_hook\ndef validate_macros_hook(config):", "def validate_macros_hook(config):"),
  S('macro-hook-no-evaluation-check', 'C05.hook', C, "    validate_reference(ref, require_evaluation=True)", "    validate_reference(ref)"),
  S('unbound-macro-accepted', 'C05.hook', C, "  if require_bindings and ref.config_key not in _CONFIG:", "  if require_bindings and ref.config_key in _CONFIG:"),
]
