from ._h import S
C = 'config.py'
SEEDS = [
  S('class-level-symbol-table', 'C19.per-file', C, "  def __init__(self, import_manager=None):\n    \"\"\"Initializes the instance.", "  _shared_symbols = {}\n\n  def __init__(self, import_manager=None):\n    \"\"\"Initializes the instance."),
  S('symbol-table-shared-default', 'C19.per-file', C, "    self._symbol_table = {}\n    self._symbol_source = {}", "    self._symbol_table = _parse_context()._symbol_table if _PARSE_CONTEXTS else {}\n    self._symbol_source = {}"),
  S('includes-reuse-enclosing-context', 'C19.per-file', C, "  with _parse_scope() as parse_context:\n    for statement in parser:", "  parse_context = _parse_context()\n  if True:\n    for statement in parser:"),
  S('fallback-to-registry', 'C19.own-imports', C, "      attr_names, attr_values = self._resolve_selector(selector)\n", "      try:\n        attr_names, attr_values = self._resolve_selector(selector)\n      except NameError:\n        return _REGISTRY.get_match(selector)\n"),
  S('symbol-from-any-context', 'C19.own-imports', C, "    module = self._symbol_table.get(symbol, not_found)\n", "    module = self._symbol_table.get(symbol, not_found)\n    for other in _PARSE_CONTEXTS:\n      if module is not_found:\n        module = other._symbol_table.get(symbol, not_found)\n"),
  S('reserved-gin-allowed', 'C19.guards', C, "        if name == 'gin':\n          raise ValueError(", "        if name == 'gin' and statement.alias:\n          raise ValueError("),
  S('late-enabling-allowed', 'C19.guards', C, "        if self._imports:\n          existing_imports = [stmt.format() for stmt in self._imports]\n          raise SyntaxError(", "        if self._imports and self._dynamic_registration:\n          existing_imports = [stmt.format() for stmt in self._imports]\n          raise SyntaxError("),
  S('unknown-feature-ignored', 'C19.guards', C, "        raise SyntaxError(  # pylint: disable=raising-format-tuple\n            \"Unrecognized __gin__ feature '{feature}'.\", statement.location)", "        pass"),
  S('aliased-enable-allowed', 'C19.guards', C, "      if statement.alias:\n        raise SyntaxError('__gin__ imports do not support `as` aliasing.',\n                          statement.location)\n", ""),
  S('registers-by-name-lookup', 'C19.exact-object', C, "    _make_configurable(\n        fn_or_cls,\n        name=fn_or_cls_name,", "    _make_configurable(\n        getattr(path_attrs[-1], fn_or_cls_name, fn_or_cls),\n        name=fn_or_cls_name,"),
  S('references-not-reinitialised', 'C19.exact-object', C, "      for reference in iterate_references(_CONFIG, to=original.wrapper):\n        reference.initialize()", "      pass"),
  S('alias-not-uniquified', 'C19.unique-names', C, "    unique_name = _uniquify_name(statement.bound_name(), self.names)", "    unique_name = statement.bound_name()"),
  S('selector-recorded-before-realias', 'C19.unique-names', C, "    if statement.is_from or statement.alias:\n      selector = statement.bound_name()\n    else:\n      selector = statement.module\n    self.module_selectors[statement.module] = selector\n    self.names.add(statement.bound_name())", "    self.names.add(statement.bound_name())").copy(),
]
