from _common import *
import tempfile, os
d = tempfile.mkdtemp(); os.mkdir(os.path.join(d, 'plaindir')); sys.path.insert(0, d)
try:
  gin.parse_config_file('plaindir/missing.gin')
  done(True, "no error?")
except IOError as e:
  done(False, "missing file in a namespace dir raises IOError")
except TypeError as e:
  done(True, "missing file in a namespace dir raises TypeError: %s" % e)
finally:
  import shutil; shutil.rmtree(d)
