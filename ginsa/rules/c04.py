"""C04 References deliver the configurable or a fresh result, in the right scope."""
import ast

from ..cfg import witness
from ..core import AnalysisError, u, walk_local
from ..lib import construct, std_facts, def_of, copy_kind, returns_of, calls_of_node, expand_expr
from .wrapper import WrapperModel
from .common import allowed_stores, instance_state, scope_copy_out


def run(ctx):
  prog = ctx.prog
  ctx.assume('T3', 'T4')
  allowed_stores(ctx, 'C04.per-call', {
      'config._make_gin_wrapper': {'_RENAMED_SELECTORS', '_OPERATIVE_CONFIG', '_OPERATIVE_CONFIG_LOCK', '_REGISTRY'},
      'config._decorate_with_scope': set(),
      'config.ConfigurableReference.__deepcopy__': set(),
  }, 'references must be evaluated anew per call and run under exactly their scope; state kept between calls changes that')
  instance_state(ctx, 'C04.deepcopy-shape', 'config.ConfigurableReference',
                 {'_scoped_selector', '_evaluate', '_scopes', '_selector', '_configurable', '_scoped_configurable_fn'},
                 'a reference object may not carry a cached result or other state between evaluations')
  w = WrapperModel(ctx)
  f, g, facts = w.f, w.g, w.facts
  con = construct(f)
  if w.B is None:
    ctx.fail('C04.per-call', con, 'gin_wrapper no longer fetches the bindings per call', f.loc())
    return
  X = w.dstar[0] if w.dstar else None
  Xn = X.id if isinstance(X, ast.Name) else None

  dcs = isolate(ctx, w, 'C04.isolate')
  ctx.hold('C04.per-call', con, 'the deepcopy (which evaluates references, T4) sits in the per-call closure gin_wrapper, not in the factory',
           f.loc(), instance='closure') if dcs else None
  fac_dc = [c for c in walk_local(w.factory.node) if isinstance(c, ast.Call) and u(c.func) in ('copy.deepcopy', 'deepcopy')]
  ctx.check(not fac_dc, 'C04.per-call', construct(w.factory), 'the factory evaluates nothing ahead of time',
            'the factory deep-copies (evaluates) values once at registration', w.factory.loc(), instance='factory')

  gb = ctx.func('config.get_bindings')
  g2, facts2 = std_facts(prog, gb)
  rets = [n for n in g2.live_nodes() if n.kind == 'return' and n.ast.value is not None]
  ok = True
  for r in rets:
    resolve = ('c', 'resolve_references', True) in facts2[r.id]
    if resolve and copy_kind(r.ast.value) != 'DEEP':
      ok = False
  ctx.check(ok and rets, 'C04.isolate', construct(gb), 'get_bindings(resolve_references=True) hands out a deep copy',
            'get_bindings(resolve_references=True) returns stored objects without deepcopy', gb.loc(), instance='get_bindings')

  # ---- C04.deepcopy-shape
  cr = ctx.cls('config.ConfigurableReference')
  dc = cr.methods.get('__deepcopy__')
  if dc is None:
    ctx.fail('C04.deepcopy-shape', 'gin/config.py::ConfigurableReference', 'ConfigurableReference no longer defines __deepcopy__: '
             'references are copied, never evaluated', 'gin/config.py:%d' % cr.node.lineno)
  else:
    g3, facts3 = std_facts(prog, dc)
    rets = [n for n in g3.live_nodes() if n.kind == 'return']
    okshape = bool(rets)
    detail = []
    for r in rets:
      v = expand_expr(facts3[r.id], r.ast.value) if r.ast.value is not None else None
      ev_true = ('c', 'self._evaluate', True) in facts3[r.id]
      ev_false = ('c', 'self._evaluate', False) in facts3[r.id]
      fn_attr = 'self._scoped_configurable_fn'
      if isinstance(v, ast.Call) and u(v.func) == fn_attr and not v.args and not v.keywords:
        if not ev_true:
          okshape = False
          detail.append('line %d calls the configurable although evaluation was not requested' % r.lineno)
      elif v is not None and u(v) == fn_attr:
        if not ev_false:
          okshape = False
          detail.append('line %d returns the configurable uncalled on a path where evaluation was requested' % r.lineno)
      else:
        okshape = False
        detail.append('line %d returns `%s`' % (r.lineno, u(v) if v is not None else None))
    ctx.check(okshape, 'C04.deepcopy-shape', construct(dc),
              '__deepcopy__ returns the call of the scoped configurable iff the reference is evaluated, else the scoped configurable itself',
              '__deepcopy__: %s' % '; '.join(detail), dc.loc(), sites=len(rets), instance='evaluate-iff')
    writes = [n for n in walk_local(dc.node) if (isinstance(n, (ast.Attribute, ast.Subscript)) and isinstance(n.ctx, ast.Store))]
    memo = dc.params[1] if len(dc.params) > 1 else 'memo'
    memo_use = [n for n in walk_local(dc.node) if isinstance(n, ast.Name) and n.id == memo]
    ctx.check(not writes and not memo_use, 'C04.deepcopy-shape', construct(dc),
              '__deepcopy__ caches nothing (writes neither self nor memo): an evaluated reference runs anew every time',
              '__deepcopy__ stores state (%s): the result of one evaluation could be reused for later calls'
              % [u(x) for x in writes + memo_use][:3], dc.loc(), instance='no-cache')

  # ---- C04.not-when-supplied
  if dcs:
    dnode = dcs[0][0]
    removed = w.removed_before(w.B, dnode.id)
    have_pos = [pl for pl in removed if pl.names == w.posnames and pl.excluded in (None, w.req_pos_names)]
    have_kw = [pl for pl in removed if pl.names in (w.K, w.K + '.keys()', 'list(%s)' % w.K) and pl.excluded in (None, w.req_kw)]
    ctx.check(bool(have_pos), 'C04.not-when-supplied', con,
              'names supplied positionally (not REQUIRED) are removed from the bindings before the evaluating deepcopy',
              'names supplied positionally are not removed before the deepcopy: a reference bound to a parameter the caller passes positionally is still called',
              w.loc(dnode), instance='positional')
    ctx.check(bool(have_kw), 'C04.not-when-supplied', con,
              'names supplied by keyword (not REQUIRED) are removed from the bindings before the evaluating deepcopy',
              'names the caller supplies by keyword are still in the bindings when `copy.deepcopy` evaluates them: with `f.x = @g()`, '
              'the call `f(x=3)` still calls g (the result is discarded afterwards by the final update)', w.loc(dnode), instance='keyword')

  # ---- C04.scope
  ds = ctx.func('config._decorate_with_scope')
  sw = ctx.func('config._decorate_with_scope.scope_decorator.scoping_wrapper')
  # the scope-components parameter of the helper: the one handed to config_scope in the wrapper
  scope_param = next((u(ce.args[0]) for wi_ in walk_local(sw.node) if isinstance(wi_, ast.With) for it_ in wi_.items
                      for ce in [it_.context_expr] if isinstance(ce, ast.Call) and prog.resolve_call(sw, ce) == 'config.config_scope' and len(ce.args) == 1
                      and u(ce.args[0]) in ds.params), ds.params[1] if len(ds.params) > 1 else None)
  withs = [n for n in walk_local(sw.node) if isinstance(n, ast.With)]
  ok = False
  for wi in withs:
    for it in wi.items:
      ce = it.context_expr
      if isinstance(ce, ast.Call) and prog.resolve_call(sw, ce) == 'config.config_scope' and len(ce.args) == 1 \
          and u(ce.args[0]) == scope_param:
        inner = [c for c in walk_local(wi) if isinstance(c, ast.Call) and isinstance(c.func, ast.Name) and c.func.id == 'fn_or_cls']
        allc = [c for c in walk_local(sw.node) if isinstance(c, ast.Call) and isinstance(c.func, ast.Name) and c.func.id == 'fn_or_cls']
        # every call of the wrapped configurable is inside the with, and the with is unconditional
        uncond = wi.parent is sw.node
        ok = bool(inner) and len(inner) == len(allc) and uncond
  ctx.check(ok, 'C04.scope', construct(sw), 'a scoped reference calls the configurable inside `with config_scope(<its scope components>)`',
            'the scoping wrapper does not (on every path) enter config_scope with the reference\'s own scope list around the call: under some ambient scopes the reference runs under the ambient scope instead of exactly its own', sw.loc(), instance='enter')
  # two references to one configurable written with different scopes are equal by __eq__ (which ignores how a reference is
  # spelled) and are kept apart as dict keys only by their hash: the hash has to see the scope
  hm = cr.methods.get('__hash__')
  if hm is not None:
    reads = set()
    for r_ in [x for x in walk_local(hm.node) if isinstance(x, ast.Return) and x.value is not None]:
      for x in ast.walk(r_.value):
        if isinstance(x, ast.Attribute) and isinstance(x.value, ast.Name) and x.value.id == hm.params[0]:
          reads.add(x.attr)
        if isinstance(x, ast.Call) and u(x.func) in ('repr', 'str') and x.args and u(x.args[0]) == hm.params[0]:
          reads.add('<repr>')
    scope_aware = bool(reads & {'<repr>', '_scopes', 'scopes', '_scoped_selector', 'scoped_selector', 'config_key'})
    ctx.check(scope_aware, 'C04.scope', construct(hm), 'the hash of a reference depends on its scope (differently scoped references stay distinct dict keys)',
              'ConfigurableReference.__hash__ reads only %s: `{@a/f(): 1, @b/f(): 2}` collapses to one key (equality ignores the scope), so one of the '
              'references is silently dropped and never called under its scope' % sorted(reads), hm.loc(), instance='hash-sees-scope')
  from .common import bindings_result_fresh
  bindings_result_fresh(ctx, 'C04.isolate')
  init = cr.methods.get('initialize')
  star = [n for n in walk_local(init.node) if isinstance(n, ast.Assign) and isinstance(n.targets[0], ast.Tuple)
          and any(isinstance(e, ast.Starred) and u(e.value) == 'self._scopes' for e in n.targets[0].elts)
          and u(n.value).replace(' ', '') == "self._scoped_selector.split('/')"]
  dcall = [c for c in walk_local(init.node) if isinstance(c, ast.Call) and prog.resolve_call(init, c) == ds.qual]
  okl = bool(star) and bool(dcall) and any(u(k.value) == 'self._scopes' for c in dcall for k in c.keywords) or \
      (bool(star) and any(len(c.args) > 1 and u(c.args[1]) == 'self._scopes' for c in dcall))
  ctx.check(okl, 'C04.scope', construct(init),
            "the scope handed to the wrapper is the *list* of '/'-components (a list replaces the active scope: exactly the reference's scope)",
            'the reference scope is no longer passed as the list of its components (a str would be appended to the ambient scope)', init.loc(), instance='list-scope')
  rets = [n for n in walk_local(ds.node) if isinstance(n, ast.Return) and not isinstance(n.parent, ast.FunctionDef) or
          (isinstance(n, ast.Return) and n.parent is ds.node)]
  g4, facts4 = std_facts(prog, ds)
  bare = [n for n in g4.live_nodes() if n.kind == 'return' and ('c', scope_param, False) in facts4[n.id]]
  ok = bool(bare) and all(u(n.ast.value) == ds.params[0] + '.wrapper' for n in bare)
  if not bare:
    # the helper always decorates; then every caller must take the bare wrapper itself when there is no scope
    sites = prog.call_sites_of(ds.qual)
    ok = bool(sites)
    for cf, call in sites:
      arg = next((k.value for k in call.keywords if k.arg == scope_param), None)
      if arg is None and scope_param in ds.params and ds.params.index(scope_param) < len(call.args):
        arg = call.args[ds.params.index(scope_param)]
      gc_, fc_ = std_facts(prog, cf)
      fs_ = None
      for cn in gc_.live_nodes():
        if cn.ast is not None and cn.kind in ('stmt', 'return', 'test') and any(x is call for x in ast.walk(cn.ast)):
          fs_ = fc_[cn.id]
      scoped_here = arg is not None and fs_ is not None and ('c', u(arg), True) in fs_
      # and the other branch uses <configurable>.wrapper
      other = [cn for cn in gc_.live_nodes() if cn.ast is not None and cn.kind in ('stmt', 'return') and arg is not None
               and ('c', u(arg), False) in fc_[cn.id] and u(getattr(cn.ast, 'value', None)).endswith('.wrapper')]
      ok = ok and scoped_here and bool(other)
  ctx.check(ok, 'C04.scope', construct(ds), 'an unscoped reference yields the bare wrapper (runs under the ambient scope)',
            'an unscoped reference no longer yields the bare wrapper', ds.loc(), instance='unscoped')
  scope_copy_out(ctx, 'C04.scope')
  from .c15 import reference_delegate
  reference_delegate(ctx, 'C04.reference')


def isolate(ctx, w, rule):
  """TAINT: stored values reach the wrapped call only through copy.deepcopy (per call)."""
  prog = ctx.prog
  f, g, facts = w.f, w.g, w.facts
  con = construct(f)
  X = w.dstar[0] if w.dstar else None
  Xn = X.id if isinstance(X, ast.Name) else None
  # ---- C04.isolate / per-call: store values reach the call only through deepcopy
  dcs = [(n, t, src) for n, t, src in w.deepcopies if src == w.B or (Xn and t == Xn)]
  if not dcs:
    ctx.fail(rule, con,
             'the bindings reach the wrapped call without copy.deepcopy (in the per-call wrapper): the callee receives the very '
             'objects held in the binding store, so mutating a received list/dict changes what later calls, queries and config '
             'strings see, and evaluated references nested in containers are not evaluated per call', w.loc(w.call_node), instance='deepcopy')
  else:
    dn = [n for n, _, _ in dcs]
    esc = witness(g, w.get_node.id, [w.call_node.id], avoid=[n.id for n in dn])
    ok = esc is None
    # after the deepcopy nothing re-assigns the mapping from an uncopied source
    late = []
    for n, t, src in dcs:
      reach = g.reachable_from(n.id) - {n.id}
      for m in g.live_nodes():
        if m.id in reach and m.kind == 'stmt' and isinstance(m.ast, ast.Assign) and u(m.ast.targets[0]) == t \
            and g.reaches(m.id, w.call_node.id) and m.id != n.id:
          late.append(m)
      # updates from the *store* after the copy
      for m in g.live_nodes():
        if m.id in reach and m.kind == 'stmt' and isinstance(m.ast, ast.Expr) and isinstance(m.ast.value, ast.Call) \
            and u(m.ast.value.func) == t + '.update' and u(m.ast.value.args[0]) != w.K:
          late.append(m)
    ctx.check(ok and not late, rule, con,
              'every path from fetching the bindings to the wrapped call passes `copy.deepcopy` of the bindings, and nothing uncopied is merged in afterwards',
              'the wrapped call can receive un-copied stored values%s' %
              (': `%s` (line %d) after the copy' % (late[0].text(), late[0].lineno) if late else ' (a path bypasses the deepcopy)'),
              w.loc(w.call_node), sites=len(g.live_nodes()), instance='deepcopy')
    # substitutions into positional args use the copied mapping
    subs = [n for n in g.live_nodes() if n.kind == 'stmt' and isinstance(n.ast, ast.Assign)
            and isinstance(n.ast.targets[0], ast.Subscript) and w.star and u(n.ast.targets[0].value) == u(w.star[0])]
    for sn in subs:
      ok = witness(g, g.entry.id, [sn.id], avoid=[n.id for n in dn]) is None
      src_ok = any(isinstance(c.func, ast.Attribute) and u(c.func.value) in {t for _, t, _ in dcs} for c in calls_of_node(sn)) or \
          any(isinstance(x, ast.Subscript) and u(x.value) in {t for _, t, _ in dcs} for x in ast.walk(sn.ast.value))
      ctx.check(ok and src_ok, rule, con, 'values substituted for REQUIRED positionals come from the deep-copied mapping',
                'a value substituted into the positional arguments does not come from the deep-copied mapping', w.loc(sn), instance='positional-subst')
  return dcs
