"""Model of `_make_gin_wrapper.gin_wrapper` shared by C01, C04, C07, C10.

Roles are discovered from the code (which variable holds the bindings, which
is handed to the wrapped call, ...), not assumed by name.
"""
import ast

from ..core import AnalysisError, u, walk_local, enclosing_stmt, ancestors
from ..lib import std_facts, calls_of_node, stored_names, in_subtree, def_of, names_of_text

FACTORY = 'config._make_gin_wrapper'
WRAPPER = 'config._make_gin_wrapper.gin_wrapper'
REQ = 'REQUIRED'


class PopLoop:
  """`for n in NAMES: if n not in EXC: D.pop(n, None)` (or `del`/comprehension)."""

  def __init__(self, node, target, names, excluded, loop):
    self.node = node          # CFG node of the pop statement
    self.target = target      # dict variable popped from
    self.names = names        # text of the iterated expression
    self.excluded = excluded  # text of the exclusion container or None
    self.loop = loop          # CFG node of the `for`


class WrapperModel:

  def __init__(self, ctx):
    prog = ctx.prog
    self.ctx = ctx
    self.factory = ctx.func(FACTORY)
    self.f = f = ctx.func(WRAPPER)
    a = f.node.args
    if a.vararg is None or a.kwarg is None:
      raise AnalysisError('gin_wrapper no longer takes *args, **kwargs')
    self.A = a.vararg.arg
    self.K = a.kwarg.arg
    self.g, self.facts = std_facts(prog, f)
    g = self.g
    # the wrapped call
    fn_param = self.factory.params[0]
    calls = []
    for n in g.live_nodes():
      for c in calls_of_node(n):
        if isinstance(c.func, ast.Name) and c.func.id == fn_param:
          calls.append((n, c))
    self.calls = calls
    if not calls:
      raise AnalysisError('gin_wrapper no longer calls the wrapped function `%s`' % fn_param)
    self.call_node, self.call = calls[0]
    self.star = [x.value for x in self.call.args if isinstance(x, ast.Starred)]
    self.dstar = [k.value for k in self.call.keywords if k.arg is None]
    # the bindings variable
    self.B = None
    self.get_node = None
    for n in g.live_nodes():
      s = n.ast
      if n.kind == 'stmt' and isinstance(s, ast.Assign) and isinstance(s.value, ast.Call) \
          and prog.resolve_call(f, s.value) == 'config._get_bindings' and isinstance(s.targets[0], ast.Name):
        self.B = s.targets[0].id
        self.get_node = n
    # deepcopy nodes: X = copy.deepcopy(Y)
    self.deepcopies = []
    for n in g.live_nodes():
      s = n.ast
      if n.kind == 'stmt' and isinstance(s, ast.Assign) and isinstance(s.value, ast.Call) \
          and u(s.value.func) in ('copy.deepcopy', 'deepcopy') and isinstance(s.targets[0], ast.Name):
        self.deepcopies.append((n, s.targets[0].id, u(s.value.args[0]) if s.value.args else None))
    # positional names variable
    self.posnames = None
    for n in g.live_nodes():
      s = n.ast
      if n.kind == 'stmt' and isinstance(s, ast.Assign) and isinstance(s.value, ast.Call) \
          and prog.resolve_call(f, s.value) == 'config._get_supplied_positional_parameter_names':
        self.posnames = u(s.targets[0])
    # REQUIRED collections
    flow = self._flow_collectors()
    self.req_pos_pairs = self._pairs_collector() or flow.get('RP-pairs')
    self.req_pos_names = self._collector(self.A, indexes=False) or flow.get('RP-names') or self._from_pairs(1)
    self.req_pos_idx = self._collector(self.A, indexes=True) or flow.get('RP-idx') or self._from_pairs(0)
    self.req_kw = self._collector(self.K, indexes=False) or flow.get('RK-names')
    if self.req_pos_names is None and self.req_pos_idx is None and self.req_pos_pairs is None:
      # the wrapper does look for the marker among the positionals, but keeps what it finds in a form that is not read here
      # (a name -> index mapping, a bit mask, ...): undecided rather than "not handled"
      marks = [c for c in walk_local(f.node) if isinstance(c, ast.Compare) and len(c.ops) == 1 and isinstance(c.ops[0], (ast.Is, ast.IsNot))
               and u(c.comparators[0]) == REQ]
      in_pos = [c for c in marks if any(isinstance(a, (ast.comprehension, ast.For)) and self.A in {x.id for x in ast.walk(a.iter) if isinstance(x, ast.Name)}
                                        and not (isinstance(a.iter, ast.Subscript) and isinstance(a.iter.slice, ast.Slice) and a.iter.slice.upper is None)
                                        for a in list(ancestors(c)) + [g_ for p_ in ancestors(c) if isinstance(p_, (ast.ListComp, ast.GeneratorExp, ast.DictComp, ast.SetComp)) for g_ in p_.generators])]
      if in_pos:
        raise AnalysisError('gin_wrapper records the REQUIRED positionals in a form the wrapper model cannot read (line %d: `%s`)'
                            % (in_pos[0].lineno, u(enclosing_stmt(in_pos[0]))[:120]))
    self.pop_loops = self._pop_loops()

  # -------------------------------------------------------------------------
  def _pairs_collector(self):
    """Name of a list of (index, name) pairs of the positionals whose value `is REQUIRED`."""
    f = self.f
    for a in walk_local(f.node):
      if isinstance(a, ast.Assign) and len(a.targets) == 1 and isinstance(a.targets[0], ast.Name) \
          and isinstance(a.value, ast.ListComp) and len(a.value.generators) == 1:
        c, gen = a.value, a.value.generators[0]
        if self.A in {n.id for n in ast.walk(gen.iter) if isinstance(n, ast.Name)} and 'enumerate' in u(gen.iter) \
            and isinstance(gen.target, ast.Tuple) and len(gen.target.elts) == 2 and isinstance(c.elt, ast.Tuple) and len(c.elt.elts) == 2 \
            and u(c.elt.elts[0]) == u(gen.target.elts[0]) and isinstance(c.elt.elts[1], ast.Subscript) and u(c.elt.elts[1].slice) == u(gen.target.elts[0]) \
            and any(isinstance(i, ast.Compare) and len(i.ops) == 1 and isinstance(i.ops[0], ast.Is) and u(i.comparators[0]) == REQ
                    and u(i.left) == u(gen.target.elts[1]) for i in gen.ifs):
          return a.targets[0].id
    for lp in walk_local(f.node):
      if isinstance(lp, ast.For) and self.A in {n.id for n in ast.walk(lp.iter) if isinstance(n, ast.Name)} and 'enumerate' in u(lp.iter) \
          and isinstance(lp.target, ast.Tuple) and len(lp.target.elts) == 2:
        for iff in walk_local(lp):
          if isinstance(iff, ast.If) and isinstance(iff.test, ast.Compare) and len(iff.test.ops) == 1 and isinstance(iff.test.ops[0], ast.Is) \
              and u(iff.test.comparators[0]) == REQ:
            for st in iff.body:
              if isinstance(st, ast.Expr) and isinstance(st.value, ast.Call) and isinstance(st.value.func, ast.Attribute) \
                  and st.value.func.attr == 'append' and st.value.args and isinstance(st.value.args[0], ast.Tuple) and len(st.value.args[0].elts) == 2 \
                  and u(st.value.args[0].elts[0]) == u(lp.target.elts[0]):
                return u(st.value.func.value)
    return None

  def _flow_collectors(self):
    """Lists filled by `X.append(E)` inside a loop over the (enumerated) positionals / the keywords,
    at a point where the value `is REQUIRED` holds (whatever the shape of the tests around it)."""
    out = {}
    g, facts = self.g, self.facts
    for n in g.live_nodes():
      s_ = n.ast
      if not (n.kind == 'stmt' and isinstance(s_, ast.Expr) and isinstance(s_.value, ast.Call) and isinstance(s_.value.func, ast.Attribute)
              and s_.value.func.attr == 'append' and isinstance(s_.value.func.value, ast.Name) and len(s_.value.args) == 1):
        continue
      for lp in [l for l in n.loops if isinstance(l, ast.For)]:
        src_names = {x.id for x in ast.walk(lp.iter) if isinstance(x, ast.Name)}
        if not (isinstance(lp.target, ast.Tuple) and len(lp.target.elts) == 2):
          continue
        k_, v_ = u(lp.target.elts[0]), u(lp.target.elts[1])
        if ('c', '%s is %s' % (v_, REQ), True) not in facts[n.id]:
          continue
        E = s_.value.args[0]
        X = s_.value.func.value.id
        if self.A in src_names and 'enumerate' in u(lp.iter):
          # either only the named positionals are enumerated, or the index is known to be below their number here
          it = lp.iter.args[0] if isinstance(lp.iter, ast.Call) and lp.iter.args else None
          named_only = isinstance(it, ast.Subscript) and isinstance(it.slice, ast.Slice) and it.slice.lower is None and it.slice.upper is not None
          below = any(f_[0] == 'c' and ((f_[2] is False and f_[1].replace(' ', '').startswith('%s>=len(' % k_)) or
                                       (f_[2] is True and f_[1].replace(' ', '').startswith('%s<len(' % k_))) for f_ in facts[n.id])
          if not (named_only or below):
            continue
          if isinstance(E, ast.Tuple) and len(E.elts) == 2 and u(E.elts[0]) == k_ and isinstance(E.elts[1], ast.Subscript) and u(E.elts[1].slice) == k_:
            out.setdefault('RP-pairs', X)
          elif isinstance(E, ast.Subscript) and u(E.slice) == k_:
            out.setdefault('RP-names', X)
          elif u(E) == k_:
            out.setdefault('RP-idx', X)
        elif self.K in src_names and u(E) == k_:
          out.setdefault('RK-names', X)
    return out

  def classify(self, e, depth=0):
    """What a list-valued expression holds: 'RP-pairs' ((index, name) of the REQUIRED positionals),
    'RP-names', 'RP-idx', 'RK-names' (REQUIRED keywords) or None."""
    if depth > 3:
      return None
    if isinstance(e, ast.Name):
      if e.id == self.req_pos_pairs:
        return 'RP-pairs'
      for kind, nm in (('RP-names', getattr(self, 'req_pos_names', None)), ('RP-idx', getattr(self, 'req_pos_idx', None)),
                       ('RK-names', getattr(self, 'req_kw', None))):
        if nm and e.id == nm:
          return kind
      defs = [a.value for a in walk_local(self.f.node) if isinstance(a, ast.Assign) and len(a.targets) == 1 and u(a.targets[0]) == e.id]
      if len(defs) == 1:
        return self.classify(defs[0], depth + 1)
      return None
    if isinstance(e, ast.Call) and u(e.func) in ('list', 'tuple') and len(e.args) == 1:
      return self.classify(e.args[0], depth + 1)
    if isinstance(e, (ast.ListComp, ast.SetComp, ast.GeneratorExp)) and len(e.generators) == 1:
      gen = e.generators[0]
      req = any(isinstance(i, ast.Compare) and len(i.ops) == 1 and isinstance(i.ops[0], ast.Is) and u(i.comparators[0]) == REQ for i in gen.ifs)
      src_names = {n.id for n in ast.walk(gen.iter) if isinstance(n, ast.Name)}
      if req and len(gen.ifs) == 1 and self.A in src_names and 'enumerate' in u(gen.iter) and isinstance(gen.target, ast.Tuple) and len(gen.target.elts) == 2 \
          and u(gen.ifs[0].left) == u(gen.target.elts[1]):
        i_, elt = u(gen.target.elts[0]), e.elt
        if isinstance(elt, ast.Tuple) and len(elt.elts) == 2 and u(elt.elts[0]) == i_ and isinstance(elt.elts[1], ast.Subscript) and u(elt.elts[1].slice) == i_:
          return 'RP-pairs'
        if isinstance(elt, ast.Subscript) and u(elt.slice) == i_:
          return 'RP-names'
        if u(elt) == i_:
          return 'RP-idx'
        return None
      if req and len(gen.ifs) == 1 and self.K in src_names and isinstance(gen.target, ast.Tuple) and len(gen.target.elts) == 2 \
          and u(gen.ifs[0].left) == u(gen.target.elts[1]) and u(e.elt) == u(gen.target.elts[0]):
        return 'RK-names'
      if not gen.ifs:
        inner = self.classify(gen.iter, depth + 1)
        if inner == 'RP-pairs' and isinstance(gen.target, ast.Tuple) and len(gen.target.elts) == 2:
          if u(e.elt) == u(gen.target.elts[1]):
            return 'RP-names'
          if u(e.elt) == u(gen.target.elts[0]):
            return 'RP-idx'
        if inner == 'RP-idx' and isinstance(e.elt, ast.Subscript) and u(e.elt.slice) == u(gen.target):
          return 'RP-names'
    return None

  def _from_pairs(self, k):
    """Name of a variable that holds component k of the REQUIRED positional pairs."""
    want = 'RP-names' if k == 1 else 'RP-idx'
    for a in walk_local(self.f.node):
      if isinstance(a, ast.Assign) and len(a.targets) == 1 and isinstance(a.targets[0], ast.Name) \
          and isinstance(a.value, (ast.ListComp, ast.SetComp)) and self.classify(a.value) == want:
        return a.targets[0].id
    return None

  def required_positional_loop(self, lp):
    """(index variable, name variable) if the `for` statement lp visits every REQUIRED positional."""
    if not isinstance(lp, ast.For) or not isinstance(lp.target, ast.Tuple) or len(lp.target.elts) != 2:
      return None
    it = lp.iter
    if self.classify(it) == 'RP-pairs':
      return u(lp.target.elts[0]), u(lp.target.elts[1])
    if isinstance(it, ast.Call) and u(it.func) == 'zip' and len(it.args) == 2:
      k0, k1 = self.classify(it.args[0]), self.classify(it.args[1])
      if (k0, k1) == ('RP-idx', 'RP-names'):
        return u(lp.target.elts[0]), u(lp.target.elts[1])
      if (k1, k0) == ('RP-idx', 'RP-names'):
        return u(lp.target.elts[1]), u(lp.target.elts[0])
    return None

  def _collector(self, source, indexes):
    """Name of the list that collects names (or indexes) of entries of
    `source` (the *args / **kwargs parameter) whose value `is REQUIRED`."""
    f = self.f
    # comprehension forms:  X = [elt for ... in <source...> if v is REQUIRED]
    comps = []
    for a in walk_local(f.node):
      if isinstance(a, ast.Assign) and len(a.targets) == 1 and isinstance(a.targets[0], ast.Name) \
          and isinstance(a.value, (ast.ListComp, ast.SetComp)) and len(a.value.generators) == 1:
        comps.append((a.targets[0].id, a.value))
    idx_lists = set()
    for name, c in comps:
      gen = c.generators[0]
      if source not in {n.id for n in ast.walk(gen.iter) if isinstance(n, ast.Name)}:
        continue
      if not any(isinstance(i, ast.Compare) and len(i.ops) == 1 and isinstance(i.ops[0], ast.Is) and u(i.comparators[0]) == REQ for i in gen.ifs):
        continue
      is_index = 'enumerate' in u(gen.iter) and isinstance(gen.target, ast.Tuple) and isinstance(c.elt, ast.Name) \
          and isinstance(gen.target.elts[0], ast.Name) and c.elt.id == gen.target.elts[0].id
      if is_index:
        idx_lists.add(name)
      if isinstance(c.elt, ast.Tuple):
        continue          # (index, name) pairs: see _pairs_collector
      if is_index == indexes:
        return name
    if not indexes:
      # names derived from an index list:  X = [names[i] for i in <index list>]
      for name, c in comps:
        gen = c.generators[0]
        if isinstance(gen.iter, ast.Name) and gen.iter.id in idx_lists and isinstance(c.elt, ast.Subscript) and not gen.ifs:
          return name
    for lp in walk_local(f.node):
      if not isinstance(lp, ast.For):
        continue
      if source not in {n.id for n in ast.walk(lp.iter) if isinstance(n, ast.Name)}:
        continue
      for iff in walk_local(lp):
        if isinstance(iff, ast.If) and isinstance(iff.test, ast.Compare) and len(iff.test.ops) == 1 \
            and isinstance(iff.test.ops[0], ast.Is) and u(iff.test.comparators[0]) == REQ:
          for st in iff.body:
            if isinstance(st, ast.Expr) and isinstance(st.value, ast.Call) and isinstance(st.value.func, ast.Attribute) \
                and st.value.func.attr == 'append' and st.value.args:
              arg = st.value.args[0]
              is_index = isinstance(arg, ast.Name) and isinstance(lp.target, ast.Tuple) and \
                  isinstance(lp.target.elts[0], ast.Name) and arg.id == lp.target.elts[0].id and 'enumerate' in u(lp.iter)
              if is_index == indexes:
                return u(st.value.func.value)
    return None

  def _pop_loops(self):
    out = []
    g = self.g
    for n in g.live_nodes():
      s = n.ast
      if n.kind != 'stmt' or not isinstance(s, ast.Expr) or not isinstance(s.value, ast.Call):
        continue
      c = s.value
      if not (isinstance(c.func, ast.Attribute) and c.func.attr == 'pop' and isinstance(c.func.value, ast.Name)):
        continue
      if len(c.args) != 2 or not isinstance(c.args[0], ast.Name):
        continue
      var = c.args[0].id
      loops = [l for l in n.loops if isinstance(l, ast.For) and isinstance(l.target, ast.Name) and l.target.id == var]
      if not loops:
        continue
      lp = loops[-1]
      # a removal loop that can stop early (break / return inside it) does not visit every name
      def leaves(stmts, depth=0):
        for x in stmts:
          if isinstance(x, ast.Return) or (isinstance(x, ast.Break) and depth == 0):
            return True
          if isinstance(x, (ast.FunctionDef, ast.ClassDef)):
            continue
          d2 = depth + 1 if isinstance(x, (ast.For, ast.While)) else depth
          for fld in ('body', 'orelse', 'finalbody'):
            if leaves(getattr(x, fld, []) or [], d2 if fld == 'body' else depth):
              return True
          for h in getattr(x, 'handlers', []) or []:
            if leaves(h.body, depth):
              return True
        return False
      if leaves(lp.body):
        continue
      exc = None
      conds = [f for f in self.facts[n.id] if f[0] == 'c' and var in f[1]]
      okc = True
      for fct in conds:
        t = ast.parse(fct[1], mode='eval').body
        if isinstance(t, ast.Compare) and len(t.ops) == 1 and isinstance(t.ops[0], ast.In) and u(t.left) == var and fct[2] is False:
          exc = u(t.comparators[0])
        else:
          okc = False   # some other condition restricts the pop
      if not okc:
        continue
      lpn = [x for x in g.live_nodes() if x.kind == 'for' and x.ast is lp]
      terms = self.nameset(lp.iter) or {(u(lp.iter), None)}
      for src, x in sorted(terms, key=str):
        out.append(PopLoop(n, c.func.value.id, src, exc if x is None else x, lpn[0] if lpn else None))
    # filtering by rebinding:  D = {k: v for k, v in D.items() if k not in S}
    for n in g.live_nodes():
      s_ = n.ast
      if n.kind == 'stmt' and isinstance(s_, ast.Assign) and len(s_.targets) == 1 and isinstance(s_.targets[0], ast.Name) \
          and isinstance(s_.value, ast.DictComp) and len(s_.value.generators) == 1:
        gen = s_.value.generators[0]
        d = s_.targets[0].id
        if u(gen.iter) == d + '.items()' and isinstance(gen.target, ast.Tuple) and len(gen.ifs) == 1 \
            and isinstance(gen.ifs[0], ast.Compare) and isinstance(gen.ifs[0].ops[0], ast.NotIn) and u(gen.ifs[0].left) == u(gen.target.elts[0]) \
            and u(s_.value.key) == u(gen.target.elts[0]) and u(s_.value.value) == u(gen.target.elts[1]):
          for src, x in sorted(self.nameset(gen.ifs[0].comparators[0]), key=str):
            out.append(PopLoop(n, d, src, x, n))
    return out

  def nameset(self, e, seen=frozenset()):
    """Terms (SRC, EXC) such that `e` evaluates to the names of SRC that are not in EXC."""
    f = self.f
    if isinstance(e, ast.Name):
      if e.id in (self.posnames, self.K):
        return {(e.id, None)}
      if e.id in seen:
        return set()
      out = set()
      found = False
      for a in walk_local(f.node):
        if isinstance(a, ast.Assign) and len(a.targets) == 1 and u(a.targets[0]) == e.id:
          found = True
          out |= self.nameset(a.value, seen | {e.id})
        elif isinstance(a, ast.AugAssign) and u(a.target) == e.id and isinstance(a.op, (ast.Add, ast.BitOr)):
          out |= self.nameset(a.value, seen | {e.id})
        elif isinstance(a, ast.Expr) and isinstance(a.value, ast.Call) and isinstance(a.value.func, ast.Attribute) \
            and u(a.value.func.value) == e.id and a.value.func.attr in ('extend', 'update') and a.value.args:
          out |= self.nameset(a.value.args[0], seen | {e.id})
      # X.append(v) / X.add(v) inside `for v in SRC`, reached only when `v not in EXC` (or unconditionally), by the facts at the append
      for n in self.g.live_nodes():
        s_ = n.ast
        if not (n.kind == 'stmt' and isinstance(s_, ast.Expr) and isinstance(s_.value, ast.Call) and isinstance(s_.value.func, ast.Attribute)
                and s_.value.func.attr in ('append', 'add') and u(s_.value.func.value) == e.id and len(s_.value.args) == 1
                and isinstance(s_.value.args[0], ast.Name)):
          continue
        var = s_.value.args[0].id
        loops = [l for l in n.loops if isinstance(l, ast.For) and isinstance(l.target, ast.Name) and l.target.id == var]
        if not loops:
          # for k, v in K.items(): ... X.append(k) where `v is REQUIRED` is known to be false
          for l in n.loops:
            if isinstance(l, ast.For) and isinstance(l.target, ast.Tuple) and len(l.target.elts) == 2 and u(l.target.elts[0]) == var \
                and u(l.iter) == self.K + '.items()' and self.req_kw:
              v_ = u(l.target.elts[1])
              conds = [f_ for f_ in self.facts[n.id] if f_[0] == 'c' and (var in names_of_text(f_[1]) or v_ in names_of_text(f_[1]))]
              if conds == [('c', '%s is %s' % (v_, REQ), False)]:
                out.add((self.K, self.req_kw))
          continue
        lp = loops[-1]
        exc, okc = None, True
        for fct in self.facts[n.id]:
          if fct[0] != 'c' or var not in names_of_text(fct[1]):
            continue
          t = ast.parse(fct[1], mode='eval').body
          if isinstance(t, ast.Compare) and len(t.ops) == 1 and isinstance(t.ops[0], ast.In) and u(t.left) == var and fct[2] is False and exc is None:
            exc = u(t.comparators[0])
          else:
            okc = False
        if okc:
          out |= {(src, exc if x is None else x) for src, x in self.nameset(lp.iter, seen | {e.id}) if x is None or exc is None}
      return out if found else set()
    if isinstance(e, (ast.ListComp, ast.SetComp, ast.GeneratorExp)) and len(e.generators) == 1:
      gen = e.generators[0]
      if not (isinstance(gen.target, ast.Name) and isinstance(e.elt, ast.Name) and e.elt.id == gen.target.id):
        return set()
      exc = None
      for i in gen.ifs:
        if isinstance(i, ast.Compare) and len(i.ops) == 1 and isinstance(i.ops[0], ast.NotIn) and u(i.left) == gen.target.id:
          exc = u(i.comparators[0])
        else:
          return set()
      return {(src, exc if x is None else x) for src, x in self.nameset(gen.iter, seen)}
    if isinstance(e, ast.BinOp) and isinstance(e.op, (ast.Add, ast.BitOr)):
      return self.nameset(e.left, seen) | self.nameset(e.right, seen)
    if isinstance(e, ast.BinOp) and isinstance(e.op, ast.Sub):
      r = e.right
      if isinstance(r, ast.Call) and u(r.func) in ('set', 'frozenset') and len(r.args) == 1:
        r = r.args[0]
      return {(src, u(r)) for src, x in self.nameset(e.left, seen) if x is None}
    if isinstance(e, ast.Call):
      fn = u(e.func)
      if fn in ('set', 'list', 'tuple', 'sorted', 'frozenset') and len(e.args) == 1:
        return self.nameset(e.args[0], seen)
      if fn in ('itertools.chain',):
        out = set()
        for a in e.args:
          out |= self.nameset(a, seen)
        return out
      if isinstance(e.func, ast.Attribute) and e.func.attr == 'keys' and not e.args:
        return self.nameset(e.func.value, seen)
      if isinstance(e.func, ast.Attribute) and e.func.attr == 'difference' and len(e.args) == 1:
        return {(src, u(e.args[0]) if x is None else x) for src, x in self.nameset(e.func.value, seen) if x is None or x == u(e.args[0])}
      if isinstance(e.func, ast.Attribute) and e.func.attr == 'union' and e.args:
        out = self.nameset(e.func.value, seen)
        for a in e.args:
          out |= self.nameset(a, seen)
        return out
    if isinstance(e, (ast.List, ast.Tuple)) and all(isinstance(x, ast.Starred) for x in e.elts) and e.elts:
      out = set()
      for x in e.elts:
        out |= self.nameset(x.value, seen)
      return out
    return set()

  def removed_before(self, target, node_id):
    """Texts of NAMES collections whose non-excluded members are popped from
    `target` on every path before CFG node `node_id`."""
    from ..cfg import witness
    res = []
    for pl in self.pop_loops:
      if pl.target != target or pl.loop is None:
        continue
      # the loop header must be passed on every path to node_id
      if witness(self.g, self.g.entry.id, [node_id], avoid=[pl.loop.id]) is None and \
          not self.g.reaches(node_id, pl.loop.id):
        res.append(pl)
    return res

  def writes_to(self, var):
    """CFG nodes that rebind or mutate `var`."""
    return [n for n in self.g.live_nodes() if var in stored_names(n)]

  def loc(self, node=None):
    return self.f.loc(node.ast if hasattr(node, 'ast') else node)
