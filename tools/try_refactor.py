#!/venv/bin/python
"""Confirms a behaviour-preserving refactoring and checks that NO check raises an alarm on it.

usage: try_refactor.py <worktree_dir> <ref_x> <keep-id>
  <worktree_dir>/demo.py (shared) and <worktree_dir>/<ref_x>/{patch.diff,meta.json}
Fresh scratch worktree of /repo: demo clean exit 0; apply; demo exit 0; baseline unchanged.
Then all 20 quick checks (--no-write --repo) against a second scratch worktree with the patch (tools/scratch.py); /repo is never written.
"""
import json, os, shutil, subprocess, sys, tempfile
sys.path.insert(0, os.path.dirname(os.path.abspath(__file__)))
from scratch import scratch
def sh(cmd, cwd=None, **kw):
  return subprocess.run(cmd, cwd=cwd, shell=isinstance(cmd, str), capture_output=True, text=True, **kw)
wtd, ref, keep = sys.argv[1], sys.argv[2], sys.argv[3]
d = os.path.join(wtd, ref)
patch = os.path.join(d, 'patch.diff'); demo = os.path.join(wtd, 'demo.py')
meta = json.load(open(os.path.join(d, 'meta.json')))
wt = tempfile.mkdtemp(prefix='ginsa_rf_'); os.rmdir(wt)
res = {'id': keep}
try:
  assert sh(['git', '-C', '/repo', 'worktree', 'add', '-q', '--detach', wt, 'HEAD']).returncode == 0
  shutil.copy(demo, os.path.join(wt, 'demo.py'))
  env = dict(os.environ, PYTHONPATH=wt)
  res['demo_clean'] = sh(['/venv/bin/python', 'demo.py'], cwd=wt, timeout=900, env=env).returncode
  a = sh(['git', 'apply', patch], cwd=wt)
  res['applies'] = a.returncode == 0
  if res['applies']:
    res['touched'] = sh('git diff --name-only', cwd=wt).stdout.split()
    res['changed_lines'] = sum(1 for l in open(patch) if l[:1] in '+-' and not l.startswith(('+++', '---')))
    r1 = sh(['/venv/bin/python', 'demo.py'], cwd=wt, timeout=900, env=env)
    res['demo_patched'] = r1.returncode
    rb = sh(['/verif/tools/baseline.py', wt], timeout=1200)
    res['baseline_ok'] = rb.returncode == 0
finally:
  sh(['git', '-C', '/repo', 'worktree', 'remove', '--force', wt]); shutil.rmtree(wt, ignore_errors=True)
res['confirmed'] = bool(res.get('applies') and res.get('demo_clean') == 0 and res.get('demo_patched') == 0 and res.get('baseline_ok'))
alarms = {}
if res.get('applies'):
  with scratch(patch) as (wt2, applied):
    if applied:
      import concurrent.futures
      def run(p):
        r = sh(['/verif/check', p, '--no-write', '--repo', wt2])
        return p, r.returncode, [l.strip()[:260] for l in r.stdout.splitlines() if 'rule=' in l or l.strip().startswith('at ') or 'ANALYSIS-ERROR' in l][:6]
      with concurrent.futures.ThreadPoolExecutor(16) as ex:
        for p, c, msg in ex.map(run, ['C%02d' % i for i in range(1, 21)]):
          if c != 0: alarms[p] = {'exit': c, 'msg': msg}
res['alarms'] = alarms
print(json.dumps(res, indent=1))
dst = os.path.join('/verif/refactors', keep); os.makedirs(dst, exist_ok=True)
shutil.copy(patch, os.path.join(dst, 'patch.diff')); shutil.copy(demo, os.path.join(dst, 'demo.py'))
meta['confirmed_by_main'] = {k: res.get(k) for k in ('demo_clean', 'demo_patched', 'baseline_ok', 'touched', 'changed_lines', 'confirmed')}
meta['alarms_first_run'] = alarms
json.dump(meta, open(os.path.join(dst, 'meta.json'), 'w'), indent=1)
