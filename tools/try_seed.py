#!/venv/bin/python
"""Confirms a seeded change and runs the checks against it.

usage: try_seed.py <seed_dir> [--keep-as <id>]
  seed_dir contains patch.diff, demo.py, meta.json (as produced by a sub-agent).
Steps (all in a fresh scratch worktree of /repo under /tmp, removed afterwards):
  1. demo on the clean tree must exit 0
  2. git apply patch; package must import; demo must exit 1
  3. the baseline test-suite result must be unchanged (128 stable tests pass)
Then every quick check is run with --no-write --repo against a second scratch
worktree that carries the patch (tools/scratch.py); /repo is never written.
"""
import json, os, shutil, subprocess, sys, tempfile
sys.path.insert(0, os.path.dirname(os.path.abspath(__file__)))
from scratch import scratch

def sh(cmd, cwd=None, **kw):
  return subprocess.run(cmd, cwd=cwd, shell=isinstance(cmd, str), capture_output=True, text=True, **kw)

def main():
  d = os.path.abspath(sys.argv[1])
  keep = sys.argv[3] if len(sys.argv) > 3 and sys.argv[2] == '--keep-as' else None
  patch = os.path.join(d, 'patch.diff'); demo = os.path.join(d, 'demo.py')
  meta = json.load(open(os.path.join(d, 'meta.json')))
  pid = meta.get('property')
  wt = tempfile.mkdtemp(prefix='ginsa_try_')
  os.rmdir(wt)
  res = {'property': pid, 'dir': d}
  try:
    r = sh(['git', '-C', '/repo', 'worktree', 'add', '-q', '--detach', wt, 'HEAD'])
    assert r.returncode == 0, r.stderr
    os.makedirs(os.path.join(wt, 'seedx'))
    shutil.copy(demo, os.path.join(wt, 'seedx', 'demo.py'))
    env = dict(os.environ, PYTHONPATH=wt)
    r0 = sh(['/venv/bin/python', 'seedx/demo.py'], cwd=wt, timeout=600, env=env)
    res['demo_clean'] = r0.returncode
    ra = sh(['git', 'apply', patch], cwd=wt)
    res['applies'] = ra.returncode == 0
    if not res['applies']:
      res['apply_err'] = ra.stderr[-300:]
    else:
      touched = sh('git diff --name-only', cwd=wt).stdout.split()
      res['touched'] = touched
      r1 = sh(['/venv/bin/python', 'seedx/demo.py'], cwd=wt, timeout=600, env=env)
      res['demo_patched'] = r1.returncode
      res['demo_out'] = (r1.stdout + r1.stderr)[-400:]
      rb = sh(['/verif/tools/baseline.py', wt], timeout=1200)
      res['baseline'] = rb.stdout.strip().splitlines()
      res['baseline_ok'] = rb.returncode == 0
  finally:
    sh(['git', '-C', '/repo', 'worktree', 'remove', '--force', wt])
    shutil.rmtree(wt, ignore_errors=True)
  res['confirmed'] = bool(res.get('applies') and res.get('demo_clean') == 0 and res.get('demo_patched') == 1 and res.get('baseline_ok')
                          and all(t.startswith('gin/') for t in res.get('touched', [])))
  # run the checks against /repo with the patch applied
  det = {}
  if res.get('applies'):
    with scratch(patch) as (wt2, applied):
      if applied:
        for i in range(1, 21):
          p = 'C%02d' % i
          r = sh(['/verif/check', p, '--no-write', '--repo', wt2])
          if r.returncode != 0:
            rules = sorted({l.split('rule=')[1].split()[0] for l in r.stdout.splitlines() if 'rule=' in l})
            det[p] = {'exit': r.returncode, 'rules': rules,
                      'msg': [l.strip() for l in r.stdout.splitlines() if l.strip().startswith('at ') or 'ANALYSIS-ERROR' in l][:3]}
  res['detected_by'] = det
  res['detected_own_property'] = pid in det and det[pid]['exit'] == 1
  print(json.dumps(res, indent=1))
  if keep:
    dst = os.path.join('/verif/seeded', keep)
    os.makedirs(dst, exist_ok=True)
    shutil.copy(patch, os.path.join(dst, 'patch.diff'))
    shutil.copy(demo, os.path.join(dst, 'demo.py'))
    meta['confirmed_by_main'] = {k: res.get(k) for k in ('demo_clean', 'demo_patched', 'baseline', 'baseline_ok', 'touched', 'confirmed')}
    meta['checks_that_report_it'] = det
    meta['what_was_run'] = 'tools/try_seed.py: fresh scratch worktree of /repo: demo.py clean (exit %s), git apply, demo.py patched (exit %s), tools/baseline.py (stable_pass unchanged: %s); then ./check C01..C20 --no-write --repo <second scratch worktree with the patch>' % (res.get('demo_clean'), res.get('demo_patched'), res.get('baseline_ok'))
    json.dump(meta, open(os.path.join(dst, 'meta.json'), 'w'), indent=1)

main()
