"""Local-name canonicalisation (robustness to behaviour-preserving renames).

The rules compare guard atoms and definitions as text, so they would notice a
pure renaming of a local variable, which changes nothing about behaviour.  To
keep such an edit from raising an alarm, every function's local variables and
parameters are mapped back to the names used on the reference tree before any
rule runs.  The mapping is structural, not textual: each binding of a local
gets a *fingerprint* (kind of binding statement + the bound expression with
all local names blanked); the sequence of fingerprints of the current function
is aligned with the reference sequence (difflib), and a local whose
fingerprint aligns is given the reference name.  Locals that do not align
(code that was really changed) keep their names.

`canon_names.json` is generated from the reference tree by
`tools/gen_canon.py` and is part of the frozen rule instances (DESIGN.md 11).
"""
import ast
import difflib
import json
import os

FN = (ast.FunctionDef, ast.AsyncFunctionDef)
TABLE = os.path.join(os.path.dirname(os.path.abspath(__file__)), 'canon_names.json')


def _params(fn):
  a = fn.args
  out = [x.arg for x in a.posonlyargs + a.args]
  if a.vararg:
    out.append(a.vararg.arg)
  out += [x.arg for x in a.kwonlyargs]
  if a.kwarg:
    out.append(a.kwarg.arg)
  return out


def _own_nodes(fn):
  """Nodes of fn's own scope in source order (not nested defs/lambdas/comprehension scopes)."""
  out = []
  stack = list(fn.body)
  while stack:
    n = stack.pop()
    if isinstance(n, FN + (ast.ClassDef, ast.Lambda)):
      continue
    out.append(n)
    if isinstance(n, (ast.ListComp, ast.SetComp, ast.DictComp, ast.GeneratorExp)):
      stack.extend(g.iter for g in n.generators[:1])
      continue
    stack.extend(ast.iter_child_nodes(n))
  out.sort(key=lambda n: (getattr(n, 'lineno', 0), getattr(n, 'col_offset', 0)))
  return out


def _declared_nonlocal(fn):
  out = set()
  for n in _own_nodes(fn):
    if isinstance(n, (ast.Global, ast.Nonlocal)):
      out.update(n.names)
  return out


def _blank(expr, names):
  if expr is None:
    return ''
  t = ast.parse(ast.unparse(expr), mode='eval').body if isinstance(expr, ast.expr) else expr
  for n in ast.walk(t):
    if isinstance(n, ast.Name) and n.id in names:
      n.id = '_'
  return ast.unparse(t)


def bindings(fn):
  """[(name, fingerprint)] for parameters and each local's first binding."""
  params = _params(fn)
  glob = _declared_nonlocal(fn)
  nodes = _own_nodes(fn)
  local_names = set(params)
  for n in nodes:
    if isinstance(n, ast.Name) and isinstance(n.ctx, (ast.Store, ast.Del)) and n.id not in glob:
      local_names.add(n.id)
    elif isinstance(n, ast.ExceptHandler) and n.name:
      local_names.add(n.name)
  out = [(p, 'param:%d' % i) for i, p in enumerate(params)]
  seen = set(params)

  def add(name, fp):
    if name in seen or name in glob:
      return
    seen.add(name)
    out.append((name, fp))

  for n in nodes:
    if isinstance(n, ast.Assign):
      for t in n.targets:
        if isinstance(t, ast.Name):
          add(t.id, 'assign:' + _blank(n.value, local_names))
        elif isinstance(t, (ast.Tuple, ast.List)):
          for i, e in enumerate(t.elts):
            e2 = e.value if isinstance(e, ast.Starred) else e
            if isinstance(e2, ast.Name):
              add(e2.id, 'unpack%d:%s' % (i, _blank(n.value, local_names)))
    elif isinstance(n, ast.AnnAssign) and isinstance(n.target, ast.Name):
      add(n.target.id, 'assign:' + _blank(n.value, local_names))
    elif isinstance(n, ast.AugAssign) and isinstance(n.target, ast.Name):
      add(n.target.id, 'aug:' + _blank(n.value, local_names))
    elif isinstance(n, (ast.For, ast.AsyncFor)):
      ts = n.target.elts if isinstance(n.target, (ast.Tuple, ast.List)) else [n.target]
      for i, e in enumerate(ts):
        if isinstance(e, ast.Name):
          add(e.id, 'for%d:%s' % (i, _blank(n.iter, local_names)))
        elif isinstance(e, (ast.Tuple, ast.List)):
          for j, e2 in enumerate(e.elts):
            if isinstance(e2, ast.Name):
              add(e2.id, 'for%d.%d:%s' % (i, j, _blank(n.iter, local_names)))
    elif isinstance(n, (ast.With, ast.AsyncWith)):
      for it in n.items:
        if isinstance(it.optional_vars, ast.Name):
          add(it.optional_vars.id, 'with:' + _blank(it.context_expr, local_names))
    elif isinstance(n, ast.ExceptHandler) and n.name:
      add(n.name, 'except:' + _blank(n.type, local_names))
    elif isinstance(n, ast.NamedExpr):
      add(n.target.id, 'walrus:' + _blank(n.value, local_names))
  return out


def rename_in(node, mapping):
  """Renames Name ids per mapping in node's subtree; nested scopes that rebind a name shadow it."""
  if not mapping:
    return
  if isinstance(node, FN):
    p = set(_params(node))
    loc = {n for n, _ in bindings(node)}
    inner = {k: v for k, v in mapping.items() if k not in p and k not in loc}
    for d in node.decorator_list:
      rename_in(d, mapping)
    for d in node.args.defaults + [x for x in node.args.kw_defaults if x]:
      rename_in(d, mapping)
    for st in node.body:
      rename_in(st, inner)
    return
  if isinstance(node, ast.Lambda):
    p = set(_params(node))
    rename_in(node.body, {k: v for k, v in mapping.items() if k not in p})
    return
  if isinstance(node, (ast.ListComp, ast.SetComp, ast.DictComp, ast.GeneratorExp)):
    bound = {x.id for g in node.generators for x in ast.walk(g.target) if isinstance(x, ast.Name)}
    inner = {k: v for k, v in mapping.items() if k not in bound}
    # the first iterable is evaluated in the enclosing scope
    rename_in(node.generators[0].iter, mapping)
    for i, g in enumerate(node.generators):
      if i:
        rename_in(g.iter, inner)
      for c in g.ifs:
        rename_in(c, inner)
    if isinstance(node, ast.DictComp):
      rename_in(node.key, inner)
      rename_in(node.value, inner)
    else:
      rename_in(node.elt, inner)
    return
  if isinstance(node, ast.Name) and node.id in mapping:
    node.id = mapping[node.id]
  if isinstance(node, ast.ExceptHandler) and node.name in mapping:
    node.name = mapping[node.name]
  if isinstance(node, ast.arg):
    return
  for c in ast.iter_child_nodes(node):
    rename_in(c, mapping)


def _functions(tree, prefix):
  """(qualname, FunctionDef) for every function, nested ones included."""
  out = []

  def rec(body, pre):
    for st in body:
      if isinstance(st, FN):
        out.append((pre + '.' + st.name, st))
        rec(st.body, pre + '.' + st.name)
      elif isinstance(st, ast.ClassDef):
        rec(st.body, pre + '.' + st.name)
      elif isinstance(st, (ast.If, ast.For, ast.While, ast.With, ast.Try)):
        for fld in ('body', 'orelse', 'finalbody'):
          rec(getattr(st, fld, []) or [], pre)
        for h in getattr(st, 'handlers', []) or []:
          rec(h.body, pre)
  rec(tree.body, prefix)
  return out


def table_for(tree, modname):
  return {q: bindings(fn) for q, fn in _functions(tree, modname)}


def canonicalise(tree, modname, table=None):
  """Renames locals/params of every function of `tree` to the reference
  names where the binding fingerprints align.  Returns number of renames."""
  if table is None:
    if not os.path.exists(TABLE):
      return 0
    with open(TABLE) as f:
      table = json.load(f)
  ref_mod = table.get(modname)
  if not ref_mod:
    return 0
  total = 0
  # outer functions first, so that closures see the canonical outer names
  for q, fn in _functions(tree, modname):
    ref = ref_mod.get(q)
    if not ref:
      continue
    cur = bindings(fn)
    if ref and cur and ref[0][0] in ('self', 'cls') and cur[0][0] not in ('self', 'cls') and \
        any(ast.unparse(d) == 'staticmethod' for d in fn.decorator_list):
      # a method turned into a static method: its parameters line up with the reference's after `self`
      ref = [(n, 'param:%d' % (int(fp.split(':')[1]) - 1) if fp.startswith('param:') else fp) for n, fp in ref[1:]]
    if [n for n, _ in cur] == [n for n, _ in ref]:
      continue
    sm = difflib.SequenceMatcher(None, [fp for _, fp in ref], [fp for _, fp in cur], autojunk=False)
    mapping = {}
    for a, b, size in sm.get_matching_blocks():
      for k in range(size):
        rn, cn = ref[a + k][0], cur[b + k][0]
        if rn != cn:
          mapping[cn] = rn
    if not mapping:
      continue
    cur_names = {n for n, _ in cur}
    # keep the mapping injective and collision free
    used = set()
    safe = {}
    for cn, rn in mapping.items():
      if rn in used or (rn in cur_names and rn not in mapping):
        continue
      used.add(rn)
      safe[cn] = rn
    # a target that is itself a current name is free only if that name really moves away
    while True:
      bad = [cn for cn, rn in safe.items() if rn in cur_names and rn not in safe]
      if not bad:
        break
      for cn in bad:
        del safe[cn]
    if not safe:
      continue
    params = _params(fn)
    a = fn.args
    for x in a.posonlyargs + a.args + a.kwonlyargs + ([a.vararg] if a.vararg else []) + ([a.kwarg] if a.kwarg else []):
      if x.arg in safe:
        x.arg = safe[x.arg]
    for st in fn.body:
      rename_in(st, safe)
    total += len(safe)
  return total


def interface_of(fn):
  """What a caller relies on besides the name: parameter kinds / count, whether it is a generator, and the shapes it returns."""
  a = fn.args
  own = _own_nodes(fn)
  rets = set()
  for n in own:
    if isinstance(n, ast.Return):
      v = n.value
      if v is None or (isinstance(v, ast.Constant) and v.value is None):
        rets.add('none')
      elif isinstance(v, ast.Tuple):
        rets.add('tuple:%d' % len(v.elts))
      else:
        rets.add('value')
  return {'pos': len(a.posonlyargs) + len(a.args), 'kwonly': len(a.kwonlyargs), 'var': bool(a.vararg), 'kw': bool(a.kwarg),
          'gen': any(isinstance(n, (ast.Yield, ast.YieldFrom)) for n in own), 'rets': sorted(rets - {'none'})}


def interface_table(tree, modname):
  return {q: interface_of(fn) for q, fn in _functions(tree, modname)}
