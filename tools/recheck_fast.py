#!/venv/bin/python
"""Re-runs all quick checks against every kept change, each on its own scratch copy of /repo/gin (removed afterwards), sixteen
at a time, one process per copy with a shared index (tools/batch.py):  recheck_fast.py refactors|seeded [id-prefix ...]
Records the result in <kind>/<id>/meta.json (alarms_now / checks_that_report_it_now) like the slow tools do."""
import concurrent.futures, glob, json, os, shutil, subprocess, sys, tempfile
kind = sys.argv[1]
only = sys.argv[2:]
def one(d):
  rid = os.path.basename(d)
  tmp = tempfile.mkdtemp(prefix='ginsa_rc_')
  try:
    shutil.copytree('/repo/gin', os.path.join(tmp, 'gin'), ignore=shutil.ignore_patterns('__pycache__'))
    r = subprocess.run(['patch', '-p1', '-s', '-f', '-d', tmp, '-i', os.path.join(d, 'patch.diff')], capture_output=True, text=True)
    if r.returncode != 0:
      return rid, None
    r = subprocess.run(['/verif/tools/batch.py', tmp], capture_output=True, text=True)
    line = [l for l in r.stdout.splitlines() if l.startswith('{')]
    if not line:
      return rid, {'C00': {'exit': 2, 'rules': [], 'err': (r.stderr or r.stdout)[-200:]}}
    return rid, json.loads(line[-1])
  finally:
    shutil.rmtree(tmp, ignore_errors=True)
dirs = [d for d in sorted(glob.glob('/verif/%s/C*' % kind)) if os.path.isdir(d) and (not only or any(os.path.basename(d).startswith(o) for o in only))]
tot = bad = own = non = sil = 0
with concurrent.futures.ThreadPoolExecutor(16) as ex:
  for rid, res in ex.map(one, dirs):
    d = '/verif/%s/%s' % (kind, rid)
    if res is None:
      print(rid, 'APPLY-FAIL'); continue
    tot += 1
    meta = json.load(open(d + '/meta.json'))
    if kind == 'refactors':
      bad += bool(res)
      meta['alarms_now'] = {p: {'exit': v['exit'], 'rules': v['rules'], 'err': [v['err']] if v['err'] else []} for p, v in res.items()}
      print(rid, {p: (v['exit'], v['rules'] or v['err'][:110]) for p, v in res.items()} or 'clean')
    else:
      pid = rid[:3]
      meta['checks_that_report_it_now'] = {p: {'exit': v['exit'], 'rules': v['rules']} for p, v in res.items()}
      o = res.get(pid, {}).get('exit') == 1
      own += o; non += (not o and bool(res)); sil += (not res)
      print(rid, 'own' if o else ('---' if res else 'SILENT'), {p: v['exit'] for p, v in res.items()})
    json.dump(meta, open(d + '/meta.json', 'w'), indent=1)
if kind == 'refactors':
  print('refactorings: %d, with alarms: %d' % (tot, bad))
else:
  print('breaks: %d, own check: %d, other check / exit 2: %d, silent: %d' % (tot, own, non, sil))
