#!/venv/bin/python
"""Runs all 20 checks in parallel and prints one line each (dev helper)."""
import concurrent.futures, subprocess, sys
tier = sys.argv[1] if len(sys.argv) > 1 else 'quick'
extra = sys.argv[2:]
def run(i):
  p = 'C%02d' % i
  r = subprocess.run(['/verif/check', p, '--tier', tier] + extra, capture_output=True, text=True)
  lines = [l for l in r.stdout.splitlines() if l.startswith(('VIOLATION', 'ANALYSIS', 'KNOWN', p + ':'))]
  return p, r.returncode, lines
with concurrent.futures.ThreadPoolExecutor(16) as ex:
  bad = 0
  for p, code, lines in ex.map(run, range(1, 21)):
    print(p, 'exit', code, '|', ' || '.join(l[:150] for l in lines[-3:]))
    bad += code != 0
sys.exit(1 if bad else 0)
