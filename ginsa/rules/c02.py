"""C02 Literal values parse to exactly what Python evaluates them to."""
import ast

from ..cfg import describe_path, witness
from ..core import AnalysisError, u, walk_local, enclosing_stmt, ancestors
from ..feasible import path_feasible
from ..lib import (construct, std_facts, def_of, facts_at, calls_of_node,
                   in_subtree, terminates_in_raise)

CP = 'config_parser.ConfigParser'


def decline_sentinels(prog):
  """Module-level names of config_parser bound to a fresh `object()`: a value parser may decline by returning one."""
  m = prog.ix.module('config_parser')
  return {name for name, lst in m.assigns.items() if len(lst) == 1 and isinstance(lst[0][1], ast.Call) and u(lst[0][1]) == 'object()'}


def is_decline(prog, v):
  """`return (False, ...)` or `return <module sentinel>`: the alternative does not apply."""
  if isinstance(v, ast.Tuple) and v.elts and isinstance(v.elts[0], ast.Constant) and v.elts[0].value is False:
    return True
  return isinstance(v, ast.Name) and v.id in decline_sentinels(prog)


def accepted_value(prog, v):
  """The value an accepting return hands back: v of `(True, v)`, or the returned expression itself under the sentinel protocol."""
  if isinstance(v, ast.Tuple) and len(v.elts) == 2 and isinstance(v.elts[0], ast.Constant) and v.elts[0].value is True:
    return v.elts[1]
  if v is not None and not isinstance(v, ast.Tuple) and not is_decline(prog, v) and decline_sentinels(prog):
    return v
  return None


def indirect_callees(prog, m, cc):
  """Callee(s) of a call: a call through a loop variable that iterates a
  list of bound methods (parse_value's alternatives) stands for each of them;
  a call through a name unpacked from a table of bound methods likewise."""
  q = prog.resolve_call(m, cc)
  if q:
    return [q]
  def display_of(name):
    lst = [a.value for a in walk_local(m.node) if isinstance(a, ast.Assign) and u(a.targets[0]) == name]
    if len(lst) == 1 and isinstance(lst[0], (ast.List, ast.Tuple)):
      return [x for x in (prog.resolve_expr(m, e) for e in lst[0].elts) if x]
    return None
  # TABLE[i]() with TABLE a display of bound methods: any of them
  if isinstance(cc.func, ast.Subscript) and isinstance(cc.func.value, ast.Name):
    d = display_of(cc.func.value.id)
    if d:
      return d
  if isinstance(cc.func, ast.Name):
    for lp in walk_local(m.node):
      if isinstance(lp, ast.For) and isinstance(lp.target, ast.Name) and lp.target.id == cc.func.id:
        if isinstance(lp.iter, ast.Name):
          d = display_of(lp.iter.id)
          if d:
            return d
        elif isinstance(lp.iter, (ast.List, ast.Tuple)):
          return [x for x in (prog.resolve_expr(m, e) for e in lp.iter.elts) if x]
    # NAME = TABLE[i]
    for a in walk_local(m.node):
      if isinstance(a, ast.Assign) and u(a.targets[0]) == cc.func.id and isinstance(a.value, ast.Subscript) and isinstance(a.value.value, ast.Name):
        d = display_of(a.value.value.id)
        if d:
          return d
    # parse_item in the container parser: any self.<method> stored in a dict display of the function
    out = []
    idx = None
    for a in walk_local(m.node):
      if isinstance(a, ast.Assign) and isinstance(a.targets[0], ast.Tuple) and cc.func.id in [u(e) for e in a.targets[0].elts]:
        idx = [u(e) for e in a.targets[0].elts].index(cc.func.id)
    if idx is not None:
      for d in walk_local(m.node):
        if isinstance(d, ast.Dict):
          for v in d.values:
            if isinstance(v, ast.Tuple) and idx < len(v.elts):
              x = prog.resolve_expr(m, v.elts[idx])
              if x:
                out.append(x)
      return sorted(set(out))
  return []


def consuming_methods(ctx):
  """Methods of ConfigParser that (transitively) move the token cursor."""
  prog = ctx.prog
  c = ctx.cls(CP)
  direct = set()
  for name, m in c.methods.items():
    for n in walk_local(m.node):
      if isinstance(n, ast.Attribute) and isinstance(n.ctx, ast.Store) and n.attr == '_current_token' \
          and isinstance(n.value, ast.Name) and n.value.id == 'self':
        direct.add(m.qual)
  cons = set(direct)
  changed = True
  while changed:
    changed = False
    for name, m in c.methods.items():
      if m.qual in cons:
        continue
      indirect = {q for cc in walk_local(m.node) if isinstance(cc, ast.Call) for q in indirect_callees(prog, m, cc)}
      if (prog.callees(m.qual) | indirect) & cons:
        cons.add(m.qual)
        changed = True
  return cons, direct


def alternatives(ctx):
  pv = ctx.func(CP + '.parse_value')
  alts = []
  for n in walk_local(pv.node):
    disp = n.value if isinstance(n, ast.Assign) else (n.iter if isinstance(n, ast.For) else None)
    if isinstance(disp, (ast.List, ast.Tuple)):
      for e in disp.elts:
        if isinstance(e, ast.Attribute) and isinstance(e.value, ast.Name) and e.value.id == 'self' and e.attr not in alts:
          alts.append(e.attr)
  return pv, alts


def run(ctx):
  prog = ctx.prog
  ctx.assume('T9')
  cons, direct = consuming_methods(ctx)
  ctx.expect_at_least('token-consuming methods of ConfigParser', len(cons), 6)
  pv, alts = alternatives(ctx)
  ctx.expect_at_least('parser alternatives tried by parse_value', len(alts), 4)
  ctx.note('parse_value tries, in order: %s' % alts)

  # ---- C02.backtrack
  for name in alts:
    f = ctx.func('%s.%s' % (CP, name))
    con = construct(f)
    g = prog.cfg(f)
    cids = {n.id for n in g.live_nodes() if any(prog.resolve_call(f, c) in cons for c in calls_of_node(n))}
    declines = [n for n in g.live_nodes() if n.kind == 'return' and is_decline(prog, n.ast.value)]
    accepts = [n for n in g.live_nodes() if n.kind == 'return' and n not in declines]
    npaths = 0
    bad = None
    for d in declines:
      for path in g.paths(g.entry.id, [d.id], max_visits=2):
        npaths += 1
        ids = [i for i, _ in path]
        first = next((k for k, i in enumerate(ids) if i in cids), None)
        if first is None:
          continue
        if path_feasible(g, path, cids):
          bad = (d, path, g.nodes[ids[first]])
          break
      if bad:
        break
    if bad:
      d, path, cn = bad
      ctx.fail('C02.backtrack', con,
               'this alternative consumes a token (`%s`, line %d) and then declines with `%s` (line %d): the next alternative is '
               'handed a shorter text, so text that is not a literal is accepted as some other value (e.g. `-@f()` or `-%%M` '
               'binds the reference / macro with the minus sign silently dropped)' % (cn.text(), cn.lineno, d.text(), d.lineno),
               f.loc(cn.ast), sites=npaths, instance='consume-then-decline',
               path=['L%d %s%s' % (g.nodes[i].lineno, g.nodes[i].text(), (' -> ' + k) if k in ('T', 'F') else '') for i, k in path])
    else:
      ctx.hold('C02.backtrack', con, 'no feasible path consumes a token and then declines (%d decline paths, %d consuming nodes)'
               % (npaths, len(cids)), f.loc(), sites=max(npaths, 1))
    # a failing alternative reports through (False, ...) or raises; success returns (True, value)
    okacc = all(accepted_value(prog, n.ast.value) is not None for n in accepts)
    # one protocol per alternative: (True, value) / (False, ...), or value / <sentinel>
    kinds = {('tuple' if isinstance(n.ast.value, ast.Tuple) else 'plain') for n in accepts + declines}
    ctx.check(okacc and accepts and len(kinds) == 1, 'C02.backtrack', con, 'success and decline are reported through one protocol ((True, value) / (False, ...), or value / sentinel)',
              'an alternative returns something other than (True, value) / (False, ...)', f.loc(), instance='protocol')
  # dispatcher: first success wins, total failure raises
  g = prog.cfg(pv)
  ok = not g.normal_exit_reachable() or all(n.kind == 'return' for n, _ in [(g.nodes[a], k) for a, k in g.pred[g.exit.id]])
  falls = [g.nodes[a] for a, k in g.pred[g.exit.id] if g.nodes[a].kind != 'return']
  ctx.check(not falls, 'C02.backtrack', construct(pv), 'when every alternative declines parse_value raises a syntax error',
            'parse_value can fall off its end (returning None) when no alternative matches', pv.loc(), instance='dispatcher')

  # ---- C02.delegate
  bt = ctx.func(CP + '._maybe_parse_basic_type')
  g, facts = std_facts(prog, bt)
  acc = [n for n in g.live_nodes() if n.kind == 'return' and accepted_value(prog, n.ast.value) is not None]
  ok = bool(acc)
  src = None
  for n in acc:
    v = accepted_value(prog, n.ast.value)
    if isinstance(v, ast.Name):
      # every definition of the returned name is a literal_eval call (flow-insensitive)
      ds = [u(a.value) for a in walk_local(bt.node) if isinstance(a, ast.Assign) and u(a.targets[0]) == v.id]
      ds += ['<rebound>' for a in walk_local(bt.node) if isinstance(a, (ast.For, ast.AugAssign))
             and v.id in {x.id for x in ast.walk(a.target) if isinstance(x, ast.Name)}]
    else:
      ds = [u(v)]
    if not ds or not all(d.startswith('ast.literal_eval(') and d.endswith(')') for d in ds):
      ok = False
    else:
      src = ds[0][len('ast.literal_eval('):-1]
  ctx.check(ok, 'C02.delegate', construct(bt), 'the value returned is the result of ast.literal_eval on the token text (CPython\'s own evaluator)',
            'the basic-type parser returns a value not produced by ast.literal_eval', bt.loc(), instance='literal_eval')
  if src:
    pieces = [n for n in walk_local(bt.node) if (isinstance(n, ast.Assign) and u(n.targets[0]) == src) or
              (isinstance(n, ast.AugAssign) and u(n.target) == src)]
    okp = bool(pieces)
    # the text may also be assembled as ''.join(<list of token strings>)
    joined_lists = set()
    for pc in list(pieces):
      if isinstance(pc, ast.Assign) and isinstance(pc.value, ast.Call) and u(pc.value.func) == "''.join" and len(pc.value.args) == 1 \
          and isinstance(pc.value.args[0], ast.Name):
        joined_lists.add(pc.value.args[0].id)
        pieces.remove(pc)
    for L in joined_lists:
      tok = 'self._current_token.string'
      for n_ in walk_local(bt.node):
        if isinstance(n_, ast.Assign) and len(n_.targets) == 1 and u(n_.targets[0]) == L:
          fs = facts_at(g, facts, n_) or frozenset()
          okl = isinstance(n_.value, ast.List) and all(
              isinstance(e_, ast.Constant) and isinstance(e_.value, str) and ('c', '%s == %r' % (tok, e_.value), True) in fs for e_ in n_.value.elts)
          okp = okp and okl
        elif isinstance(n_, ast.Call) and isinstance(n_.func, ast.Attribute) and u(n_.func.value) == L:
          a0 = n_.args[0] if n_.args else None
          st_ = enclosing_stmt(n_)
          fs = facts_at(g, facts, st_) or frozenset()
          tok_now = a0 is not None and (u(a0) == tok or (isinstance(a0, ast.Attribute) and a0.attr == 'string' and isinstance(a0.value, ast.Name)
                                                        and def_of(fs, a0.value.id) == 'self._current_token'))
          const_tok = isinstance(a0, ast.Constant) and isinstance(a0.value, str) and ('c', '%s == %r' % (tok, a0.value), True) in fs
          okp = okp and n_.func.attr == 'append' and (tok_now or const_tok)
      pieces = pieces or [None]
    pieces = [p_ for p_ in pieces if p_ is not None]
    for pc in pieces:
      val = pc.value
      if isinstance(pc, ast.Assign):
        tok = 'self._current_token.string'
        fs = facts_at(g, facts, pc) or frozenset()
        same_as_token = isinstance(val, ast.Constant) and isinstance(val.value, str) and \
            (('c', '%s == %r' % (tok, val.value), True) in fs or ('c', '%r == %s' % (val.value, tok), True) in fs)
        okp = okp and ((isinstance(val, ast.Constant) and val.value == '') or same_as_token or u(val) == tok
                       or u(val).replace(' ', '') == '%s+%s' % (src, tok))
      else:
        okp = okp and isinstance(pc.op, ast.Add) and u(val) == 'self._current_token.string'
    ctx.check(okp, 'C02.delegate', construct(bt), 'the evaluated text is built only from exact token strings (no gin-specific decoding)',
              'the text given to literal_eval is altered (%s)' % [u(p) for p in pieces], bt.loc(), instance='text')
  hs = [n for n in g.live_nodes() if n.kind == 'handler']
  for h in hs:
    esc = witness(g, h.id, [g.exit.id])
    ctx.check(esc is None, 'C02.delegate', construct(bt), 'an evaluation error is converted into a syntax error, never swallowed into a value',
              'the handler around literal_eval can complete normally: a malformed literal would yield some value instead of an error',
              bt.loc(h.ast), instance='handler', path=describe_path(g, esc) if esc else None)

  # the token texts are the config text itself: the line reader hands lines to tokenize unchanged
  init = ctx.func(CP + '.__init__')
  rd = init.nested.get('_text_line_reader')
  if rd is None:
    raise AnalysisError('ConfigParser.__init__._text_line_reader vanished')
  rets_r = [r.value for r in walk_local(rd.node) if isinstance(r, ast.Return) and r.value is not None]
  assigns_r = [a for a in walk_local(rd.node) if isinstance(a, (ast.Assign, ast.AugAssign))]
  # `return line.decode(..) if isinstance(line, bytes) else line` is the same reader written as an expression
  if len(rets_r) == 1 and isinstance(rets_r[0], ast.IfExp):
    ie_ = rets_r[0]
    names_ = [b_ for b_ in (ie_.body, ie_.orelse) if isinstance(b_, ast.Name)]
    decs_ = [b_ for b_ in (ie_.body, ie_.orelse) if isinstance(b_, ast.Call) and isinstance(b_.func, ast.Attribute) and b_.func.attr == 'decode']
    if len(names_) == 1 and len(decs_) == 1 and u(decs_[0].func.value) == names_[0].id and 'isinstance(%s,bytes)' % names_[0].id in u(ie_.test).replace(' ', ''):
      rets_r = [names_[0]]
  okr = len(rets_r) == 1 and isinstance(rets_r[0], ast.Name)
  for a in assigns_r:
    v = u(a.value).replace(' ', '')
    if not (isinstance(a, ast.Assign) and u(a.targets[0]) == u(rets_r[0]) and (v == 'line_reader()' or v.startswith(u(rets_r[0]) + '.decode('))):
      okr = False
  ctx.check(okr, 'C02.delegate', construct(rd), 'lines reach the tokenizer verbatim (only bytes are decoded)',
            'the line reader rewrites lines before tokenizing (%s): the content of multi-line string literals (trailing blanks before a line break) '
            'no longer equals what Python evaluates the text to' % [u(a) for a in assigns_r], rd.loc(), instance='reader-verbatim')

  # the token stream is Python's own: every current token comes straight from the tokenizer, and a tokenizer error is not
  # turned into a token (an "end of input" made up after an unterminated string accepts the text before it)
  cpc = ctx.cls(CP)
  stores_tok = []
  for m_ in cpc.methods.values():
    for a_ in walk_local(m_.node):
      if isinstance(a_, ast.Assign) and any(u(t_) == 'self._current_token' for t_ in a_.targets):
        stores_tok.append((m_, a_))
  ctx.expect_at_least('assignments of the current token', len(stores_tok), 2)
  bad_tok = [(m_, a_) for m_, a_ in stores_tok if m_.name != '__init__' and u(a_.value).replace(' ', '') != 'next(self._token_generator)']
  made = [(m_, c_) for m_ in cpc.methods.values() for c_ in walk_local(m_.node)
          if isinstance(c_, ast.Call) and u(c_.func) in ('tokenize.TokenInfo', 'TokenInfo')]
  swallowed = []
  for m_ in cpc.methods.values():
    for t_ in walk_local(m_.node):
      if isinstance(t_, ast.Try) and any(isinstance(c_, ast.Call) and u(c_.func) == 'next' and 'token_generator' in u(c_) for x_ in t_.body for c_ in ast.walk(x_)):
        for h_ in t_.handlers:
          names_ = u(h_.type) if h_.type is not None else 'BaseException'
          if any(k_ in names_ for k_ in ('TokenError', 'Exception', 'BaseException', 'SyntaxError')) and \
              not (h_.body and isinstance(h_.body[-1], ast.Raise)):
            swallowed.append((m_, h_))
  ctx.check(not bad_tok and not made and not swallowed, 'C02.delegate', construct(ctx.func(CP + '._advance_one_token')),
            'every token is the tokenizer\'s own next token; tokenizer errors propagate',
            'the parser substitutes tokens of its own (%s): text the tokenizer rejects (an unterminated string, a malformed number after a complete value) '
            'is then read as if the input ended there' % ([u(a_.value) for _m, a_ in bad_tok] + [u(c_) for _m, c_ in made] + ['except %s' % (u(h_.type) if h_.type is not None else '') for _m, h_ in swallowed])[:3],
            (bad_tok or made or swallowed or [(ctx.func(CP + '._advance_one_token'), None)])[0][0].loc(), instance='token-source')

  # ---- C02.containers
  mc = ctx.func(CP + '._maybe_parse_container')
  table = None
  openers = {"'{'", "'('", "'['"}
  for n in walk_local(mc.node):
    if isinstance(n, ast.Dict) and {u(k) for k in n.keys if k is not None} == openers:
      table = n
  want = {"'{'": ("'}'", 'dict'), "'('": ("')'", 'tuple'), "'['": ("']'", 'list')}
  got = {}
  if table is not None:
    for k, v in zip(table.keys, table.values):
      if isinstance(v, ast.Tuple) and len(v.elts) >= 2:
        got[u(k)] = (u(v.elts[0]), u(v.elts[1]))
  ctx.check(got == want, 'C02.containers', construct(mc), 'each opener maps to its own closer and the matching Python constructor',
            'bracket table is %s' % got, mc.loc(), instance='table')
  g, facts = std_facts(prog, mc)
  # the names this function uses for the constructor, the collected items and the comma flag
  tvar = xvar = flag = None
  for n in walk_local(mc.node):
    if isinstance(n, ast.Assign) and len(n.targets) == 1 and isinstance(n.targets[0], ast.Tuple) and len(n.targets[0].elts) >= 2 \
        and (isinstance(n.value, ast.Subscript) or (isinstance(n.value, ast.Call) and isinstance(n.value.func, ast.Attribute) and n.value.func.attr == 'get')) \
        and isinstance(n.targets[0].elts[1], ast.Name):
      tvar = n.targets[0].elts[1].id
    if isinstance(n, ast.Call) and isinstance(n.func, ast.Attribute) and n.func.attr == 'append' and isinstance(n.func.value, ast.Name) \
        and len(n.args) == 1 and isinstance(n.args[0], ast.Call):
      xvar = n.func.value.id
    if isinstance(n, ast.Assign) and len(n.targets) == 1 and isinstance(n.targets[0], ast.Name) and isinstance(n.value, ast.Constant) and n.value.value is True \
        and any(isinstance(a_, ast.While) for a_ in ancestors(n)):
      flag = n.targets[0].id
  def atoms_ok(test):
    t = u(test).replace(' ', '')
    return isinstance(test, ast.BoolOp) and isinstance(test.op, ast.And) and None not in (tvar, xvar, flag) and \
        '%sistuple' % tvar in t and 'len(%s)==1' % xvar in t and 'not%s' % flag in t
  one = [n for n in walk_local(mc.node) if isinstance(n, ast.If) and 'tuple' in u(n.test)]
  ok = bool(one) and atoms_ok(one[0].test) and any(
      isinstance(x, ast.Assign) and u(x.targets[0]) == tvar for x in one[0].body)
  if not ok:
    # expression form: return True, values[0] if <tuple and one item and no comma> else type_fn(values)
    from ..lib import expand_expr
    # the parsed value of an accepting return, under either protocol: (True, value), or the value itself with a sentinel for "no match"
    def accepted(n_):
      v0 = n_.ast.value
      if isinstance(v0, ast.Tuple) and len(v0.elts) == 2:
        return v0.elts[1] if u(v0.elts[0]) == 'True' else None
      if v0 is None or isinstance(v0, ast.Constant) or (isinstance(v0, ast.Name) and v0.id.isupper()):
        return None
      return v0
    rets2 = [n for n in g.live_nodes() if n.kind == 'return' and n.ast.value is not None and accepted(n) is not None]
    for r_ in rets2:
      v_ = expand_expr(facts[r_.id], accepted(r_))
      for ie in [x for x in ast.walk(v_) if isinstance(x, ast.IfExp)]:
        if atoms_ok(ie.test) and u(ie.body).replace(' ', '') == '%s[0]' % xvar and u(ie.orelse).replace(' ', '') == '%s(%s)' % (tvar, xvar):
          ok = True
    # statement form: the bare item is returned exactly under the three conditions, the constructed container otherwise
    bare = [r_ for r_ in rets2 if u(accepted(r_)).replace(' ', '') == '%s[0]' % xvar]
    built = [r_ for r_ in rets2 if u(accepted(r_)).replace(' ', '') == '%s(%s)' % (tvar, xvar)]
    if not ok and bare and built and len(bare) + len(built) == len(rets2):
      def conds(r_):
        cs = {(f_[1].replace(' ', ''), f_[2]) for f_ in facts[r_.id] if f_[0] == 'c'}
        whole = [c_ for c_, pol in cs if pol and '%sistuple' % tvar in c_ and 'len(%s)==1' % xvar in c_ and 'not%s' % flag in c_ and 'or' not in c_]
        return bool(whole) or (('%sistuple' % tvar, True) in cs and ('len(%s)==1' % xvar, True) in cs and (flag, False) in cs)
      def neg(r_):
        cs = {(f_[1].replace(' ', ''), f_[2]) for f_ in facts[r_.id] if f_[0] == 'c'}
        return any((not pol) and '%sistuple' % tvar in c_ and 'len(%s)==1' % xvar in c_ and 'not%s' % flag in c_ and 'or' not in c_ for c_, pol in cs)
      ok = all(conds(r_) for r_ in bare) and all(neg(r_) for r_ in built)
  ctx.check(ok, 'C02.containers', construct(mc), 'a parenthesised single value without a comma is the value itself, anything else in () is a tuple',
            'the one-tuple rule is no longer `tuple and one item and no comma seen`', mc.loc(), instance='one-tuple')
  sets = [n for n in g.live_nodes() if n.kind == 'stmt' and isinstance(n.ast, ast.Assign) and u(n.ast.targets[0]) == 'saw_comma'
          and isinstance(n.ast.value, ast.Constant) and n.ast.value.value is True]
  ok = bool(sets) and all(any(fct[0] == 'c' and fct[2] is True and fct[1].replace(' ', '') == "self._current_token.string==','" for fct in facts[n.id]) for n in sets)
  ctx.check(ok, 'C02.containers', construct(mc), 'the comma flag is set only when a comma token was seen',
            'saw_comma is set without a comma token', mc.loc(), instance='comma-flag')
  sep = [n for n in g.live_nodes() if n.kind == 'test' and u(n.ast).replace(' ', '') == 'self._current_token.string!=close_bracket' and n.loops]
  okr = any(any(g.nodes[b].kind != 'stmt' or True for b, k in g.succ[n.id] if k == 'T') and
            not witness(g, [b for b, k in g.succ[n.id] if k == 'T'][0], [g.exit.id]) for n in sep if any(k == 'T' for _, k in g.succ[n.id]) and n.ast.parent is not None and isinstance(n.ast.parent, ast.If))
  if not okr:
    # by the facts at the rejection: the token is neither ',' nor the closer (whatever the spelling of the test)
    tok = 'self._current_token.string'
    for n in g.live_nodes():
      if n.loops and (n.kind == 'raise_stmt' or any(prog.resolve_call(mc, c) in prog.noreturn for c in calls_of_node(n))):
        fsn = facts[n.id]
        not_comma = ('c', "%s == ','" % tok, False) in fsn
        not_close = ('c', '%s == close_bracket' % tok, False) in fsn
        both = any(f_[0] == 'c' and f_[2] is False and f_[1].replace(' ', '') in ("%sin(',',close_bracket)" % tok, "%sin(close_bracket,',')" % tok) for f_ in fsn)
        if (not_comma and not_close) or both:
          okr = True
  ctx.check(okr, 'C02.containers', construct(mc), 'after an item only a comma or the matching closer is accepted',
            'a token other than `,` or the closer after an item is no longer rejected', mc.loc(), instance='separator')
  di = ctx.func(CP + '._parse_dict_item')
  ok = any(isinstance(n, ast.If) and u(n.test).replace(' ', '') == "self._current_token.string!=':'" and terminates_in_raise(prog, di, n.body)
           for n in walk_local(di.node))
  ctx.check(ok, 'C02.containers', construct(di), "dict items require ':' between key and value", "dict items no longer require ':'", di.loc(), instance='dict-colon')

  ctx.section(shared_results, ctx, 'C02.containers')
  eos(ctx, 'C02.eos')


def shared_results(ctx, rule):
  """A parsed value is a new object each time: no parser method hands out (an element of) a container that lives at module or
  class level, which the next parse of the same text would return again, with whatever the client did to it meanwhile."""
  prog = ctx.prog
  from ..lib import expand_expr
  m = ctx.ix.module('config_parser')
  c = ctx.cls(CP)

  def mutable_holder(v, depth=0):
    # a literal / constructed container that holds (or is) a mutable object
    if isinstance(v, (ast.List, ast.Set, ast.ListComp, ast.SetComp, ast.DictComp)):
      return True
    if isinstance(v, ast.Dict):
      return True
    if isinstance(v, ast.Tuple):
      return any(mutable_holder(e, depth + 1) for e in v.elts)
    if isinstance(v, ast.Call) and u(v.func) in ('dict', 'list', 'set', 'collections.defaultdict', 'collections.OrderedDict', 'collections.deque'):
      return True
    return False
  shared = {n for n, defs in m.assigns.items() if any(mutable_holder(v) for _st, v in defs)}
  shared |= {'%s.%s' % (pfx, t.id) for st in c.node.body if isinstance(st, ast.Assign) and mutable_holder(st.value)
             for t in st.targets if isinstance(t, ast.Name) for pfx in ('self', 'cls', c.node.name, 'type(self)')}

  def rooted(e):
    # e evaluates to a shared container or to an element fetched from one
    while True:
      if isinstance(e, ast.Subscript):
        e = e.value
      elif isinstance(e, ast.Call) and isinstance(e.func, ast.Attribute) and e.func.attr in ('get', 'setdefault', 'pop', '__getitem__'):
        e = e.func.value
      else:
        break
    return u(e) if u(e) in shared else None
  n_ret = 0
  for name, mf in sorted(c.methods.items()):
    g, facts = std_facts(prog, mf)
    for r in [n for n in g.live_nodes() if n.kind == 'return' and n.ast.value is not None]:
      v0 = r.ast.value
      cands = list(v0.elts) if isinstance(v0, ast.Tuple) else [v0]
      for e in cands:
        n_ret += 1
        x = expand_expr(facts[r.id], e)
        # either arm of a conditional value
        arms = [x]
        while any(isinstance(a, ast.IfExp) for a in arms):
          arms = [b for a in arms for b in ([a.body, a.orelse] if isinstance(a, ast.IfExp) else [a])]
        for a in arms:
          src = rooted(a)
          if src is not None and not isinstance(a, ast.Name):
            ctx.fail(rule, construct(mf), '`%s` returns `%s`, an object kept in the shared table `%s`: every parse of that text hands out the same '
                     'mutable object, so a value a client has modified is what later parses of the same literal yield (and `[[], []]` is one list twice)'
                     % (name, u(e), src), mf.loc(r.ast), instance='shared:' + src)
  ctx.expect_at_least('parser return values examined for shared objects', n_ret, 20)
  ctx.hold(rule, 'gin/config_parser.py::ConfigParser', 'no parser method returns an element of a module- or class-level container (%d shared containers known: %s)'
           % (len(shared), sorted(shared)[:6]), 'gin/config_parser.py:%d' % c.node.lineno, sites=n_ret, instance='results-fresh')


def eos(ctx, rule):
  prog = ctx.prog
  ps = ctx.func(CP + '.parse_statement')
  g, facts = std_facts(prog, ps)
  end_def = None
  rets = [n for n in g.live_nodes() if n.kind == 'return' and n.ast.value is not None
          and not (isinstance(n.ast.value, ast.Constant) and n.ast.value.value is None)
          and not isinstance(n.ast.value, ast.Call)]
  ctx.expect_at_least('statement returns of parse_statement', len(rets), 1)
  END = {'tokenize.NEWLINE', 'tokenize.DEDENT', 'tokenize.ENDMARKER'}
  TT = 'self._current_token.type'
  covered = set()

  def members(e, fs):
    if isinstance(e, (ast.Tuple, ast.List, ast.Set)):
      return {u(x) for x in e.elts}
    if isinstance(e, ast.Name):
      d = def_of(fs, e.id)
      if d:
        try:
          return members(ast.parse(d, mode='eval').body, fs)
        except SyntaxError:
          return None
    return None
  for n in rets:
    fs = facts[n.id]
    # value set of the token type at the check, from the facts that reach the return
    allowed, seen_pos = None, False
    for fct in fs:
      if fct[0] != 'c':
        continue
      try:
        t = ast.parse(fct[1], mode='eval').body
      except SyntaxError:
        continue
      if not (isinstance(t, ast.Compare) and len(t.ops) == 1):
        continue
      left_is_tt = u(t.left) == TT or (isinstance(t.left, ast.Name) and def_of(fs, t.left.id) == TT)
      if not left_is_tt:
        continue
      if isinstance(t.ops[0], ast.Eq) and fct[2] is True:
        vals = {u(t.comparators[0])}
      elif isinstance(t.ops[0], ast.In) and fct[2] is True:
        vals = members(t.comparators[0], fs)
      else:
        continue
      if vals is None:
        continue
      seen_pos = True
      allowed = vals if allowed is None else (allowed & vals)
    ok = seen_pos and allowed is not None and allowed <= END and bool(allowed)
    end_def = sorted(allowed) if allowed is not None else None
    covered |= (allowed or set())
    ctx.check(ok, rule, construct(ps),
              'a statement is returned only after the current token was checked to be NEWLINE / DEDENT / ENDMARKER (else syntax error)',
              'a parsed statement is returned without the end-of-statement check (end set: %s): trailing junk after a value is '
              'silently accepted' % end_def, ps.loc(n.ast), instance='return@%s' % u(n.ast.value))
  ctx.check(END <= covered, rule, construct(ps), 'a statement may end at a NEWLINE, a DEDENT or the end of the text',
            'a statement can no longer end at %s: a layout that ends a statement there (e.g. a text without a final line break) is rejected'
            % sorted(END - covered), ps.loc(), instance='end-set')
  bb = ctx.func(CP + '._parse_binding_block')
  g, facts = std_facts(prog, bb)
  apps = [n for n in g.live_nodes() if any(isinstance(c.func, ast.Attribute) and c.func.attr == 'append' for c in calls_of_node(n)) and n.loops]
  exps = [n for n in g.live_nodes() if any(prog.resolve_call(bb, c) == CP + '._expect' and c.args and u(c.args[0]) == 'tokenize.NEWLINE'
                                           for c in calls_of_node(n)) and n.loops]
  # ... or the check written out: `if <current token type> != NEWLINE: <raise>`
  for t_ in g.live_nodes():
    if t_.kind == 'test' and t_.loops and u(t_.ast).replace(' ', '') == 'self._current_token.type!=tokenize.NEWLINE':
      tsucc = [b for b, k in g.succ[t_.id] if k == 'T']
      if tsucc and all(witness(g, b, [g.exit.id]) is None for b in tsucc):
        exps.append(t_)
  ok = bool(apps) and bool(exps)
  for a in apps:
    lpn = [x for x in g.live_nodes() if x.kind in ('test', 'for') and a.loops and (x.ast is a.loops[-1] or x.ast is getattr(a.loops[-1], 'test', None))]
    for l in lpn:
      # within one iteration the check may come before or after the member is recorded
      if witness(g, a.id, [l.id], avoid=[e.id for e in exps]) is not None and witness(g, l.id, [a.id], avoid=[e.id for e in exps]) is not None:
        ok = False
  ctx.check(ok, rule, construct(bb), 'each block member must be followed by NEWLINE before the next member is read',
            'a block member is accepted without a terminating NEWLINE check', bb.loc(), instance='block-member')
