"""C10 REQUIRED parameters are filled from the config or the call fails cleanly."""
import ast

from ..cfg import witness, describe_path
from ..core import AnalysisError, u, walk_local, enclosing_stmt
from ..lib import (construct, std_facts, def_of, facts_imply, calls_of_node,
                   in_subtree, terminates_in_raise, facts_at, format_sites)
from .wrapper import WrapperModel, REQ
from .common import allowed_stores, fresh_kwarg_defaults, signature_agreement


def run(ctx):
  prog = ctx.prog
  allowed_stores(ctx, 'C10.registration', {'config._get_validated_required_kwargs': set(), 'config._get_kwarg_defaults': set(),
                                          'config._order_by_signature': set()},
                 'which parameters are REQUIRED is a function of the signature and the lists given at this registration only')
  fresh_kwarg_defaults(ctx, 'C10.registration')
  signature_agreement(ctx, 'C10.registration')
  w = WrapperModel(ctx)
  f, g, facts = w.f, w.g, w.facts
  con = construct(f)
  fs_call = facts[w.call_node.id]

  # ---- C10.before-call
  raises = [n for n in g.live_nodes() if n.kind == 'raise_stmt' and n.ast.exc is not None and 'RuntimeError' in u(n.ast.exc)]
  missing = None
  for n in raises:
    conds = [fct for fct in facts[n.id] if fct[0] == 'c' and fct[2] is True and fct[1].isidentifier()]
    if conds:
      missing = conds[-1][1]
  # the list that the REQUIRED loops append to
  appended = {}
  for n in g.live_nodes():
    s = n.ast
    if n.kind == 'stmt' and isinstance(s, ast.Expr) and isinstance(s.value, ast.Call) and isinstance(s.value.func, ast.Attribute) \
        and s.value.func.attr == 'append':
      appended.setdefault(u(s.value.func.value), []).append(n)
  if missing is None or missing not in appended:
    # try: any list appended under `not in <bindings>` facts
    cand = [k for k, ns in appended.items() if any(any(fct[0] == 'c' and ' in ' in fct[1] and fct[2] is False for fct in facts[n.id]) for n in ns)]
    missing = cand[0] if cand else missing
  if missing is None:
    ctx.fail('C10.before-call', con, 'the wrapper no longer raises for unfilled REQUIRED parameters', f.loc(), instance='raise')
    return
  ok = ('c', missing, False) in fs_call
  ctx.check(ok, 'C10.before-call', con,
            'the wrapped call is reached only when the list of unfilled REQUIRED parameters (`%s`) is empty: otherwise the wrapper raises first' % missing,
            'the wrapped call is not dominated by `if %s: raise`: the function body can run with an unfilled REQUIRED parameter' % missing,
            w.loc(w.call_node), instance='raise')
  def under_missing_if(n):
    a = n.ast
    while getattr(a, 'parent', None) is not None and a is not f.node:
      a = a.parent
      if isinstance(a, ast.If) and u(a.test) == missing:
        return True
    return False
  rt = [n for n in raises if under_missing_if(n)]
  ctx.check(bool(rt), 'C10.before-call', con, 'the failure is a RuntimeError', 'the missing-parameter failure is no longer a RuntimeError', f.loc(), instance='type')

  # ---- C10.vararg
  vg = []
  for n in g.live_nodes():
    if n.kind == 'raise_stmt' and n.loops:
      lp = n.loops[-1]
      if isinstance(lp, ast.For) and w.posnames and isinstance(lp.iter, ast.Subscript) and u(lp.iter.value) == w.A \
          and isinstance(lp.iter.slice, ast.Slice) and lp.iter.slice.upper is None and lp.iter.slice.step is None \
          and lp.iter.slice.lower is not None and u(lp.iter.slice.lower) == 'len(%s)' % w.posnames:
        if any(fct[0] == 'c' and fct[2] is True and fct[1] == '%s is %s' % (u(lp.target), REQ) for fct in facts[n.id]):
          vg.append((n, lp))
  ok = bool(vg)
  if ok:
    lpn = [x for x in g.live_nodes() if x.kind == 'for' and x.ast is vg[0][1]]
    ok = bool(lpn) and witness(g, g.entry.id, [w.call_node.id], avoid=[lpn[0].id]) is None
  if not ok:
    # equivalent form:  if any(v is REQUIRED for v in args[len(names):]): raise
    for n in g.live_nodes():
      if n.kind == 'raise_stmt':
        for fct in facts[n.id]:
          if fct[0] == 'c' and fct[2] is True and fct[1].startswith('any('):
            t = ast.parse(fct[1], mode='eval').body
            if isinstance(t, ast.Call) and t.args and isinstance(t.args[0], ast.GeneratorExp):
              ge = t.args[0]
              it = ge.generators[0].iter
              cond = isinstance(ge.elt, ast.Compare) and isinstance(ge.elt.ops[0], ast.Is) and u(ge.elt.comparators[0]) == REQ \
                  and u(ge.elt.left) == u(ge.generators[0].target)
              sl = isinstance(it, ast.Subscript) and u(it.value) == w.A and isinstance(it.slice, ast.Slice) and it.slice.upper is None \
                  and it.slice.lower is not None and w.posnames and u(it.slice.lower) == 'len(%s)' % w.posnames
              tests = [x for x in g.live_nodes() if x.kind == 'test' and
                       (u(x.ast) == fct[1] or (g.expanded.get(x.id) is not None and u(g.expanded[x.id]) == fct[1]))]
              if cond and sl and tests and witness(g, g.entry.id, [w.call_node.id], avoid=[tests[0].id]) is None:
                ok = True
  ctx.check(ok, 'C10.vararg', con, 'the marker among unnamed (variadic) positionals raises before anything else is done',
            'passing the REQUIRED marker for an unnamed variadic positional is no longer rejected', f.loc(), instance='vararg')

  # ---- C10.identity
  cmp_sites = 0
  bad = []
  for fn in ctx.ix.all_funcs(['config']):
    for n in walk_local(fn.node):
      if isinstance(n, ast.Compare):
        ops = [n.left] + list(n.comparators)
        for op, (a, b) in zip(n.ops, zip(ops, ops[1:])):
          if u(a) == REQ or u(b) == REQ:
            cmp_sites += 1
            if not isinstance(op, (ast.Is, ast.IsNot)):
              bad.append(fn.loc(n))
  ctx.expect_at_least('comparisons with the REQUIRED sentinel', cmp_sites, 5)
  ctx.check(not bad, 'C10.identity', 'gin/config.py::REQUIRED', 'all %d comparisons with the sentinel use identity (`is`)' % cmp_sites,
            'the sentinel is compared by equality / membership at %s: a user value that compares equal to anything (or whose __eq__ raises) '
            'is mistaken for the marker' % bad, bad[0] if bad else 'gin/config.py', sites=cmp_sites)

  # ---- C10.complete
  B = w.B
  Xn = u(w.dstar[0]) if w.dstar else B
  dcs = {t for _, t, _ in w.deepcopies}
  maps = {B, Xn} | dcs
  # (a) positional markers
  pos_ok = False
  detail = 'no loop over the REQUIRED positional indexes'
  for n in g.live_nodes():
    if n.kind == 'for' and w.req_pos_idx and w.req_pos_names and w.req_pos_idx in u(n.ast.iter) and w.req_pos_names in u(n.ast.iter):
      lp = n.ast
      body_nodes = [x for x in g.live_nodes() if x.ast is not None and in_subtree(x.ast, lp) and x.id != n.id]
      app = [x for x in body_nodes if x in appended.get(missing, [])]
      sub = [x for x in body_nodes if x.kind == 'stmt' and isinstance(x.ast, ast.Assign) and isinstance(x.ast.targets[0], ast.Subscript)
             and w.star and u(x.ast.targets[0].value) == u(w.star[0])]
      tgt = [u(e) for e in (lp.target.elts if isinstance(lp.target, ast.Tuple) else [lp.target])]
      a_ok = any(any(fct[0] == 'c' and fct[2] is False and fct[1].split(' in ')[0] in tgt and fct[1].split(' in ')[-1] in maps
                     for fct in facts[x.id]) for x in app)
      s_ok = any(any(fct[0] == 'c' and fct[2] is True and fct[1].split(' in ')[0] in tgt and fct[1].split(' in ')[-1] in maps
                     for fct in facts[x.id]) for x in sub)
      # no path through the body that neither substitutes nor reports
      through = witness(g, [b for b, k in g.succ[n.id] if k == 'loop'][0], [n.id], avoid=[x.id for x in app + sub]) if app and sub else True
      first = [b for b, k in g.succ[n.id] if k == 'loop'][0]
      if first in [x.id for x in app + sub]:
        through = None
      pos_ok = a_ok and s_ok and through is None
      detail = 'bound branch substitutes: %s, unbound branch reports: %s, fall-through: %s' % (s_ok, a_ok, through is not None)
  ctx.check(pos_ok, 'C10.complete', con,
            'a positional marker is either replaced by the bound value (in its own position) or reported missing; no branch leaves it in place',
            'a positional REQUIRED marker can stay in the arguments (%s)' % detail, f.loc(), instance='positional')
  # (b) keyword markers
  kw_ok = False
  detail = 'no loop over the REQUIRED keywords'
  for n in g.live_nodes():
    if n.kind == 'for' and w.req_kw and u(n.ast.iter) == w.req_kw:
      lp = n.ast
      var = u(lp.target)
      body_nodes = [x for x in g.live_nodes() if x.ast is not None and in_subtree(x.ast, lp) and x.id != n.id]
      app = [x for x in body_nodes if x in appended.get(missing, [])]
      pops = [x for x in body_nodes if any(isinstance(c.func, ast.Attribute) and c.func.attr == 'pop' and u(c.func.value) == w.K
                                           and c.args and u(c.args[0]) == var for c in calls_of_node(x))] + \
             [x for x in body_nodes if x.kind == 'stmt' and isinstance(x.ast, ast.Delete) and u(x.ast.targets[0]) == '%s[%s]' % (w.K, var)]
      a_ok = any(('c', '%s in %s' % (var, m), False) in facts[x.id] for x in app for m in maps)
      p_ok = any(('c', '%s in %s' % (var, m), True) in facts[x.id] for x in pops for m in maps)
      first = [b for b, k in g.succ[n.id] if k == 'loop'][0]
      ids = [x.id for x in app + pops]
      through = None if first in ids else (witness(g, first, [n.id], avoid=ids) if ids else True)
      kw_ok = a_ok and p_ok and through is None
      detail = 'bound branch removes the marker from **%s: %s, unbound branch reports: %s, fall-through: %s' % (w.K, p_ok, a_ok, through is not None)
  ctx.check(kw_ok, 'C10.complete', con,
            'a keyword marker is either removed from the caller\'s keywords (so the bound value is used) or reported missing',
            'a keyword REQUIRED marker can reach the function through the final merge of the caller\'s keywords (%s)' % detail,
            f.loc(), instance='keyword')
  # (c) signature-default markers
  sig_var = None
  for st in walk_local(w.factory.node):
    if isinstance(st, ast.Assign) and isinstance(st.value, ast.Call) and \
        prog.resolve_call(w.factory, st.value) == 'config._get_validated_required_kwargs':
      sig_var = u(st.targets[0])
  sig_ok = False
  detail = 'no loop over the signature-level REQUIRED parameters'
  if sig_var:
    for n in g.live_nodes():
      if n.kind == 'for' and u(n.ast.iter) == sig_var:
        var = u(n.ast.target)
        app = [x for x in appended.get(missing, []) if in_subtree(x.ast, n.ast)]

        def atom(e):
          if isinstance(e, ast.Compare) and len(e.ops) == 1 and isinstance(e.ops[0], ast.In) and u(e.left) == var:
            r = u(e.comparators[0])
            if r == w.posnames:
              return 'pos'
            if r == w.K:
              return 'kw'
            if r in maps:
              return 'bound'
          return None
        if app:
          m1 = facts_imply(facts[app[0].id], [('reported only when unfilled', 'not pos and not kw and not bound')], atom)
          tests = [t for t in g.live_nodes() if t.kind == 'test' and in_subtree(t.ast, n.ast)]
          m2 = []
          for t in tests:
            if any(b == app[0].id for b, k in g.succ[t.id] if k == 'T'):
              m2 = True
              for tx in (t.ast, g.expanded.get(t.id), g.expanded_bool.get(t.id)):
                if tx is not None and m2:
                  m2 = facts_imply({('c', u(tx), False)}, [('every unfilled marker reported', 'pos or kw or bound')], atom)
          sig_ok = not m1 and not m2
          detail = 'counter-example %s' % ((m1 or m2)[0][1] if (m1 or m2) else '')
  ctx.check(sig_ok, 'C10.complete', con,
            'a signature-default marker is reported missing exactly when the name is in neither the positionals, the keywords nor the bindings',
            'the signature-level REQUIRED test is not `not positional and not keyword and not bound` (%s)' % detail, f.loc(), instance='signature')

  # ---- C10.order
  okord = False
  for n in rt:
    d = def_of(facts[n.id], missing)
    if d and d.startswith('_order_by_signature('):
      okord = True
  fmt_uses = [c for n in g.live_nodes() if n.ast is not None and n.kind in ('stmt', 'raise_stmt', 'return') for c, _t, ops in format_sites(n.ast)
              if any(u(a) == missing for a in ops)]
  for c in fmt_uses:
    st = enclosing_stmt(c)
    fs = facts_at(g, facts, st) or frozenset()
    d = def_of(fs, missing)
    okord = d is not None and d.startswith('_order_by_signature(')
  ctx.check(okord, 'C10.order', con, 'the missing names are ordered by _order_by_signature before they are formatted into the error',
            'the missing names are reported without being put into signature order', f.loc(), instance='order')
  ob = ctx.func('config._order_by_signature')
  ok = any(isinstance(n, ast.ListComp) and 'all_args' in u(n.generators[0].iter) for n in walk_local(ob.node)) and \
      any(isinstance(c, ast.Call) and u(c.func) == 'all_args.extend' and 'kwonlyargs' in u(c.args[0]) for c in walk_local(ob.node))
  ctx.check(ok, 'C10.order', construct(ob), 'ordering follows positional-or-keyword then keyword-only parameters of the signature',
            '_order_by_signature no longer iterates the signature order (args then kwonlyargs)', ob.loc(), instance='helper')

  # ---- C10.registration
  rv = ctx.func('config._get_validated_required_kwargs')
  g2, facts2 = std_facts(prog, rv)
  apps = [n for n in g2.live_nodes() if n.kind == 'stmt' and isinstance(n.ast, ast.Expr) and isinstance(n.ast.value, ast.Call)
          and isinstance(n.ast.value.func, ast.Attribute) and n.ast.value.func.attr == 'append']

  def atom2(e):
    t = u(e)
    if t == 'allowlist':
      return 'allow'
    if t == 'denylist':
      return 'deny'
    if isinstance(e, ast.Compare) and len(e.ops) == 1 and isinstance(e.ops[0], ast.In):
      if u(e.comparators[0]) == 'allowlist':
        return 'in_allow'
      if u(e.comparators[0]) == 'denylist':
        return 'in_deny'
    if isinstance(e, ast.Compare) and len(e.ops) == 1 and isinstance(e.ops[0], ast.Is) and u(e.comparators[0]) == REQ:
      return 'is_required'
    return None
  ok = bool(apps)
  miss = []
  for n in apps:
    miss = facts_imply(facts2[n.id], [('denylisted marker rejected', 'not deny or not in_deny'),
                                      ('non-allowlisted marker rejected', 'not allow or in_allow'),
                                      ('only markers collected', 'is_required')], atom2)
    if miss:
      ok = False
  ctx.check(ok, 'C10.registration', construct(rv),
            'a signature-level marker is collected only after the denylist / allowlist rejections',
            'a signature-level REQUIRED on a parameter that is %s is accepted at registration' %
            ('; '.join(l for l, _ in miss) if miss else 'denylisted or not allowlisted'), rv.loc(), instance='guards')
  called = [c for c in walk_local(w.factory.node) if isinstance(c, ast.Call) and prog.resolve_call(w.factory, c) == rv.qual]
  ctx.check(bool(called) and not any(in_subtree(c, f.node) for c in called), 'C10.registration', construct(w.factory),
            'the validation runs in the factory, i.e. at registration', 'signature-level REQUIRED markers are no longer validated at registration',
            w.factory.loc(), instance='at-registration')
