from ._h import S
P = 'config_parser.py'
SEEDS = [
  S('minus-consumed-then-decline', 'C02.backtrack', P, "      if self._current_token.type != tokenize.NUMBER:\n        self._raise_syntax_error(\"Expected a number after '-'.\")\n", "", 'F1 re-introduced'),
  S('macro-advances-before-declining', 'C02.backtrack', P, "    if self._current_token.string != '%':\n      return False, None\n\n    location = self._current_location()\n    self._advance_one_token()\n", "    location = self._current_location()\n    self._advance_one_token()\n    if self._current_token.string != '%':\n      return False, None\n"),
  S('reference-declines-after-at', 'C02.backtrack', P, "    scoped_name = self._parse_selector(allow_periods_in_scope=True)\n\n    evaluate = False", "    if self._current_token.type != tokenize.NAME:\n      return False, None\n    scoped_name = self._parse_selector(allow_periods_in_scope=True)\n\n    evaluate = False"),
  S('eos-guard-removed', 'C02.eos', P, "    if self._current_token.type not in end_types:\n      self._raise_syntax_error('Expected newline.')\n", ""),
  S('eos-accepts-anything-after-string', 'C02.eos', P, "    end_types = (tokenize.NEWLINE, tokenize.DEDENT, tokenize.ENDMARKER)", "    end_types = (tokenize.NEWLINE, tokenize.DEDENT, tokenize.ENDMARKER, tokenize.NAME)"),
  S('literal-error-swallowed', 'C02.delegate', P, "        self._raise_syntax_error(err_str.format(e, token_value))", "        value = token_value"),
  S('gin-specific-decoding', 'C02.delegate', P, "      token_value += self._current_token.string\n\n      try:", "      token_value += self._current_token.string.replace('_', '')\n\n      try:"),
  S('one-tuple-rule-ignores-comma', 'C02.containers', P, "      if type_fn is tuple and len(values) == 1 and not saw_comma:", "      if type_fn is tuple and len(values) == 1:"),
  S('bracket-table-swapped', 'C02.containers', P, "        '(': (')', tuple, self.parse_value),\n        '[': (']', list, self.parse_value)", "        '(': (')', list, self.parse_value),\n        '[': (']', tuple, self.parse_value)"),
  S('dict-colon-optional', 'C02.containers', P, "    if self._current_token.string != ':':\n      self._raise_syntax_error(\"Expected ':'.\")\n    self._advance()\n    value", "    if self._current_token.string == ':':\n      self._advance()\n    value"),
  S('block-member-no-newline-check', 'C02.eos', P, "        self._expect(tokenize.NEWLINE, 'Expected newline.')\n        self._skip_whitespace_and_comments()", "        self._skip([tokenize.NEWLINE])\n        self._skip_whitespace_and_comments()"),
]
