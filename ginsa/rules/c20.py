"""C20 clear_config returns the configuration to its pristine state."""
import ast

from ..cfg import describe_path, witness
from ..core import AnalysisError, u, walk_local, enclosing_stmt
from ..lib import construct, calls_of_node, raise_guards, names_of_text, in_subtree, std_facts
from ..resolve import store_accesses, module_stores, enclosing_withs, in_with_body
from .common import LOCK_SETTER, nodes_calling

# DESIGN.md appendix B (confirmed by reading).
CONFIG_STATE = {
    '_CONFIG': 'bindings',
    '_CONFIG_PROVENANCE': 'binding locations',
    '_SINGLETONS': 'cached singletons',
    '_IMPORTS': 'recorded imports',
    '_OPERATIVE_CONFIG': 'operative record',
    '_CONFIG_IS_LOCKED': 'lock flag',
    '_CONSTANTS': 'constants',
}
INFRA = {
    '_REGISTRY': 'registrations survive a clear',
    '_INVERSE_REGISTRY': 'registrations survive a clear',
    '_RENAMED_SELECTORS': 'selector renames belong to registrations',
    '_FINALIZE_HOOKS': 'hook registrations',
    '_FILE_READERS': 'reader registrations',
    '_LOCATION_PREFIXES': 'search path registrations',
    '_ARG_SPEC_CACHE': 'pure cache keyed by function object',
    '_INTERACTIVE_MODE': 'process mode with its own context manager',
    '_PARSE_CONTEXTS': 'balanced stack (C16.context)',
    '_SCOPE_MANAGER': 'per-thread, balanced (C09)',
    '_OPERATIVE_CONFIG_LOCK': 'lock',
    'REQUIRED': 'immutable sentinel',
}
STATE_READS = set(CONFIG_STATE) | {'_INTERACTIVE_MODE'}


def run(ctx):
  prog = ctx.prog
  cc = ctx.func('config.clear_config')
  con = construct(cc)
  m = ctx.ix.module('config')
  stores = module_stores(prog, 'config')
  ctx.expect_at_least('module-level stores of config.py', len(stores), 15)
  _, acc = store_accesses(prog, 'config')
  g = prog.cfg(cc)

  def reset_nodes(store):
    out = []
    for a in acc:
      if a.store == store and a.func is cc and a.method == 'clear':
        st = enclosing_stmt(a.node)
        out.extend(g.nodes_for(st))
    return out

  # ---- C20.classified
  for name in sorted(stores):
    st, val = stores[name]
    if name in CONFIG_STATE or name in INFRA:
      ctx.hold('C20.classified', 'gin/config.py::' + name,
               'configuration state (%s)' % CONFIG_STATE[name] if name in CONFIG_STATE else 'registration/infrastructure state (%s)' % INFRA[name],
               'gin/config.py:%d' % st.lineno, instance='classified')
      continue
    if isinstance(val, ast.Call) and u(val.func) in ('threading.Lock', 'threading.RLock', 'object', 're.compile'):
      ctx.hold('C20.classified', 'gin/config.py::' + name, 'lock / immutable helper object', 'gin/config.py:%d' % st.lineno, instance='classified')
      continue
    writers = sorted({a.func.qual for a in acc if a.store == name and a.kind in ('write', 'rebind') and a.func is not None})
    readers = sorted({a.func.qual for a in acc if a.store == name and a.kind in ('read', 'escape') and a.func is not None})
    rs = reset_nodes(name)
    always = bool(rs) and witness(g, g.entry.id, [g.exit.id], avoid=[n.id for n in rs]) is None
    if not writers or always:
      ctx.hold('C20.classified', 'gin/config.py::' + name,
               'new store: %s' % ('never written after import' if not writers else 'reset by clear_config on every path'),
               'gin/config.py:%d' % st.lineno, instance='classified')
    else:
      ctx.fail('C20.classified', 'gin/config.py::' + name,
               'module-level store %s is written by %s and read by %s but is not reset by clear_config: state survives a clear, '
               'so the configuration is distinguishable from a fresh process' % (name, writers, readers),
               'gin/config.py:%d' % st.lineno, instance='unclassified')

  # ---- C20.complete
  for name, what in CONFIG_STATE.items():
    if name not in stores and name not in m.assigns:
      raise AnalysisError('store %s vanished from config.py' % name)
    if name == '_CONFIG_IS_LOCKED':
      ns = [n for n in nodes_calling(prog, cc, g, LOCK_SETTER)
            if any(prog.resolve_call(cc, c) == LOCK_SETTER and c.args and isinstance(c.args[0], ast.Constant)
                   and c.args[0].value is False for c in calls_of_node(n))]
    else:
      ns = reset_nodes(name)
    w = witness(g, g.entry.id, [g.exit.id], avoid=[n.id for n in ns]) if ns else [g.entry.id, g.exit.id]
    if name == '_CONSTANTS':
      continue
    ctx.check(w is None, 'C20.complete', con, '%s (%s) reset on every path' % (name, what),
              '%s (%s) is not reset on every path through clear_config: %s survive a clear' % (name, what, what),
              cc.loc(), sites=len(g.live_nodes()), instance=name, path=describe_path(g, w) if w else None)
  # constants: both branches
  g2, facts = std_facts(prog, cc)
  p0 = cc.params[0] if cc.params else 'clear_constants'
  const_clear = [n for n in g2.live_nodes() if any(u(c.func) == '_CONSTANTS.clear' for c in calls_of_node(n))]
  readd = [n for n in g2.live_nodes() if n.kind == 'stmt' and isinstance(n.ast, ast.Assign)
           and u(n.ast.targets[0]) == "_CONSTANTS['gin.REQUIRED']" and u(n.ast.value) == 'REQUIRED']
  t_clear = [n for n in const_clear if ('c', p0, True) in facts[n.id]]
  t_readd = [n for n in readd if ('c', p0, True) in facts[n.id]]
  okT = bool(t_clear) and bool(t_readd) and all(g2.reaches(c.id, r.id) for c in t_clear for r in t_readd)
  ctx.check(okT, 'C20.complete', con, 'clear_constants=True: constants cleared, then gin.REQUIRED re-added',
            'clear_constants=True: constants are not cleared and gin.REQUIRED re-added afterwards', cc.loc(), instance='_CONSTANTS:clear')
  # preserving branch: either untouched, or saved-copy -> clear -> re-insert every saved item
  f_clear = [n for n in const_clear if ('c', p0, False) in facts[n.id]]
  if not f_clear:
    ctx.hold('C20.complete', con, 'clear_constants=False: the constant table is left untouched', cc.loc(), instance='_CONSTANTS:keep')
  else:
    loops = [n for n in g2.live_nodes() if n.kind == 'for' and ('c', p0, False) in facts[n.id]]
    ok = False
    # a snapshot of all (name, value) pairs of the table, in either spelling
    pair_snapshots = ('list(_CONSTANTS.items())', 'tuple(_CONSTANTS.items())', 'sorted(_CONSTANTS.items())')
    for lp in loops:
      it = u(lp.ast.iter)
      if it.endswith('.items()') and isinstance(lp.ast.target, ast.Tuple) and len(lp.ast.target.elts) == 2:
        src, forms = it[:-len('.items()')], ('_CONSTANTS.copy()', 'dict(_CONSTANTS)', 'dict(_CONSTANTS.items())')
      elif isinstance(lp.ast.iter, ast.Name) and isinstance(lp.ast.target, ast.Tuple) and len(lp.ast.target.elts) == 2:
        src, forms = it, pair_snapshots
      else:
        continue
      saved = [n for n in g2.live_nodes() if n.kind == 'stmt' and isinstance(n.ast, ast.Assign)
               and u(n.ast.targets[0]) == src and u(n.ast.value) in forms]
      reins = [c for c in walk_local(lp.ast) if isinstance(c, ast.Call) and prog.resolve_call(cc, c) == 'config.constant'] + \
              [s for s in walk_local(lp.ast) if isinstance(s, ast.Assign) and u(s.targets[0]).startswith('_CONSTANTS[')]
      if saved and reins and all(g2.reaches(s.id, c.id) for s in saved for c in f_clear) and all(g2.reaches(c.id, lp.id) for c in f_clear):
        ok = True
    ctx.check(ok, 'C20.complete', con, 'clear_constants=False: constants saved before the clear and every saved item re-inserted',
              'clear_constants=False: constants are cleared but not all restored', cc.loc(), instance='_CONSTANTS:keep')
  # SelectorMap.clear resets both fields; copy copies both
  sm = ctx.cls('selector_map.SelectorMap')
  init = sm.methods.get('__init__')
  fields = sorted({n.attr for n in walk_local(init.node) if isinstance(n, ast.Attribute) and isinstance(n.ctx, ast.Store)
                   and isinstance(n.value, ast.Name) and n.value.id == 'self'})
  ctx.expect_at_least('SelectorMap fields', len(fields), 2)
  clr = sm.methods.get('clear')
  cleared = {u(c.func.value).split('.', 1)[1] for c in walk_local(clr.node) if isinstance(c, ast.Call)
             and isinstance(c.func, ast.Attribute) and c.func.attr == 'clear' and u(c.func.value).startswith('self.')}
  cleared |= {n.attr for n in walk_local(clr.node) if isinstance(n, ast.Attribute) and isinstance(n.ctx, ast.Store)}
  ctx.check(set(fields) <= cleared, 'C20.complete', 'gin/selector_map.py::SelectorMap.clear', 'clear resets every field %s' % fields,
            'SelectorMap.clear leaves %s untouched: removed names still match by suffix (or values survive)' % sorted(set(fields) - cleared),
            clr.loc(), instance='map-clear')

  # ---- C20.total
  reach = sorted(prog.reachable([cc.qual]))
  n_guards = 0
  for q in reach:
    f = ctx.ix.get(q)
    if not hasattr(f, 'node') or isinstance(f.node, ast.ClassDef):
      continue
    for ifn, atoms in raise_guards(prog, f):
      n_guards += 1
      txt = u(ifn.test)
      names = names_of_text(txt)
      reads = sorted(names & STATE_READS)
      self_state = [a for a in ast.walk(ifn.test) if isinstance(a, ast.Attribute) and isinstance(a.value, ast.Name)
                    and a.value.id == 'self' and a.attr.startswith('_selector')]
      # a raise on the argument's *form* (regex over the name) cannot fire for names that were stored before
      if not reads and not self_state:
        continue
      path = prog.path_to(cc.qual, q)
      ctx.fail('C20.total', con,
               'clear_config reaches `%s`, whose rejection `if %s: raise` reads configuration state (%s): for some histories '
               '(e.g. constants defined in interactive mode where one name is a dotted suffix of another) clear_config raises '
               'half-way and leaves the later stores uncleared' % (f.name, txt, ', '.join(reads or [u(a) for a in self_state])),
               f.loc(ifn), sites=1, instance='%s:%s' % (f.name, txt), path=path)
  ctx.hold('C20.total', con, '%d raise-guards examined in %d functions reachable from clear_config; those listed as failing '
           'obligations (if any) read configuration state' % (n_guards, len(reach)), cc.loc(), sites=n_guards, instance='swept')
  from .common import lock_order
  lock_order(ctx, 'C20.total')
  # constants survive *as the same objects*: the saved copy holds the values by identity
  sm_copy = sm.methods.get('copy')
  vm = [a for a in walk_local(sm_copy.node) if isinstance(a, ast.Assign) and isinstance(a.targets[0], ast.Attribute) and a.targets[0].attr == '_selector_map']
  from ..lib import copy_kind
  ok = bool(vm) and all(copy_kind(a.value) == 'SHALLOW' for a in vm)
  ctx.check(ok, 'C20.complete', 'gin/selector_map.py::SelectorMap.copy', 'the saved constants keep the stored objects themselves (value map copied shallowly)',
            'SelectorMap.copy does not keep the stored objects themselves (`%s`): constants re-inserted by clear_config() are copies, and a value that cannot be '
            'deep-copied makes clear_config() raise half-way' % [u(a.value) for a in vm], sm_copy.loc(), instance='constants-identity')
