"""Dynamic replays of the triaged findings (DESIGN.md section 6).

NOT part of any check: they only separate a genuine defect from a false alarm
and show that a `fix:` commit corrects the behaviour.  Each script exits 1 and
prints DEFECT when the defect is present, exits 0 and prints OK otherwise.
Run with:  /venv/bin/python replays/F01.py   (uses /repo, or $GINSA_REPO)
"""
import os, sys
sys.path.insert(0, os.environ.get('GINSA_REPO', '/repo'))
import gin  # noqa
from gin import config  # noqa

def done(defect, msg):
  print(('DEFECT: ' if defect else 'OK: ') + msg)
  sys.exit(1 if defect else 0)
