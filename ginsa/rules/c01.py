"""C01 Injected arguments: caller's values over scope-layered bindings."""
import ast

from ..cfg import witness, describe_path
from ..core import AnalysisError, u, walk_local, enclosing_stmt
from ..lib import (construct, std_facts, facts_at, def_of, calls_of_node,
                   copy_kind, in_subtree, stored_names, expand_expr)
from ..resolve import store_accesses
from .common import scope_entry, allowed_stores, scope_who, signature_agreement
from .c04 import isolate
from .wrapper import WrapperModel


def overlay(ctx):
  prog = ctx.prog
  f = ctx.func('config._get_bindings')
  con = construct(f)
  g, facts = std_facts(prog, f)
  _, acc = store_accesses(prog, 'config', ['_CONFIG'])
  reads = [a for a in acc if a.func is f]
  ctx.expect_at_least('binding-store reads in _get_bindings', len(reads), 1)
  rets = [n for n in g.live_nodes() if n.kind == 'return' and n.ast.value is not None]
  if len(rets) != 1 or not isinstance(rets[0].ast.value, ast.Name):
    raise AnalysisError('_get_bindings: single `return <accumulator>` not found')
  ACC = rets[0].ast.value.id
  inits = [n for n in g.live_nodes() if n.kind == 'stmt' and isinstance(n.ast, ast.Assign)
           and u(n.ast.targets[0]) == ACC and not n.loops]
  ok = len(inits) == 1 and isinstance(inits[0].ast.value, ast.Dict) and not inits[0].ast.value.keys
  ctx.check(ok, 'C01.overlay', con, 'the result starts as an empty dict', 'the accumulator is not initialised empty (`%s`)'
            % [u(n.ast) for n in inits], f.loc(), instance='init')
  for a in reads:
    # the read: ACC.update(_CONFIG.get((KEY, selector), {}))
    call = a.node.parent.parent if isinstance(a.node.parent, ast.Attribute) else None
    inst = 'read@%d' % len([r for r in reads if r.node.lineno <= a.node.lineno])
    if isinstance(call, ast.Call) and a.method == 'get' and call.args and isinstance(call.args[0], ast.Name):
      # the key was put in a temporary first
      st0 = enclosing_stmt(a.node)
      d0 = def_of(facts[g.nodes_for(st0)[0].id], call.args[0].id) if g.nodes_for(st0) else None
      try:
        k0 = ast.parse(d0, mode='eval').body if d0 else None
      except SyntaxError:
        k0 = None
      if isinstance(k0, ast.Tuple) and len(k0.elts) == 2:
        call.args[0] = k0
    if not (isinstance(call, ast.Call) and a.method == 'get' and call.args and isinstance(call.args[0], ast.Tuple)
            and len(call.args[0].elts) == 2):
      if a.method == '__getitem__' and isinstance(a.node.parent.slice, ast.Tuple):
        call = None
        keyt = a.node.parent.slice
      else:
        raise AnalysisError('_get_bindings reads the binding store through an unrecognised form `%s`'
                            % u(enclosing_stmt(a.node)))
    else:
      keyt = call.args[0]
    st = enclosing_stmt(a.node)
    node = g.nodes_for(st)[0]
    fs = facts[node.id]
    sel_ok = u(keyt.elts[1]) == f.params[0]
    keyname = keyt.elts[0]
    kd = def_of(fs, keyname.id) if isinstance(keyname, ast.Name) else u(keyname)
    # merge direction
    upd = st.value if isinstance(st, ast.Expr) else None
    merged_ok = isinstance(upd, ast.Call) and isinstance(upd.func, ast.Attribute) and upd.func.attr == 'update' \
        and u(upd.func.value) == ACC and (call is None or upd.args and upd.args[0] is call)
    # equivalent display form: ACC = {**ACC, **level}
    if isinstance(st, ast.Assign) and u(st.targets[0]) == ACC and isinstance(st.value, ast.Dict) \
        and len(st.value.keys) == 2 and all(k is None for k in st.value.keys) \
        and u(st.value.values[0]) == ACC and in_subtree(a.node, st.value.values[1]):
      merged_ok = True
    ctx.check(merged_ok, 'C01.overlay', con, 'each scope level is merged with `%s.update(...)`: the later (longer) prefix wins' % ACC,
              'scope levels are merged by `%s`, not by updating the accumulator with the level\'s bindings: a longer scope '
              'prefix no longer overrides a shorter one' % u(st), f.loc(st), instance=inst + ':merge')
    ctx.check(sel_ok, 'C01.overlay', con, 'the store is read under the configurable\'s own selector',
              'the store key uses `%s` instead of the selector' % u(keyt.elts[1]), f.loc(st), instance=inst + ':selector')
    # which scope strings are read, in which order
    loops = [l for l in node.loops if isinstance(l, ast.For)]
    if not loops and ('c', 'inherit_scopes', False) in fs:
      # strict mode handled on its own: exactly the given scope
      SCn = f.params[1] if len(f.params) > 1 else 'scope_components'
      ctx.check(kd is not None and kd.replace(' ', '') == "'/'.join(%s)" % SCn, 'C01.overlay', con, 'strict mode reads exactly the given scope',
                'strict (inherit_scopes=False) mode reads the key `%s`' % kd, f.loc(st), instance='strict')
      continue
    if not loops:
      raise AnalysisError('_get_bindings: store read is not inside a loop over scope prefixes')
    lp = loops[-1]
    P = u(lp.target)
    if index_form(ctx, f, g, facts, lp, kd, st, inst, con):
      continue
    join_ok = kd is not None and kd.replace(' ', '') == "'/'.join(%s)" % P
    ctx.check(join_ok, 'C01.overlay', con, "the scope key is '/'.join(prefix)",
              "the scope key is `%s`, not '/'.join(<prefix>)" % kd, f.loc(st), instance=inst + ':key')
    src = lp.iter
    lpn = [x for x in g.live_nodes() if x.kind == 'for' and x.ast is lp][0]
    # candidate definitions of the iterated list per branch
    cands = []
    if isinstance(src, ast.Name):
      for n in g.live_nodes():
        if n.kind == 'stmt' and isinstance(n.ast, ast.Assign) and u(n.ast.targets[0]) == src.id:
          cands.append((n, n.ast.value))
    else:
      cands.append((lpn, src))
    inherit = 'inherit_scopes'
    SC = None
    for n in g.live_nodes():
      if n.kind == 'stmt' and isinstance(n.ast, ast.Assign) and isinstance(n.ast.value, ast.BoolOp) \
          and any(isinstance(v, ast.Call) and prog.resolve_call(f, v) == 'config.current_scope' for v in n.ast.value.values):
        SC = u(n.ast.targets[0])
    if SC is None:
      # no fallback inside: then every caller has to hand in a scope (the active one, or one it resolved)
      sites = prog.call_sites_of(f.qual)
      p1 = f.params[1] if len(f.params) > 1 else None
      has_default = p1 is not None and any(isinstance(d, ast.Constant) and d.value is None for d in f.node.args.defaults)
      given = bool(sites) and all(len(c.args) > 1 or any(k.arg == p1 for k in c.keywords) for _cf, c in sites)
      ctx.check(given and not has_default, 'C01.fresh', con, 'every caller supplies the scope (the one active at the call, or one it resolved)',
                'an omitted scope no longer falls back to the scope active at the time of the call', f.loc(), instance='current-scope')
      SC = p1 or 'scope_components'
    else:
      ctx.hold('C01.fresh', con, 'an omitted scope falls back to current_scope() evaluated at call time', f.loc(), instance='current-scope')
    seen_inherit = False
    for n, val in cands:
      fs2 = facts[n.id]
      strict = ('c', inherit, False) in fs2
      if strict:
        ok = isinstance(val, ast.List) and len(val.elts) == 1 and u(val.elts[0]) == SC
        ctx.check(ok, 'C01.overlay', con, 'strict mode reads exactly the given scope',
                  'strict (inherit_scopes=False) mode reads `%s`' % u(val), f.loc(n.ast), instance='strict')
        continue
      seen_inherit = True
      verdict, why = prefix_form(val, SC)
      if verdict == 'unknown':
        raise AnalysisError('_get_bindings: prefix list `%s` is not a form this rule can interpret' % u(val))
      ctx.check(verdict == 'ok', 'C01.overlay', con,
                'scope prefixes %s[:0] .. %s[:len] in ascending order: root first, every prefix, full scope last' % (SC, SC),
                'the scope levels applied are `%s`: %s' % (u(val), why), f.loc(n.ast), instance='prefixes')
    if not seen_inherit:
      ctx.fail('C01.overlay', con, 'no branch builds the inherited prefix list', f.loc(), instance='prefixes')


def index_form(ctx, f, g, facts, lp, kd, st, inst, con):
  """The equivalent index form  `for i in range(LO, HI): key = '/'.join(SC[:i])`.
  Returns False if the loop is not of this form."""
  per_mode = None
  if isinstance(lp.target, ast.Name) and isinstance(lp.iter, ast.Name) and kd:
    # the iterable is a name bound per mode: `lengths = range(..)` when inheriting, `[len(SC)]` in strict mode
    per_mode = {}
    for a_ in walk_local(f.node):
      if isinstance(a_, ast.Assign) and len(a_.targets) == 1 and u(a_.targets[0]) == lp.iter.id:
        an = g.nodes_for(a_)
        fa = facts[an[0].id] if an else frozenset()
        if ('c', 'inherit_scopes', True) in fa:
          per_mode[True] = a_.value
        elif ('c', 'inherit_scopes', False) in fa:
          per_mode[False] = a_.value
        else:
          per_mode[True] = per_mode[False] = a_.value
    if set(per_mode) != {True, False}:
      return False
  elif not (isinstance(lp.target, ast.Name) and isinstance(lp.iter, ast.Call) and u(lp.iter.func) == 'range' and kd):
    return False
  try:
    k = ast.parse(kd, mode='eval').body
  except SyntaxError:
    return False
  i = lp.target.id
  if not (isinstance(k, ast.Call) and u(k.func) == "'/'.join" and len(k.args) == 1 and isinstance(k.args[0], ast.Subscript)
          and isinstance(k.args[0].slice, ast.Slice)):
    return False
  sub = k.args[0]
  SC = u(sub.value)
  sl = sub.slice
  lpn = [x for x in g.live_nodes() if x.kind == 'for' and x.ast is lp][0]
  fs = facts[lpn.id]
  scd = def_of(fs, SC) or ''
  ok = 'current_scope()' in scd and ' or ' in scd
  if not ok and SC in f.params:
    # no fallback inside: every caller has to hand in a scope
    sites = ctx.prog.call_sites_of(f.qual)
    has_default = any(isinstance(d, ast.Constant) and d.value is None for d in f.node.args.defaults)
    ok = bool(sites) and not has_default and all(len(c.args) > f.params.index(SC) or any(k.arg == SC for k in c.keywords) for _cf, c in sites)
  ctx.check(ok, 'C01.fresh', con, 'an omitted scope falls back to current_scope() evaluated at call time (or every caller supplies the scope)',
            'an omitted scope no longer falls back to the scope active at the time of the call', f.loc(), instance='current-scope')
  pref_ok = (sl.lower is None or u(sl.lower) == '0') and sl.step is None and sl.upper is not None and u(sl.upper) == i
  ctx.check(pref_ok, 'C01.overlay', con, "the scope key is '/'.join(<prefix of length i>)",
            "the scope key is `%s`, not '/'.join of a prefix of the active scope" % kd, f.loc(st), instance=inst + ':key')

  def lin(e, mode, depth=0):
    if depth > 4:
      return None
    if isinstance(e, ast.Constant) and isinstance(e.value, int) and not isinstance(e.value, bool):
      return (0, e.value)
    if isinstance(e, ast.Call) and u(e.func) == 'len' and len(e.args) == 1 and u(e.args[0]) == SC:
      return (1, 0)
    if isinstance(e, ast.BinOp) and isinstance(e.op, (ast.Add, ast.Sub)):
      a, b = lin(e.left, mode, depth + 1), lin(e.right, mode, depth + 1)
      if a is None or b is None:
        return None
      sgn = 1 if isinstance(e.op, ast.Add) else -1
      return (a[0] + sgn * b[0], a[1] + sgn * b[1])
    if isinstance(e, ast.IfExp):
      t = u(e.test)
      if t == 'inherit_scopes':
        return lin(e.body if mode else e.orelse, mode, depth + 1)
      if t == 'not inherit_scopes':
        return lin(e.orelse if mode else e.body, mode, depth + 1)
      return None
    if isinstance(e, ast.Name):
      d = def_of(fs, e.id)
      if d is None:
        return None
      try:
        return lin(ast.parse(d, mode='eval').body, mode, depth + 1)
      except SyntaxError:
        return None
    return None
  modes = ((True, 'prefixes', (0, 0)), (False, 'strict', (1, 0)))
  if ('c', 'inherit_scopes', True) in fs:
    modes = modes[:1]        # the loop only runs in inheriting mode; strict mode is handled where it is read
  elif ('c', 'inherit_scopes', False) in fs:
    modes = modes[1:]
  for mode, name, want_lo in modes:
    it = per_mode[mode] if per_mode is not None else lp.iter
    if isinstance(it, ast.Call) and u(it.func) == 'range' and it.args and not it.keywords:
      args = it.args
      lo = (0, 0) if len(args) == 1 else lin(args[0], mode)
      hi = lin(args[0] if len(args) == 1 else args[1], mode)
      step = (0, 1) if len(args) < 3 else lin(args[2], mode)
    elif isinstance(it, (ast.List, ast.Tuple)) and len(it.elts) == 1:
      lo = lin(it.elts[0], mode)      # a single length
      hi = None if lo is None else (lo[0], lo[1] + 1)
      step = (0, 1)
    else:
      lo = hi = step = None
    if lo is None or hi is None or step is None:
      raise AnalysisError('_get_bindings: prefix lengths `%s` are not a form this rule can interpret' % u(it))
    ok = lo == want_lo and hi == (1, 1) and step == (0, 1)
    if mode:
      ctx.check(ok, 'C01.overlay', con,
                'scope prefixes %s[:0] .. %s[:len] in ascending order: root first, every prefix, full scope last' % (SC, SC),
                'the scope levels applied are the prefixes of length `%s`: not exactly 0..len(%s) ascending' % (u(lp.iter), SC),
                f.loc(lp), instance=name)
    else:
      ctx.check(ok, 'C01.overlay', con, 'strict mode reads exactly the given scope',
                'strict (inherit_scopes=False) mode reads the prefixes of length `%s`' % u(lp.iter), f.loc(lp), instance=name)
  return True


def prefix_form(val, SC):
  """Interprets `[SC[:i] for i in range(len(SC) + 1)]`-like expressions."""
  if isinstance(val, ast.Call) and u(val.func) in ('reversed', 'sorted'):
    return 'bad', 'the order of the levels is changed by %s(...): shorter prefixes would override longer ones' % u(val.func)
  if isinstance(val, ast.Subscript) and isinstance(val.slice, ast.Slice) and val.slice.step is not None:
    return 'bad', 'the list of levels is re-sliced with a step: order or coverage of the prefixes changes'
  if isinstance(val, ast.Call) and u(val.func) == 'list' and len(val.args) == 1:
    return prefix_form(val.args[0], SC)
  if not isinstance(val, (ast.ListComp, ast.GeneratorExp)) or len(val.generators) != 1:
    return 'unknown', ''
  gen = val.generators[0]
  if gen.ifs:
    return 'bad', 'a filter `%s` drops some prefixes' % u(gen.ifs[0])
  if not isinstance(gen.target, ast.Name):
    return 'unknown', ''
  i = gen.target.id
  elt = val.elt
  if not (isinstance(elt, ast.Subscript) and u(elt.value) == SC and isinstance(elt.slice, ast.Slice)):
    return 'unknown', ''
  sl = elt.slice
  if sl.lower is not None and u(sl.lower) not in ('0',):
    return 'bad', 'the slice `%s` is a suffix, not a prefix of the active scope' % u(elt)
  if sl.step is not None or sl.upper is None or u(sl.upper) != i:
    return 'bad', 'the slice `%s` is not the prefix of length %s' % (u(elt), i)
  it = gen.iter
  if isinstance(it, ast.Call) and u(it.func) == 'reversed':
    return 'bad', 'prefixes are generated longest first: shorter prefixes would override longer ones'
  if not (isinstance(it, ast.Call) and u(it.func) == 'range'):
    return 'unknown', ''
  args = [u(a).replace(' ', '') for a in it.args]
  n1 = 'len(%s)+1' % SC
  n1b = '1+len(%s)' % SC
  if args in ([n1], [n1b], ['0', n1], ['0', n1b], ['0', n1, '1']):
    return 'ok', ''
  if len(args) >= 2 and args[0] != '0':
    return 'bad', 'range starts at %s: the root scope (and shorter prefixes) are never applied' % args[0]
  if args and args[-1 if len(args) < 3 else 1] in ('len(%s)' % SC,):
    return 'bad', 'range stops at len(%s): the full active scope itself is never applied' % SC
  if len(args) == 3:
    return 'bad', 'range step %s skips or reverses prefixes' % args[2]
  return 'bad', 'range(%s) does not enumerate 0..len(%s)' % (', '.join(args), SC)


def run(ctx):
  prog = ctx.prog
  ctx.assume('T3')
  allowed_stores(ctx, 'C01.fresh', {
      'config._get_bindings': {'_CONFIG'},
      'config._make_gin_wrapper': {'_RENAMED_SELECTORS', '_OPERATIVE_CONFIG', '_OPERATIVE_CONFIG_LOCK', '_REGISTRY'},
      'config.config_scope': {'_SCOPE_MANAGER'},
      'config.current_scope': {'_SCOPE_MANAGER'},
  }, 'the injected values must be a function of the binding store and the active scope at call time only; a cache or side table '
     'goes stale when a binding under a shorter scope prefix is added or changed later')
  ctx.section(overlay, ctx)
  w = WrapperModel(ctx)
  f, g, facts = w.f, w.g, w.facts
  con = construct(f)

  # ---- C01.fresh
  from .common import bindings_result_fresh
  bindings_result_fresh(ctx, 'C01.fresh')
  ok = w.B is not None
  ctx.check(ok, 'C01.fresh', con, 'the bindings are fetched by _get_bindings inside the per-call wrapper (under the scope active at the call)',
            'gin_wrapper no longer fetches the bindings itself on every call (hoisted into the factory or cached): bindings made '
            'after registration, or under a different active scope, are not seen', f.loc(), instance='per-call')
  if not ok:
    return
  getc = w.get_node.ast.value
  scope_args = list(getc.args[1:2]) + [k.value for k in getc.keywords if k.arg in ('scope_components',)]
  # passing the scope that is active right now is the same as passing none
  def is_current(e):
    e = expand_expr(facts[w.get_node.id], e)
    return isinstance(e, ast.Call) and prog.resolve_call(f, e) == 'config.current_scope'
  noscope = all(is_current(a) for a in scope_args)
  strict = [k for k in getc.keywords if k.arg == 'inherit_scopes' and not (isinstance(k.value, ast.Constant) and k.value.value is True)]
  ctx.check(noscope and not strict, 'C01.fresh', con, 'no explicit scope is passed: the active scope at call time decides',
            '_get_bindings is called with an explicit scope / strict mode `%s`' % u(getc), f.loc(getc), instance='ambient-scope')
  _, acc = store_accesses(prog, 'config', ['_CONFIG'])
  direct = [a for a in acc if a.func is not None and a.func.qual.startswith('config._make_gin_wrapper')]
  ctx.check(not direct, 'C01.fresh', con, 'the wrapper reads the binding store only through _get_bindings',
            'the wrapper reads the binding store directly at %s' % [a.loc() for a in direct], f.loc(), instance='only-source')

  # ---- C01.precedence
  ctx.check(len(w.calls) == 1 and not w.call_node.loops, 'C01.precedence', con, 'the wrapped callable is called exactly once per call',
            'the wrapped callable is called at %d sites / inside a loop' % len(w.calls), w.loc(w.call_node), instance='single-call')
  call = w.call
  if len(w.dstar) != 1 or len(w.star) != 1 or len(call.args) != 1 or len(call.keywords) != 1:
    ctx.fail('C01.precedence', con, 'the wrapped call is `%s`, not fn(*positional, **keywords)' % u(call), w.loc(w.call_node), instance='call-shape')
    return
  X = w.dstar[0]
  NA = w.star[0]
  # keyword mapping: last write before the call is an update with the caller's kwargs
  if isinstance(X, ast.Dict) and X.keys and all(k is None for k in X.keys):
    last = u(X.values[-1])
    ctx.check(last == w.K, 'C01.precedence', con, 'caller keywords are merged last into the keyword mapping',
              'the keyword mapping `%s` does not end with the caller\'s **%s: a binding overrides what the caller passed' % (u(X), w.K),
              w.loc(w.call_node), instance='caller-kwargs-win')
    Xn = None
  elif isinstance(X, ast.Name):
    Xn = X.id
    upd = [n for n in g.live_nodes() if n.kind == 'stmt' and isinstance(n.ast, ast.Expr) and isinstance(n.ast.value, ast.Call)
           and u(n.ast.value.func) == Xn + '.update' and len(n.ast.value.args) == 1 and u(n.ast.value.args[0]) == w.K]
    ok = bool(upd) and witness(g, g.entry.id, [w.call_node.id], avoid=[n.id for n in upd]) is None
    later = []
    if ok:
      for un in upd:
        reach = g.reachable_from(un.id) - {un.id}
        later += [n for n in w.writes_to(Xn) if n.id in reach and g.reaches(n.id, w.call_node.id)]
    why = 'no `%s.update(%s)` dominates the call' % (Xn, w.K) if not ok else \
        ('`%s` (line %d) writes the mapping after the caller\'s keywords were merged' % (later[0].text(), later[0].lineno) if later else '')
    if Xn == w.K:
      why = 'the call passes the caller\'s own **%s, into which the bindings were merged: a binding overrides what the caller passed' % w.K
      ok = False
    ctx.check(ok and not later, 'C01.precedence', con,
              'the last write to the keyword mapping before the call is `.update(<caller kwargs>)`: every keyword the caller passes reaches the function unchanged',
              'caller keywords do not have the final say: %s' % why, w.loc(w.call_node), instance='caller-kwargs-win')
    # the mapping originates from the bindings
    d = def_of(facts[w.call_node.id], Xn)
    src_ok = Xn == w.B or (d is not None and w.B in d)
    ctx.check(src_ok, 'C01.precedence', con, 'parameters the caller does not pass receive the bound values (the mapping is built from the bindings)',
              'the keyword mapping `%s` is not built from the bindings (`%s`)' % (Xn, d), w.loc(w.call_node), instance='bindings-delivered')
  else:
    ctx.fail('C01.precedence', con, 'unrecognised keyword mapping `%s`' % u(X), w.loc(w.call_node), instance='caller-kwargs-win')
    Xn = None
  # positional: list(args) with element writes only at REQUIRED indexes
  if isinstance(NA, ast.Name):
    d = def_of(facts[w.call_node.id], NA.id)
    if NA.id == w.A:
      ctx.hold('C01.precedence', con, 'positional arguments are passed through as given', w.loc(w.call_node), instance='positional')
    else:
      ok = d in ('list(%s)' % w.A, '%s[:]' % w.A, '[*%s]' % w.A)
      wr = [n for n in w.writes_to(NA.id) if not (n.kind == 'stmt' and isinstance(n.ast, ast.Assign) and u(n.ast.targets[0]) == NA.id)]
      bad = []
      for n in wr:
        s = n.ast
        idx_ok = False
        if n.kind == 'stmt' and isinstance(s, ast.Assign) and isinstance(s.targets[0], ast.Subscript):
          idx = u(s.targets[0].slice)
          for lp in n.loops:
            rl = w.required_positional_loop(lp)
            if rl and rl[0] == idx:
              idx_ok = True
        if not idx_ok:
          bad.append(n)
      ctx.check(ok and not bad, 'C01.precedence', con,
                'positional arguments are a copy of *%s, rewritten only at indexes that held the REQUIRED marker' % w.A,
                'positional arguments are %s%s' % ('`%s`' % d, '; `%s` (line %d) rewrites a position the caller supplied'
                                                    % (bad[0].text(), bad[0].lineno) if bad else ''),
                w.loc(w.call_node), instance='positional')
  # names supplied positionally are dropped from the bindings (else the call fails with "multiple values")
  if Xn is not None:
    removed = [pl for pl in w.removed_before(w.B, w.call_node.id) if pl.names == w.posnames]
    ok = bool(removed) and all(pl.excluded in (None, w.req_pos_names) for pl in removed)
    ctx.check(ok, 'C01.precedence', con, 'bindings for positionally supplied names are dropped before the call (caller wins, no duplicate-value error)',
              'bindings for positionally supplied parameters are not removed before the call', f.loc(), instance='positional-names-dropped')

  # "receives the bound value": the callee must get the value as bound, not an object an earlier call could have edited
  isolate(ctx, w, 'C01.bound-value')
  signature_agreement(ctx, 'C01.precedence')
  pn = ctx.func('config._get_supplied_positional_parameter_names')
  rv = [r.value for r in walk_local(pn.node) if isinstance(r, ast.Return) and r.value is not None]
  okpn = len(rv) == 1 and isinstance(rv[0], ast.Subscript) and isinstance(rv[0].slice, ast.Slice) and u(rv[0].value).endswith('.args') \
      and rv[0].slice.lower is None and u(rv[0].slice.upper) == 'len(%s)' % pn.params[1]
  cont = None
  if not okpn:
    # another spelling: decide by what the returned list is built from (through the repo's own helpers)
    from ..lib import content_eval, Uninterpreted

    def spec_content(fn_, depth=0):
      def atom(e):
        out = set()
        for x in ast.walk(e):
          if isinstance(x, ast.Attribute) and x.attr in ('args', 'kwonlyargs', 'varargs', 'varkw'):
            out.add({'args': 'ARGS', 'kwonlyargs': 'KWONLY', 'varargs': 'VARARGS', 'varkw': 'VARKW'}[x.attr])
          elif isinstance(x, ast.Call) and depth < 3:
            q_ = prog.resolve_call(fn_, x)
            h_ = ctx.ix.get(q_) if q_ else None
            if h_ is not None and hasattr(h_, 'params') and q_ not in ('config._get_cached_arg_spec',) and q_.startswith('config.'):
              out |= spec_content(h_, depth + 1)
        return out
      try:
        got_ = content_eval(fn_.node.body, atom, lambda t, env: None, may=True)
      except Uninterpreted as e_:
        raise AnalysisError('%s builds its list of names in a form this rule cannot interpret: %s' % (fn_.name, e_))
      return set(got_) if isinstance(got_, set) else set()
    cont = spec_content(pn)
    rv_x = []
    for r in rv:
      ds_ = [a_.value for a_ in walk_local(pn.node) if isinstance(a_, ast.Assign) and len(a_.targets) == 1 and isinstance(r, ast.Name) and u(a_.targets[0]) == r.id]
      rv_x.append(ds_[0] if len(ds_) == 1 else r)
    slices = [x for r in rv_x for x in ast.walk(r) if isinstance(x, ast.Subscript) and isinstance(x.slice, ast.Slice)]
    if 'KWONLY' in cont or 'VARARGS' in cont or 'VARKW' in cont:
      okpn = False
    elif 'ARGS' in cont and len(slices) == 1 and slices[0].slice.lower is None and slices[0].slice.step is None \
        and u(slices[0].slice.upper) == 'len(%s)' % pn.params[1]:
      okpn = True
    else:
      raise AnalysisError('_get_supplied_positional_parameter_names returns `%s`: not a form this rule can read' % [u(x) for x in rv])
  ctx.check(okpn, 'C01.precedence', construct(pn), 'names of positionally supplied values are the first len(args) *positional* parameters (surplus values go to *args)',
            'positionally supplied names are computed as `%s` (built from the signature\'s %s): surplus *args values are taken for keyword-only '
            'parameters, whose bindings are then dropped, and a REQUIRED marker passed for *args is no longer rejected'
            % ([u(x) for x in rv], sorted(cont or ())), pn.loc(), instance='positional-names')
  # identity of the REQUIRED marker (a caller value that merely compares equal must reach the function unchanged)
  n_cmp, bad_cmp = 0, []
  for n_ in walk_local(f.node):
    if isinstance(n_, ast.Compare):
      ops_ = [n_.left] + list(n_.comparators)
      for op_, (a_, b_) in zip(n_.ops, zip(ops_, ops_[1:])):
        if u(a_) == 'REQUIRED' or u(b_) == 'REQUIRED':
          n_cmp += 1
          if not isinstance(op_, (ast.Is, ast.IsNot)):
            bad_cmp.append(f.loc(n_))
  if n_cmp < 2:
    raise AnalysisError('gin_wrapper: fewer than two comparisons with the REQUIRED marker found (%d): marker handling not recognised' % n_cmp)
  ctx.check(not bad_cmp, 'C01.precedence', con, 'caller values are tested against the REQUIRED marker by identity only',
            'a caller value is compared with the marker by equality at %s: a value with a permissive __eq__ (mock.ANY, symbolic objects) is replaced by the binding' % bad_cmp,
            bad_cmp[0] if bad_cmp else f.loc(), instance='marker-identity')

  # ---- C01.scope-entry
  scope_entry(ctx, 'C01.scope-entry')
  scope_who(ctx, 'C01.scope-entry')
