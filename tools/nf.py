#!/venv/bin/python
"""Prints the normal form of one function of the (possibly patched) tree: nf.py <patch-id|-> <qualname-suffix> [module]"""
import ast, contextlib, os, subprocess, sys
sys.path.insert(0, '/verif')
sys.path.insert(0, os.path.dirname(os.path.abspath(__file__)))
from scratch import scratch
pid, name = sys.argv[1], sys.argv[2]
modname = sys.argv[3] if len(sys.argv) > 3 else 'config'
patch = None
if pid != '-':
  for d in ('/verif/refactors', '/verif/seeded'):
    p = os.path.join(d, pid, 'patch.diff')
    if os.path.exists(p):
      patch = p
  assert patch, pid
with (scratch(patch) if patch else contextlib.nullcontext(('/repo', True))) as (root, applied):
  assert applied, 'patch does not apply'
  from ginsa.core import Index
  ix = Index(root)
  m = ix.module(modname)
  for q, f in sorted(ix.by_qual.items()):
    if q.endswith(name) and hasattr(f, 'params'):
      print('#', q)
      print(ast.unparse(f.node))
  print('# normalized', m.normalized, getattr(m, 'normalize_error', None))
