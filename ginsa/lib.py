"""Shared recognisers used by the per-property rule modules."""
import ast
import copy

from .cfg import decompose, atoms_of
from .core import AnalysisError, FuncNode, ancestors, u, walk_local, enclosing_stmt

_MUT = {'update', 'setdefault', 'clear', 'pop', 'popitem', 'append', 'add',
        'extend', 'insert', 'remove', 'discard', 'sort', 'reverse',
        'appendleft', 'popleft'}

_names_cache = {}


def names_of_text(text):
  if text not in _names_cache:
    try:
      t = ast.parse(text, mode='eval')
      _names_cache[text] = frozenset(
          n.id for n in ast.walk(t) if isinstance(n, ast.Name))
    except SyntaxError:
      _names_cache[text] = frozenset()
  return _names_cache[text]


_free_cache = {}


def free_names_of_text(text):
  """Names read from the enclosing scope (comprehension / lambda variables excluded)."""
  if text not in _free_cache:
    try:
      t = ast.parse(text, mode='eval')
    except SyntaxError:
      _free_cache[text] = frozenset()
      return _free_cache[text]
    bound = set()
    for n in ast.walk(t):
      if isinstance(n, ast.comprehension):
        bound |= {x.id for x in ast.walk(n.target) if isinstance(x, ast.Name)}
      elif isinstance(n, ast.Lambda):
        bound |= {a.arg for a in n.args.args + n.args.kwonlyargs}
    _free_cache[text] = frozenset(n.id for n in ast.walk(t) if isinstance(n, ast.Name)) - bound
  return _free_cache[text]


def stored_names(node, mutations=True):
  """Names (re)bound (and, with mutations=True, mutated in place) by executing
  CFG node's own code (not its nested blocks)."""
  out = set()
  a = node.ast
  if a is None:
    return out
  if node.kind == 'for':
    for n in ast.walk(a.target):
      if isinstance(n, ast.Name):
        out.add(n.id)
    return out
  if node.kind in ('with_enter',):
    for it in a.items:
      if it.optional_vars is not None:
        for n in ast.walk(it.optional_vars):
          if isinstance(n, ast.Name):
            out.add(n.id)
    return out
  if node.kind in ('with_exit', 'dispatch', 'finally_end'):
    return out
  if node.kind == 'handler':
    if a.name:
      out.add(a.name)
    return out
  if isinstance(a, FuncNode + (ast.ClassDef,)):
    out.add(a.name)
    return out
  for n in _walk_noscope(a):
    if isinstance(n, ast.Name) and isinstance(n.ctx, (ast.Store, ast.Del)):
      out.add(n.id)
    elif not mutations:
      if isinstance(n, ast.NamedExpr):
        out.add(n.target.id)
      continue
    elif isinstance(n, ast.Subscript) and isinstance(n.ctx, (ast.Store, ast.Del)):
      b = _root_name(n.value)
      if b:
        out.add(b)
    elif isinstance(n, ast.Attribute) and isinstance(n.ctx, (ast.Store, ast.Del)):
      b = _root_name(n.value)
      if b:
        out.add(b)
        out.add(u(n))
    elif isinstance(n, ast.Call) and isinstance(n.func, ast.Attribute) and n.func.attr in _MUT:
      b = _root_name(n.func.value)
      if b:
        out.add(b)
    elif isinstance(n, ast.NamedExpr):
      out.add(n.target.id)
  return out


def _root_name(e):
  while isinstance(e, (ast.Attribute, ast.Subscript)):
    e = e.value
  return e.id if isinstance(e, ast.Name) else None


def _walk_noscope(node):
  stack = [node]
  while stack:
    n = stack.pop()
    yield n
    for c in ast.iter_child_nodes(n):
      if isinstance(c, FuncNode + (ast.ClassDef, ast.Lambda)):
        continue
      stack.append(c)


def calls_of_node(node):
  """ast.Call nodes evaluated by a CFG node itself."""
  a = node.ast
  if a is None or node.kind in ('with_exit', 'dispatch', 'finally_end'):
    return []
  if node.kind == 'for':
    roots = [a.iter]
  elif node.kind == 'with_enter':
    roots = [i.context_expr for i in a.items]
  elif node.kind == 'handler':
    roots = [a.type] if a.type is not None else []
  elif isinstance(a, FuncNode + (ast.ClassDef,)):
    roots = list(a.decorator_list)
  else:
    roots = [a]
  out = []
  for r in roots:
    out.extend(n for n in _walk_noscope(r) if isinstance(n, ast.Call))
  return out


def std_facts(prog, f, g=None, extra_kill=None, attr_kill=None, expand=True):
  """Must-facts on entry to every CFG node of f.

  Facts:
    ('c', text, polarity)   a branch condition atom known to have that value
    ('call', qual)          a call to repository function `qual` has completed
    ('def', name, text)     `name` was last assigned from expression `text`
  A condition fact is killed when any name it mentions is re-bound or mutated
  in place; attribute-path atoms (self._current_token...) are killed by
  `attr_kill(node) -> set of attribute paths possibly written` if given.
  """
  g = g or prog.cfg(f)

  def edge_facts(node, kind):
    out = []
    if node.kind == 'test' and kind in ('T', 'F'):
      out.extend(('c', t, p) for t, p in decompose(node.ast, kind == 'T'))
    if kind != 'exc':
      for c in calls_of_node(node):
        q = prog.resolve_call(f, c)
        if q:
          out.append(('call', q))
      a = node.ast
      if node.kind == 'stmt' and isinstance(a, ast.Assign) and len(a.targets) == 1:
        t = a.targets[0]
        if isinstance(t, ast.Name):
          out.append(('def', t.id, u(a.value)))
        elif isinstance(t, (ast.Tuple, ast.List)):
          for i, e in enumerate(t.elts):
            if isinstance(e, ast.Name):
              out.append(('def', e.id, 'unpack[%d](%s)' % (i, u(a.value))))
            elif isinstance(e, ast.Starred) and isinstance(e.value, ast.Name):
              out.append(('def', e.value.id, 'unpack[*%d](%s)' % (i, u(a.value))))
      elif node.kind == 'stmt' and isinstance(a, ast.AnnAssign) and a.value is not None \
          and isinstance(a.target, ast.Name):
        out.append(('def', a.target.id, u(a.value)))
      elif node.kind == 'for' and kind == 'loop':
        if isinstance(a.target, ast.Name):
          out.append(('def', a.target.id, 'iter(%s)' % u(a.iter)))
      elif node.kind == 'with_enter':
        for it in a.items:
          if isinstance(it.optional_vars, ast.Name):
            out.append(('def', it.optional_vars.id, 'with(%s)' % u(it.context_expr)))
    return out

  def kill(node, fact):
    if extra_kill is not None and extra_kill(node, fact):
      return True
    st = stored_names(node)
    if fact[0] == 'c':
      if st and (names_of_text(fact[1]) & st):
        return True
      if attr_kill is not None:
        paths = attr_kill(node)
        if paths and any(p in fact[1] for p in paths):
          return True
      return False
    if fact[0] == 'def':
      stn = stored_names(node, mutations=False)
      if fact[1] in stn:
        return True
      # the defining expression no longer describes the value once one of its operands is re-bound
      # (x = f(s); s = g(s): `x` is f of the *old* s)
      if stn and (free_names_of_text(fact[2]) & stn) and not _self_def(node, fact):
        return True
      return False
    return False

  def _self_def(node, fact):
    # the very statement that creates the fact (s = s.replace(...)) must not kill it again
    a = node.ast
    return node.kind == 'stmt' and isinstance(a, (ast.Assign, ast.AnnAssign)) and fact[2] == u(a.value if a.value is not None else a) \
        if a is not None else False

  # Path sensitivity at two-way joins: if one side knows (c, p) + F and the other (c, not p), then `(c != p) or F` holds after the join.
  def join_facts(facts_in, ef):
    join_gen = {}
    for b in g.succ:
      preds = [(a, k) for a, k in g.pred.get(b, []) if facts_in.get(a) is not None]
      if not (2 <= len(preds) <= 5) or any(g.nodes[a].kind in ('for', 'while') and k in ('loop',) for a, k in preds):
        continue
      outs = []
      for a, k in preds:
        node_a = g.nodes[a]
        surv = frozenset(f_ for f_ in facts_in[a] if not kill(node_a, f_))
        outs.append(surv | frozenset(ef(node_a, k)))
      conds = [{(f_[1], f_[2]) for f_ in o if f_[0] == 'c'} for o in outs]
      # a compound condition known whole on one side is known through its atoms on the other (decompose splits `a and b` when true)
      for i_ in range(len(conds)):
        for j_ in range(len(conds)):
          if i_ == j_:
            continue
          for t_, p_ in list(conds[j_]):
            if (' and ' in t_ or ' or ' in t_) and (t_, not p_) not in conds[i_] and (t_, p_) not in conds[i_]:
              try:
                atoms_ = decompose(ast.parse(t_, mode='eval').body, not p_)
              except SyntaxError:
                continue
              if len(atoms_) > 1 and all((a_, q_) in conds[i_] for a_, q_ in atoms_):
                conds[i_].add((t_, not p_))
      defs_ = [{f_[1]: f_[2] for f_ in o if f_[0] == 'def'} for o in outs]
      gen = set()

      # a name bound differently on the incoming paths: after the join it is the conditional of the definitions, selected by
      # conditions that are known (one way or the other) on every path
      def phi(members, name_, depth=0):
        ds = {defs_[m][name_] for m in members}
        if len(ds) == 1:
          return ds.pop()
        if depth > 3:
          return None
        cands = set.intersection(*[{t_ for t_, _p in conds[m]} for m in members])
        best = None
        for ct in sorted(cands, key=lambda x: (-(' and ' in x or ' or ' in x), len(x), x)):
          pol = {}
          okc = True
          for m in members:
            ps = {p_ for t_, p_ in conds[m] if t_ == ct}
            if len(ps) != 1:
              okc = False
              break
            pol[m] = ps.pop()
          if not okc:
            continue
          T = [m for m in members if pol[m]]
          F = [m for m in members if not pol[m]]
          if T and F:
            best = (ct, T, F)
            break
        if best is None:
          return None
        ct, T, F = best
        dt, df_ = phi(T, name_, depth + 1), phi(F, name_, depth + 1)
        if dt is None or df_ is None:
          return None
        return '(%s) if (%s) else (%s)' % (dt, ct, df_)
      common = set.intersection(*[set(d) for d in defs_]) if defs_ else set()
      for name_ in sorted(common):
        vals = [d[name_] for d in defs_]
        if len(set(vals)) == 1 or any(v.startswith(('unpack[', 'iter(', 'with(')) for v in vals) or sum(len(v) for v in vals) > 700:
          continue
        e_ = phi(list(range(len(preds))), name_)
        if e_ is not None:
          gen.add(('def', name_, e_))
      if len(preds) == 2:
        for i_ in (0, 1):
          mine, other = conds[i_], conds[1 - i_]
          split = [(t_, p_) for t_, p_ in mine if (t_, not p_) in other]
          extra = [(t_, p_) for t_, p_ in mine if (t_, p_) not in other and (t_, not p_) not in other and ' or ' not in t_][:8]
          for ct, cp in split[:3]:
            for ft, fp in extra:
              # on this side: c == cp and f == fp; on the other side: c == not cp
              lit_c_other = '(%s)' % ct if not cp else 'not (%s)' % ct
              lit_f = '(%s)' % ft if fp else 'not (%s)' % ft
              gen.add(('c', '%s or %s' % (lit_c_other, lit_f), True))
      if gen:
        join_gen[b] = frozenset(sorted(gen)[:24])
    return join_gen

  facts1 = g.must_facts(edge_facts, kill)
  def with_joins(facts_in, ef):
    """Nested branches: the conditional definition made at an inner join is an input of the join around it."""
    acc = {}
    cur = facts_in
    for _ in range(3):
      jg = join_facts(cur, ef)
      merged = {b: acc.get(b, frozenset()) | v for b, v in jg.items()}
      for b, v in acc.items():
        merged.setdefault(b, v)
      if merged == acc:
        break
      acc = merged
      cur = g.must_facts(ef, kill, extra_in=acc)
    return cur
  facts1 = with_joins(facts1, edge_facts)
  if not expand:
    return g, facts1

  intermediate = {}

  def expanded_test(node, kinds=None):
    """The branch condition with boolean temporaries replaced by their (must-)definitions."""
    kinds = kinds or (ast.BoolOp, ast.Compare, ast.UnaryOp, ast.Call, ast.Attribute, ast.Name, ast.Subscript, ast.IfExp)
    defs = {f_[1]: f_[2] for f_ in facts1[node.id] if f_[0] == 'def'}
    changed = [False]

    class Sub(ast.NodeTransformer):
      def visit_Name(self, n):
        d = defs.get(n.id)
        if d is None or d.startswith(('unpack[', 'iter(', 'with(')) or not isinstance(n.ctx, ast.Load):
          return n
        try:
          e = ast.parse(d, mode='eval').body
        except SyntaxError:
          return n
        if isinstance(e, kinds) and n.id not in {x.id for x in ast.walk(e) if isinstance(x, ast.Name)}:
          if isinstance(e, ast.Call) and isinstance(e.func, ast.Attribute) and e.func.attr in _MUT:
            return n
          changed[0] = True
          return e
        return n
    t = ast.parse(u(node.ast), mode='eval').body     # (deepcopy would follow the parent pointers)
    stages = []
    for _ in range(3):
      changed[0] = False
      t = Sub().visit(t)
      if not changed[0]:
        break
      ast.fix_missing_locations(t)
      stages.append(ast.parse(u(t), mode='eval').body)     # every level of substitution is a fact of its own
    ast.fix_missing_locations(t)
    intermediate[(node.id, kinds)] = stages[:-1]
    return t

  cache = {}
  cache_b = {}

  def edge_facts2(node, kind):
    out = list(edge_facts(node, kind))
    if node.kind == 'test' and kind in ('T', 'F'):
      if node.id not in cache:
        try:
          cache[node.id] = expanded_test(node)
        except Exception:
          cache[node.id] = None
      t = cache[node.id]
      if t is not None and u(t) != u(node.ast):
        out.extend(('c', tx, p) for tx, p in decompose(t, kind == 'T'))
      if node.id not in cache_b:
        try:
          cache_b[node.id] = expanded_test(node, (ast.BoolOp, ast.Compare, ast.UnaryOp, ast.IfExp))
        except Exception:
          cache_b[node.id] = None
      tb = cache_b[node.id]
      if tb is not None and u(tb) != u(node.ast) and (t is None or u(tb) != u(t)):
        out.extend(('c', tx, p) for tx, p in decompose(tb, kind == 'T'))
      seen_txt = {u(node.ast), u(t) if t is not None else '', u(tb) if tb is not None else ''}
      for key_, stages_ in list(intermediate.items()):
        if key_[0] == node.id:
          for st_ in stages_:
            if u(st_) not in seen_txt:
              seen_txt.add(u(st_))
              out.extend(('c', tx, p) for tx, p in decompose(st_, kind == 'T'))
    return out

  facts2 = with_joins(g.must_facts(edge_facts2, kill), edge_facts2)
  g.expanded = cache      # test node id -> condition with temporaries replaced by their definitions
  g.expanded_bool = cache_b   # ... with only boolean-valued temporaries replaced
  return g, facts2


def expand_expr(fs, e, keep=()):
  """`e` (an ast expression) with local temporaries replaced by their
  must-definitions from the fact set `fs`; returns a fresh ast."""
  defs = {f_[1]: f_[2] for f_ in fs if f_[0] == 'def'}
  changed = [False]

  class Sub(ast.NodeTransformer):
    def visit_Name(self, n):
      d = defs.get(n.id)
      if d is None or n.id in keep or d.startswith(('unpack[', 'iter(', 'with(')) or not isinstance(n.ctx, ast.Load):
        return n
      try:
        x = ast.parse(d, mode='eval').body
      except SyntaxError:
        return n
      if n.id in {y.id for y in ast.walk(x) if isinstance(y, ast.Name)}:
        return n
      if isinstance(x, ast.Call) and isinstance(x.func, ast.Attribute) and x.func.attr in _MUT:
        return n
      # a freshly built mutable container is an object with an identity (it may have been filled since): keep the name
      if isinstance(x, (ast.List, ast.Dict, ast.Set, ast.ListComp, ast.DictComp, ast.SetComp)) or \
          (isinstance(x, ast.Call) and isinstance(x.func, ast.Name) and x.func.id in ('list', 'dict', 'set', 'sorted', 'defaultdict', 'deque')):
        return n
      changed[0] = True
      return x
  t = ast.parse(u(e), mode='eval').body
  for _ in range(3):
    changed[0] = False
    t = Sub().visit(t)
    if not changed[0]:
      break
  ast.fix_missing_locations(t)
  return t


def facts_at(g, facts, astnode):
  """Facts that hold at *every* graph instance of statement `astnode`."""
  nodes = g.nodes_for(astnode)
  if not nodes:
    return None
  out = None
  for n in nodes:
    out = facts[n.id] if out is None else (out & facts[n.id])
  return out


def cond_facts(fs):
  return {(t, p) for k, t, *rest in [(*f,) for f in fs] if k == 'c' for p in rest[:1]}


def has_cond(fs, text, pol):
  return ('c', text, pol) in fs


def def_of(fs, name):
  for f in fs:
    if f[0] == 'def' and f[1] == name:
      return f[2]
  return None


def stmt_of(node):
  return enclosing_stmt(node)


def find_calls(f, pred):
  return [n for n in walk_local(f.node) if isinstance(n, ast.Call) and pred(n)]


def calls_named(f, text):
  return find_calls(f, lambda c: u(c.func) == text)


def terminates_in_raise(prog, f, body):
  """Does the statement list always end in a raise / no-return call?"""
  if not body:
    return False
  last = body[-1]
  if isinstance(last, ast.Raise):
    return True
  if isinstance(last, ast.Expr) and isinstance(last.value, ast.Call):
    return prog.is_noreturn_call(f, last.value)
  if isinstance(last, ast.If) and last.orelse:
    return terminates_in_raise(prog, f, last.body) and terminates_in_raise(prog, f, last.orelse)
  return False


def raise_guards(prog, f):
  """All `if <test>: ... raise` guards of f: list of (ast.If, atoms)."""
  out = []
  for n in walk_local(f.node):
    if isinstance(n, ast.If) and terminates_in_raise(prog, f, n.body):
      out.append((n, atoms_of(n.test)))
  return out


def raised_type(stmt_list):
  """Name of the exception class raised by the last statement, if explicit."""
  last = stmt_list[-1]
  if isinstance(last, ast.Raise) and last.exc is not None:
    e = last.exc
    if isinstance(e, ast.Call):
      return u(e.func)
    return u(e)
  return None


def in_subtree(node, root):
  if node is root:
    return True
  for a in ancestors(node):
    if a is root:
      return True
  return False


def lexically_inside(node, kinds):
  for a in ancestors(node):
    if isinstance(a, FuncNode):
      return None
    if isinstance(a, kinds):
      return a
  return None


def body_index(container_body, node):
  """Index of the top-level statement of `container_body` containing node."""
  for i, st in enumerate(container_body):
    if in_subtree(node, st):
      return i
  return None


def const_value(node, default=None):
  return node.value if isinstance(node, ast.Constant) else default


def kwarg(call, name):
  for k in call.keywords:
    if k.arg == name:
      return k.value
  return None


def default_of(fnode, param):
  a = fnode.args
  pos = a.posonlyargs + a.args
  defaults = [None] * (len(pos) - len(a.defaults)) + list(a.defaults)
  for p, d in zip(pos, defaults):
    if p.arg == param:
      return d
  for p, d in zip(a.kwonlyargs, a.kw_defaults):
    if p.arg == param:
      return d
  return None


def construct(f, suffix=''):
  q = f.qual.split('.', 1)[1] if '.' in f.qual else f.qual
  return '%s::%s%s' % (f.file, q, suffix)


# ----------------------------------------------------------------------------
# COPY lattice (DESIGN.md rule family COPY, trusted facts T3/T4)

ORDER = {'ALIAS': 0, 'SHALLOW': 1, 'DEEP': 2, 'FRESH': 2, 'CALL': -1}


def copy_kind(e, deep_funcs=()):
  """How much the value of expression `e` is un-shared from its operand.
  `deep_funcs`: names of repository functions shown to be recursive copiers."""
  if isinstance(e, ast.Call) and isinstance(e.func, ast.Name) and e.func.id in deep_funcs and len(e.args) == 1:
    return 'DEEP'
  if isinstance(e, ast.Subscript):
    if isinstance(e.slice, ast.Slice):
      return 'SHALLOW'
    return 'ALIAS'
  if isinstance(e, (ast.Name, ast.Attribute)):
    return 'ALIAS'
  if isinstance(e, ast.Call):
    fn = u(e.func)
    if fn in ('copy.deepcopy', 'deepcopy'):
      return 'DEEP'
    if fn in ('copy.copy',):
      return 'SHALLOW'
    if fn in ('list', 'dict', 'set', 'tuple', 'sorted', 'frozenset', 'collections.OrderedDict') and len(e.args) == 1:
      return 'SHALLOW'
    if fn in ('list', 'dict', 'set', 'tuple') and not e.args:
      return 'FRESH'
    if isinstance(e.func, ast.Attribute) and e.func.attr == 'copy' and not e.args:
      return 'SHALLOW'
    if isinstance(e.func, ast.Attribute) and e.func.attr in ('join', 'format') :
      return 'FRESH'
    if isinstance(e.func, ast.Attribute) and e.func.attr in ('setdefault', 'get', 'pop'):
      return 'ALIAS'
    return 'CALL'
  if isinstance(e, ast.Dict):
    if e.keys and all(k is None for k in e.keys):
      return 'SHALLOW'
    return 'FRESH' if not any(k is None for k in e.keys) else 'SHALLOW'
  if isinstance(e, (ast.List, ast.Set, ast.Tuple)):
    if any(isinstance(x, ast.Starred) for x in e.elts):
      return 'SHALLOW'
    return 'FRESH'
  if isinstance(e, (ast.ListComp, ast.SetComp, ast.DictComp)):
    return 'SHALLOW'
  if isinstance(e, (ast.Constant, ast.JoinedStr)):
    return 'FRESH'
  if isinstance(e, ast.BinOp) and isinstance(e.op, ast.Add):
    return 'SHALLOW'
  if isinstance(e, ast.IfExp):
    a, b = copy_kind(e.body), copy_kind(e.orelse)
    return a if ORDER.get(a, -1) <= ORDER.get(b, -1) else b
  return 'CALL'


def at_least(kind, want):
  return ORDER.get(kind, -1) >= ORDER[want]


def returns_of(f):
  return [n for n in walk_local(f.node) if isinstance(n, ast.Return)]


def single_reaching_value(f, name):
  """If local `name` has exactly one assignment `name = <expr>` in f, the
  expr; else None."""
  vals = []
  for n in walk_local(f.node):
    if isinstance(n, ast.Assign):
      for t in n.targets:
        if isinstance(t, ast.Name) and t.id == name:
          vals.append(n.value)
    elif isinstance(n, ast.AnnAssign) and isinstance(n.target, ast.Name) \
        and n.target.id == name and n.value is not None:
      vals.append(n.value)
    elif isinstance(n, ast.AugAssign) and isinstance(n.target, ast.Name) and n.target.id == name:
      vals.append(None)
  return vals[0] if len(vals) == 1 else None


def assignments_to(f, name):
  out = []
  for n in walk_local(f.node):
    if isinstance(n, ast.Assign):
      for t in n.targets:
        for x in ast.walk(t):
          if isinstance(x, ast.Name) and x.id == name and isinstance(x.ctx, ast.Store):
            out.append(n)
    elif isinstance(n, (ast.AnnAssign, ast.AugAssign)) and isinstance(n.target, ast.Name) \
        and n.target.id == name:
      out.append(n)
  return out


# ----------------------------------------------------------------------------
# Truth-table reasoning over guard atoms (finite: 2^n assignments, n <= 12).
# This is evaluation of the branch conditions' boolean structure, not path
# solving: atoms are opaque propositional variables.

import itertools


class BoolForm:
  """Compiles condition expressions to functions over atom assignments.

  `atom_of(expr) -> name | None` maps a sub-expression to a named atom.  Any
  other non-boolean sub-expression becomes its own free atom (keyed by text),
  which is the conservative choice."""

  def __init__(self, atom_of):
    self.atom_of = atom_of
    self.atoms = []

  def _var(self, name):
    if name not in self.atoms:
      self.atoms.append(name)
    return name

  def compile(self, e):
    if isinstance(e, str):
      e = ast.parse(e, mode='eval').body
    a = self.atom_of(e)
    if a is not None:
      if isinstance(a, tuple):      # (name, negated)
        v = self._var(a[0])
        return (lambda env, v=v: not env[v]) if a[1] else (lambda env, v=v: env[v])
      v = self._var(a)
      return lambda env, v=v: env[v]
    if isinstance(e, ast.Constant) and isinstance(e.value, bool):
      return lambda env, c=e.value: c
    if isinstance(e, ast.UnaryOp) and isinstance(e.op, ast.Not):
      f = self.compile(e.operand)
      return lambda env, f=f: not f(env)
    if isinstance(e, ast.BoolOp):
      fs = [self.compile(v) for v in e.values]
      if isinstance(e.op, ast.And):
        return lambda env, fs=fs: all(f(env) for f in fs)
      return lambda env, fs=fs: any(f(env) for f in fs)
    if isinstance(e, ast.Call) and u(e.func) == 'bool' and len(e.args) == 1:
      return self.compile(e.args[0])
    if isinstance(e, ast.IfExp):
      t, a, b = self.compile(e.test), self.compile(e.body), self.compile(e.orelse)
      return lambda env, t=t, a=a, b=b: a(env) if t(env) else b(env)
    if isinstance(e, (ast.List, ast.Tuple, ast.Set, ast.Dict)):
      n_el = len(e.keys) if isinstance(e, ast.Dict) else len(e.elts)
      if not any(isinstance(x, ast.Starred) for x in getattr(e, 'elts', [])):
        return lambda env, c=n_el > 0: c
    if isinstance(e, ast.Constant) and e.value in (None, '', 0):
      return lambda env: False
    if isinstance(e, ast.Compare) and len(e.ops) == 1 and \
        isinstance(e.ops[0], (ast.NotIn, ast.NotEq, ast.IsNot)):
      pos = {ast.NotIn: ast.In, ast.NotEq: ast.Eq, ast.IsNot: ast.Is}[type(e.ops[0])]
      t = ast.Compare(left=e.left, ops=[pos()], comparators=e.comparators)
      f = self.compile(t)
      return lambda env, f=f: not f(env)
    v = self._var('?' + u(e))
    return lambda env, v=v: env[v]

  def assignments(self):
    if len(self.atoms) > 18:
      raise AnalysisError('too many guard atoms for truth-table evaluation: %s' % self.atoms)
    for vals in itertools.product((False, True), repeat=len(self.atoms)):
      yield dict(zip(self.atoms, vals))


def facts_imply(fs, required, atom_of):
  """Do the condition facts `fs` (set of ('c', text, pol)) imply every formula
  in `required` (list of (label, expr text over named atoms))?  Returns list of
  labels that are NOT implied, with a counter-assignment."""
  bf = BoolForm(atom_of)
  premises = []
  cand = []
  for f in sorted(fs, key=str):
    if f[0] != 'c':
      continue
    # premises that mention no named atom cannot help to imply a requirement over named atoms
    probe = BoolForm(atom_of)
    probe.compile(f[1])
    if probe.atoms and all(a.startswith('?') for a in probe.atoms):
      continue
    cand.append((f, set(a for a in probe.atoms if not a.startswith('?')), any(a.startswith('?') for a in probe.atoms)))
  covered = set()
  for f, named, unk in cand:
    if not unk:
      covered |= named
  for f, named, unk in cand:
    # a premise with opaque parts is kept only if it says something about a named atom no fully understood premise covers
    if unk and named <= covered:
      continue
    fn = bf.compile(f[1])
    premises.append((fn, f[2]))
  named = BoolForm(lambda e: e.id if isinstance(e, ast.Name) else None)
  reqs = []
  for label, text in required:
    fn = named.compile(text)
    for a in named.atoms:
      bf._var(a)
    reqs.append((label, fn))
  missing = []
  for label, fn in reqs:
    for env in bf.assignments():
      if all(bool(p(env)) == pol for p, pol in premises) and not fn(env):
        missing.append((label, {k: v for k, v in env.items() if not k.startswith('?')}))
        break
  return missing


def format_sites(root):
  """String-formatting expressions under `root`, whatever the spelling:
  yields (node, template, operands) for `T.format(a, b)`, `T % (a, b)`,
  f-strings and `a + '.' + b` concatenations; template has one `{}` per operand."""
  out = []
  for n in ast.walk(root):
    if isinstance(n, ast.Call) and isinstance(n.func, ast.Attribute) and n.func.attr == 'format':
      t = n.func.value
      tmpl = t.value if isinstance(t, ast.Constant) and isinstance(t.value, str) else None
      out.append((n, tmpl, list(n.args) + [k.value for k in n.keywords]))
    elif isinstance(n, ast.BinOp) and isinstance(n.op, ast.Mod) and isinstance(n.left, ast.Constant) and isinstance(n.left.value, str):
      ops = list(n.right.elts) if isinstance(n.right, ast.Tuple) else [n.right]
      out.append((n, n.left.value.replace('%s', '{}').replace('%r', '{!r}').replace('%d', '{}'), ops))
    elif isinstance(n, ast.JoinedStr):
      tmpl, ops = '', []
      for v in n.values:
        if isinstance(v, ast.Constant):
          tmpl += str(v.value)
        else:
          tmpl += '{}'
          ops.append(v.value)
      out.append((n, tmpl, ops))
    elif isinstance(n, ast.BinOp) and isinstance(n.op, ast.Add) and not (isinstance(getattr(n, 'parent', None), ast.BinOp) and isinstance(n.parent.op, ast.Add)):
      parts, stack = [], [n]
      flat = []

      def walk(e):
        if isinstance(e, ast.BinOp) and isinstance(e.op, ast.Add):
          walk(e.left)
          walk(e.right)
        else:
          flat.append(e)
      walk(n)
      if any(isinstance(x, ast.Constant) and isinstance(x.value, str) for x in flat):
        tmpl, ops = '', []
        for x in flat:
          if isinstance(x, ast.Constant) and isinstance(x.value, str):
            tmpl += x.value
          else:
            tmpl += '{}'
            ops.append(x)
        out.append((n, tmpl, ops))
    elif isinstance(n, ast.Call) and isinstance(n.func, ast.Attribute) and n.func.attr == 'join' and isinstance(n.func.value, ast.Constant) \
        and isinstance(n.func.value.value, str) and len(n.args) == 1 and isinstance(n.args[0], (ast.List, ast.Tuple)):
      ops = list(n.args[0].elts)
      out.append((n, n.func.value.value.join('{}' for _ in ops), ops))
  return out


def card_cases(fs, M, cases=(0, 1, 2, 3)):
  """Which lengths of the sequence named M are consistent with the condition
  facts fs?  (cardinality domain 0 / 1 / several, several represented by 2 and 3)"""
  def ev(e, c):
    if isinstance(e, ast.Name) and e.id == M:
      return c > 0
    if isinstance(e, ast.Constant) and isinstance(e.value, bool):
      return e.value
    if isinstance(e, ast.UnaryOp) and isinstance(e.op, ast.Not):
      v = ev(e.operand, c)
      return None if v is None else (not v)
    if isinstance(e, ast.BoolOp):
      vs = [ev(v, c) for v in e.values]
      if isinstance(e.op, ast.And):
        if any(v is False for v in vs):
          return False
        return True if all(v is True for v in vs) else None
      if any(v is True for v in vs):
        return True
      return False if all(v is False for v in vs) else None
    if isinstance(e, ast.Compare) and len(e.ops) == 1 and isinstance(e.ops[0], (ast.Is, ast.IsNot)) and u(e.comparators[0]) == 'None':
      def noneness(x):
        # True = is None, False = is not None, None = unknown
        if isinstance(x, ast.Constant):
          return x.value is None
        if isinstance(x, ast.IfExp):
          t = ev(x.test, c)
          if t is None:
            return None
          return noneness(x.body if t else x.orelse)
        if isinstance(x, ast.Subscript) and u(x.value) == M:
          return False      # an element of the match list (selectors are strings)
        return None
      nn = noneness(e.left)
      if nn is None:
        return None
      return nn if isinstance(e.ops[0], ast.Is) else (not nn)
    if isinstance(e, ast.Compare) and len(e.ops) == 1:
      l, r = e.left, e.comparators[0]

      def num(x):
        if isinstance(x, ast.Call) and isinstance(x.func, ast.Name) and x.func.id == 'len' and len(x.args) == 1 and u(x.args[0]) == M:
          return c
        if isinstance(x, ast.Constant) and isinstance(x.value, int) and not isinstance(x.value, bool):
          return x.value
        return None
      a, b = num(l), num(r)
      if a is None or b is None:
        return None
      op = e.ops[0]
      table = {ast.Eq: a == b, ast.NotEq: a != b, ast.Gt: a > b, ast.GtE: a >= b, ast.Lt: a < b, ast.LtE: a <= b}
      return table.get(type(op))
    return None
  out = set()
  for c in cases:
    ok = True
    for f in fs:
      if f[0] != 'c':
        continue
      try:
        e = ast.parse(f[1], mode='eval').body
      except SyntaxError:
        continue
      v = ev(e, c)
      if v is not None and v != f[2]:
        ok = False
        break
    if ok:
      out.add(c)
  return out


def is_recursive_copier(fnode):
  """Does function `fnode(x)` rebuild a nested dict / list structure level by
  level (every container level is a new object), i.e. is it a hand-written
  deep copy of the *containers*?  Shape accepted:
      out = {} | []
      for k, v in x.items(): out[k] = fnode(v) | copy.deepcopy(v)   [under isinstance tests]
      return out
  or the comprehension equivalents.  Leaves may be shared or deep-copied."""
  a = fnode.args
  if len(a.args) != 1 or a.vararg or a.kwarg:
    return False
  p = a.args[0].arg
  name = fnode.name

  def fresh_value(v):
    """v never aliases a *container* of the input level."""
    if isinstance(v, ast.Call) and isinstance(v.func, ast.Name) and v.func.id == name:
      return True
    if isinstance(v, ast.Call) and u(v.func) in ('copy.deepcopy', 'deepcopy'):
      return True
    if isinstance(v, ast.IfExp):
      return fresh_value(v.body) and fresh_value(v.orelse)
    return False
  rets = [r for r in ast.walk(fnode) if isinstance(r, ast.Return) and r.value is not None]
  if not rets:
    return False
  for r in rets:
    v = r.value
    if isinstance(v, ast.DictComp) and len(v.generators) == 1 and u(v.generators[0].iter) == p + '.items()' and fresh_value(v.value):
      continue
    if isinstance(v, ast.Name):
      out = v.id
      inits = [x for x in ast.walk(fnode) if isinstance(x, ast.Assign) and len(x.targets) == 1 and u(x.targets[0]) == out]
      if not inits or not all(isinstance(x.value, (ast.Dict, ast.List)) and not (getattr(x.value, 'keys', None) or getattr(x.value, 'elts', None)) for x in inits):
        return False
      stores = [x for x in ast.walk(fnode) if isinstance(x, ast.Assign) and len(x.targets) == 1 and isinstance(x.targets[0], ast.Subscript)
                and u(x.targets[0].value) == out]
      if not stores or not all(fresh_value(x.value) for x in stores):
        return False
      loops = [x for x in ast.walk(fnode) if isinstance(x, ast.For) and u(x.iter) in (p + '.items()', p)]
      if not loops:
        return False
      # nothing else mutates or aliases `out`
      others = [x for x in ast.walk(fnode) if isinstance(x, ast.Call) and isinstance(x.func, ast.Attribute) and u(x.func.value) == out]
      if others:
        return False
      continue
    return False
  return True


def all_match_form(e):
  """Recognises "every element of X satisfies F" in its spellings.
  Returns (F text, X ast, positive) or None:
     all(map(F, X)) / all(F(x) for x in X) / all([F(x) for x in X])        -> positive
     not any(not F(x) for x in X)  is handled by the caller's negation
     any(not F(x) for x in X)                                                -> negative
     next(itertools.filterfalse(F, X), S) is S   (S = None)                  -> positive;  `is not` -> negative"""
  if isinstance(e, ast.Call) and isinstance(e.func, ast.Name) and e.func.id in ('all', 'any') and len(e.args) == 1 and not e.keywords:
    a = e.args[0]
    is_all = e.func.id == 'all'
    if is_all and isinstance(a, ast.Call) and u(a.func) == 'map' and len(a.args) == 2:
      return u(a.args[0]), a.args[1], True
    if isinstance(a, (ast.GeneratorExp, ast.ListComp)) and len(a.generators) == 1 and not a.generators[0].ifs:
      gen = a.generators[0]
      elt = a.elt
      neg = False
      if isinstance(elt, ast.UnaryOp) and isinstance(elt.op, ast.Not):
        elt, neg = elt.operand, True
      if isinstance(elt, ast.Call) and len(elt.args) == 1 and not elt.keywords and u(elt.args[0]) == u(gen.target):
        if is_all and not neg:
          return u(elt.func), gen.iter, True
        if not is_all and neg:
          return u(elt.func), gen.iter, False
    return None
  if isinstance(e, ast.Compare) and len(e.ops) == 1 and isinstance(e.ops[0], (ast.Is, ast.IsNot)) and u(e.comparators[0]) == 'None':
    n = e.left
    if isinstance(n, ast.Call) and u(n.func) == 'next' and len(n.args) == 2 and u(n.args[1]) == 'None':
      ff = n.args[0]
      if isinstance(ff, ast.Call) and u(ff.func) in ('itertools.filterfalse', 'filterfalse') and len(ff.args) == 2:
        return u(ff.args[0]), ff.args[1], isinstance(e.ops[0], ast.Is)
      if isinstance(ff, ast.GeneratorExp) and len(ff.generators) == 1 and len(ff.generators[0].ifs) == 1:
        c = ff.generators[0].ifs[0]
        if isinstance(c, ast.UnaryOp) and isinstance(c.op, ast.Not) and isinstance(c.operand, ast.Call) and len(c.operand.args) == 1 \
            and u(c.operand.args[0]) == u(ff.generators[0].target) and u(ff.elt) == u(ff.generators[0].target):
          return u(c.operand.func), ff.generators[0].iter, isinstance(e.ops[0], ast.Is)
  return None


def facts_for_expr(g, facts, node):
  """Facts that hold wherever expression `node` is evaluated: at every CFG node (statement, branch test, return, raise) containing it."""
  out = None
  for cn in g.live_nodes():
    if cn.ast is None or cn.kind not in ('stmt', 'test', 'return', 'raise_stmt', 'for', 'with_enter'):
      continue
    roots = [cn.ast]
    if cn.kind == 'for':
      roots = [cn.ast.iter]
    elif cn.kind == 'with_enter':
      roots = [it.context_expr for it in cn.ast.items]
    if any(x is node for r in roots for x in ast.walk(r)):
      out = facts[cn.id] if out is None else (out & facts[cn.id])
  return out if out is not None else frozenset()


def positional_args(ix, call):
  """Arguments of `call` in positional order whatever the spelling (keywords mapped through the callee's
  parameter list / NamedTuple field list).  None when the callee is unknown or the call uses * / **."""
  if any(isinstance(a, ast.Starred) for a in call.args) or any(k.arg is None for k in call.keywords):
    return None
  if not call.keywords:
    return list(call.args)
  name = u(call.func).rsplit('.', 1)[-1]
  fields = None
  for q, d in ix.by_qual.items():
    if q.rsplit('.', 1)[-1] != name:
      continue
    if hasattr(d, 'params'):
      fields = [p for p in d.params if p not in ('self', 'cls')]
    elif hasattr(d, 'node') and isinstance(d.node, ast.ClassDef):
      init = [m for m in d.node.body if isinstance(m, ast.FunctionDef) and m.name == '__init__']
      if init:
        fields = [a.arg for a in init[0].args.args[1:]]
      else:
        fields = [st.target.id for st in d.node.body if isinstance(st, ast.AnnAssign) and isinstance(st.target, ast.Name)]
    break
  if not fields:
    return None
  out = list(call.args) + [None] * (len(fields) - len(call.args))
  for k in call.keywords:
    if k.arg not in fields or fields.index(k.arg) < len(call.args):
      return None
    out[fields.index(k.arg)] = k.value
  while out and out[-1] is None:
    out.pop()
  return out if all(x is not None for x in out) else None


def last_component_of(f, fs, e, sep='/'):
  """Text of X when expression `e` (temporaries resolved through the facts `fs`) is the last `sep`-separated component of X:
  X.rsplit(sep, 1)[-1], X.split(sep)[-1], X.rpartition(sep)[2], or the name after the star in `*_, n = X.split(sep)`."""
  e = expand_expr(fs or frozenset(), e)
  def const(x, v):
    return isinstance(x, ast.Constant) and x.value == v
  if isinstance(e, ast.Subscript) and isinstance(e.value, ast.Call) and isinstance(e.value.func, ast.Attribute):
    c = e.value
    idx = u(e.slice)
    if c.func.attr == 'rsplit' and len(c.args) >= 1 and const(c.args[0], sep) and idx == '-1' and \
        (len(c.args) == 1 or const(c.args[1], 1)) and not c.keywords or \
        (c.func.attr == 'rsplit' and len(c.args) == 1 and const(c.args[0], sep) and idx == '-1' and
         len(c.keywords) == 1 and c.keywords[0].arg == 'maxsplit' and const(c.keywords[0].value, 1)):
      return u(c.func.value)
    if c.func.attr == 'split' and len(c.args) == 1 and const(c.args[0], sep) and not c.keywords and idx == '-1':
      return u(c.func.value)
    if c.func.attr == 'rpartition' and len(c.args) == 1 and const(c.args[0], sep) and idx in ('2', '-1'):
      return u(c.func.value)
  if isinstance(e, ast.Name):
    for a in walk_local(f.node):
      if isinstance(a, ast.Assign) and len(a.targets) == 1 and isinstance(a.targets[0], ast.Tuple) and len(a.targets[0].elts) == 2 \
          and isinstance(a.targets[0].elts[0], ast.Starred) and u(a.targets[0].elts[1]) == e.id and isinstance(a.value, ast.Call) \
          and isinstance(a.value.func, ast.Attribute) and a.value.func.attr == 'split' and len(a.value.args) == 1 and const(a.value.args[0], sep) \
          and not a.value.keywords:
        others = [x for x in walk_local(f.node) if isinstance(x, ast.Name) and x.id == e.id and isinstance(x.ctx, ast.Store)]
        if len(others) == 1:
          return u(a.value.func.value)
  return None


def param_values(callee, call):
  """{parameter name: argument expression, or the default expression, or None} for a call of the function `callee`
  (a method is assumed to be called on its instance).  None when the call uses * / ** or does not fit the signature."""
  a = callee.node.args
  if any(isinstance(x, ast.Starred) for x in call.args) or any(k.arg is None for k in call.keywords):
    return None
  pos = [x.arg for x in a.posonlyargs + a.args]
  if pos and pos[0] in ('self', 'cls') and isinstance(call.func, ast.Attribute):
    pos = pos[1:]
  kwo = [x.arg for x in a.kwonlyargs]
  if len(call.args) > len(pos) and not a.vararg:
    return None
  out = {p: None for p in pos + kwo}
  nd = len(a.defaults)
  allpos = [x.arg for x in a.posonlyargs + a.args]
  for j, d in enumerate(a.defaults):
    out[allpos[len(allpos) - nd + j]] = d
  for x, d in zip(a.kwonlyargs, a.kw_defaults):
    if d is not None:
      out[x.arg] = d
  for p, e in zip(pos, call.args):
    out[p] = e
  given = set(pos[:len(call.args)])
  for k in call.keywords:
    if k.arg in given or (k.arg not in out and not a.kwarg):
      return None
    if k.arg in out:
      out[k.arg] = k.value
  out.pop('self', None)
  return out


class Uninterpreted(Exception):
  pass


def content_eval(stmts, atom_content, atom_truth, tracked_of_return=None, may=False):
  """Abstract evaluation of a straight-line-with-branches function body over *content sets*: each variable holds the set
  of sources its value was built from.  `atom_content(expr)` names the sources an expression mentions by itself (variables
  are added from the environment); `atom_truth(test, env)` decides a condition (True / False) or returns None when it
  cannot; a condition that cannot be decided is accepted only if both branches leave the returned content the same.
  With may=True an undecided condition takes both branches (union), which answers "may the result be built from X".
  Returns the content set of the value returned (of `tracked_of_return(value)` when given), 'RAISE' when the path ends
  in a raise, None when the end of the body is reached.  Raises Uninterpreted for any statement outside this fragment."""
  MUT = ('update', 'extend', 'append', 'add', 'insert', 'setdefault', 'appendleft', 'extendleft')

  def content(e, env):
    # a value chosen by a condition: `a or b`, `a and b`, `a if c else b`
    if isinstance(e, ast.BoolOp):
      acc = set()
      for i, v in enumerate(e.values):
        tv = truth(v, env) if i < len(e.values) - 1 else None
        stop = (tv is True) if isinstance(e.op, ast.Or) else (tv is False)
        skip = (tv is False) if isinstance(e.op, ast.Or) else (tv is True)
        if stop:
          return acc | content(v, env)
        if not skip:
          acc |= content(v, env)
      return acc
    if isinstance(e, ast.IfExp):
      tv = truth(e.test, env)
      if tv is None:
        return content(e.body, env) | content(e.orelse, env)
      return content(e.body if tv else e.orelse, env)
    out = set(atom_content(e) or ())
    for x in ast.walk(e):
      if isinstance(x, ast.Name) and isinstance(x.ctx, ast.Load) and x.id in env:
        out |= env[x.id]
    return out

  def truth(t, env):
    if isinstance(t, ast.UnaryOp) and isinstance(t.op, ast.Not):
      v = truth(t.operand, env)
      return None if v is None else not v
    if isinstance(t, ast.BoolOp):
      vs = [truth(v, env) for v in t.values]
      if isinstance(t.op, ast.And):
        return False if any(v is False for v in vs) else (None if any(v is None for v in vs) else True)
      return True if any(v is True for v in vs) else (None if any(v is None for v in vs) else False)
    return atom_truth(t, env)

  def targets(t, val, env):
    if isinstance(t, ast.Name):
      env[t.id] = set(val)
    elif isinstance(t, ast.Starred):
      targets(t.value, val, env)
    elif isinstance(t, (ast.Tuple, ast.List)):
      for e in t.elts:
        targets(e, val, env)
    elif isinstance(t, ast.Subscript) and isinstance(t.value, ast.Name):
      env[t.value.id] = env.get(t.value.id, set()) | set(val)
    elif isinstance(t, ast.Attribute):
      pass
    else:
      raise Uninterpreted('target `%s`' % u(t))

  def run(stmts, env):
    for si, st in enumerate(stmts):
      if isinstance(st, ast.Expr) and isinstance(st.value, ast.Constant) or isinstance(st, (ast.Pass, ast.Import, ast.ImportFrom, ast.Global, ast.Nonlocal, ast.Assert)):
        continue
      if isinstance(st, ast.Return):
        if st.value is None:
          return set()
        v = tracked_of_return(st.value) if tracked_of_return else st.value
        if v is None:
          raise Uninterpreted('return value `%s`' % u(st.value))
        return content(v, env)
      if isinstance(st, ast.Raise):
        return 'RAISE'
      if isinstance(st, ast.If):
        tv = truth(st.test, env)
        if tv is None and may:
          # may-analysis: both branches happen; a return in one of them is remembered and evaluation goes on with the other
          e1, e2 = {k: set(v) for k, v in env.items()}, {k: set(v) for k, v in env.items()}
          r1, r2 = run(st.body, e1), run(st.orelse, e2)
          for r in (r1, r2):
            if isinstance(r, set):
              pending.append(r)
          live = [e for r, e in ((r1, e1), (r2, e2)) if r is None]
          if not live:
            return set() if any(isinstance(r, set) for r in (r1, r2)) else 'RAISE'
          env.clear()
          for e in live:
            for k, v in e.items():
              env[k] = env.get(k, set()) | v
          continue
        if tv is None:
          e1, e2 = {k: set(v) for k, v in env.items()}, {k: set(v) for k, v in env.items()}
          r1, r2 = run(st.body, e1), run(st.orelse, e2)
          live = [(r, e) for r, e in ((r1, e1), (r2, e2)) if r != 'RAISE']
          if not live:
            return 'RAISE'
          if len(live) == 2 and isinstance(r1, set) != isinstance(r2, set) and None in (r1, r2):
            # one branch returns, the other goes on: fine if going on ends in a raise or returns the same
            rr, ee = (r1, e2) if isinstance(r1, set) else (r2, e1)
            rest = run(stmts[si + 1:], ee)
            if rest == 'RAISE' or rest == rr:
              return rr
            raise Uninterpreted('condition `%s` (one branch returns, the other goes on to something else)' % u(st.test))
          if len(live) == 2 and (r1 != r2 or e1 != e2):
            raise Uninterpreted('condition `%s` (the branches differ)' % u(st.test))
          r, e = live[0]
          env.clear()
          env.update(e)
          if r is not None:
            return r
          continue
        r = run(st.body if tv else st.orelse, env)
        if r is not None:
          return r
      elif isinstance(st, (ast.Assign, ast.AnnAssign)):
        if st.value is None:
          continue
        val = content(st.value, env)
        for t in (st.targets if isinstance(st, ast.Assign) else [st.target]):
          targets(t, val, env)
      elif isinstance(st, ast.AugAssign):
        if isinstance(st.target, ast.Name):
          env[st.target.id] = env.get(st.target.id, set()) | content(st.value, env)
      elif isinstance(st, ast.Expr) and isinstance(st.value, ast.Call):
        c = st.value
        if isinstance(c.func, ast.Attribute) and isinstance(c.func.value, ast.Name) and c.func.attr in MUT:
          nm = c.func.value.id
          env[nm] = env.get(nm, set()) | set().union(*[content(a, env) for a in list(c.args) + [k.value for k in c.keywords]] or [set()])
        elif isinstance(c.func, ast.Attribute) and isinstance(c.func.value, ast.Name) and c.func.attr == 'clear':
          env[c.func.value.id] = set()
      elif isinstance(st, ast.For) and not st.orelse:
        targets(st.target, content(st.iter, env), env)
        before = None
        for _ in range(4):         # to a fixed point
          before = {k: set(v) for k, v in env.items()}
          r = run(st.body, env)
          if r not in (None, 'RAISE'):
            raise Uninterpreted('return inside a loop')
          for k, v in before.items():
            env[k] = env.get(k, set()) | v
          if env == before:
            break
      elif isinstance(st, ast.With):
        r = run(st.body, env)
        if r is not None:
          return r
      elif isinstance(st, ast.Try) and not st.handlers:
        r = run(st.body, env)
        run(st.finalbody, env)
        if r is not None:
          return r
      elif isinstance(st, (ast.Continue, ast.Break)):
        return None
      else:
        raise Uninterpreted('`%s`' % u(st)[:70])
    return None
  pending = []
  res = run(list(stmts), {})
  if may and pending:
    out = set().union(*pending)
    return out | res if isinstance(res, set) else out
  return res
