#!/venv/bin/python
"""Dev helper: run a check against a scratch copy of /repo/gin with one textual
edit applied.  usage: mut.py <PID> <file-under-gin> <old> <new> [--count N]
The scratch copy lives under a fresh temp dir outside /repo and /verif and is
removed before returning."""
import os, shutil, subprocess, sys, tempfile, py_compile

def run(pid, edits, show=True):
  tmp = tempfile.mkdtemp(prefix='ginsa_mut_')
  try:
    shutil.copytree('/repo/gin', os.path.join(tmp, 'gin'), ignore=shutil.ignore_patterns('__pycache__'))
    for rel, old, new in edits:
      p = os.path.join(tmp, 'gin', rel)
      s = open(p).read()
      if s.count(old) != 1:
        print('EDIT-NOT-APPLICABLE: %r occurs %d times in %s' % (old[:60], s.count(old), rel)); return None
      open(p, 'w').write(s.replace(old, new))
      compile(open(p).read(), p, 'exec')
    r = subprocess.run(['/verif/check', pid, '--repo', tmp, '--no-write'], capture_output=True, text=True)
    if show:
      print(r.stdout[-3000:], r.stderr[-2000:])
      print('exit', r.returncode)
    return r
  finally:
    shutil.rmtree(tmp, ignore_errors=True)

if __name__ == '__main__':
  pid = sys.argv[1]
  args = sys.argv[2:]
  edits = [(args[i], args[i+1].encode().decode('unicode_escape'), args[i+2].encode().decode('unicode_escape')) for i in range(0, len(args), 3)]
  run(pid, edits)
