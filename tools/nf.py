#!/venv/bin/python
"""Prints the normal form of one function of the (possibly patched) tree: nf.py <patch-id|-> <qualname-suffix> [module]"""
import ast, os, subprocess, sys
sys.path.insert(0, '/verif')
pid, name = sys.argv[1], sys.argv[2]
modname = sys.argv[3] if len(sys.argv) > 3 else 'config'
patch = None
if pid != '-':
  for d in ('/verif/refactors', '/verif/seeded'):
    p = os.path.join(d, pid, 'patch.diff')
    if os.path.exists(p):
      patch = p
  assert patch, pid
  assert subprocess.run(['git', '-C', '/repo', 'apply', patch]).returncode == 0
try:
  from ginsa.core import Index
  ix = Index('/repo')
  m = ix.module(modname)
  for q, f in sorted(ix.by_qual.items()):
    if q.endswith(name) and hasattr(f, 'params'):
      print('#', q)
      print(ast.unparse(f.node))
  print('# normalized', m.normalized, getattr(m, 'normalize_error', None))
finally:
  if patch:
    subprocess.run('git -C /repo checkout -- .', shell=True)
