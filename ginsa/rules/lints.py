"""Repository-wide bug-pattern rules, reported under every property whose
data path contains the function (table below, from the properties' anchors).

Each pattern is a shape that is wrong on *some* input / schedule / exit path
whatever the surrounding code does, so a hit is a violation of the property
that relies on the function:

  none-as-missing      a presence test on a mapping that holds user values is
                       done with `.get(k) is None` / `.pop(k, None) is None` /
                       `get_match(k) is None`: a stored None is taken for "absent"
  cm-cleanup           a generator context manager runs a statement after its
                       `yield` on the normal exit only (or only for `Exception`):
                       the cleanup is skipped when the body raises
  shared-class-state   a class-level mutable attribute is shared by all instances
  mutate-while-iterating  a loop mutates the container it iterates
  substring-membership `x in '<string constant>'` where x is a text: '' matches
"""
import ast

from ..cfg import witness, describe_path
from ..core import AnalysisError, Func, u, walk_local, enclosing_stmt
from ..lib import construct, calls_of_node

OWNERS = {
    'C01': ['config._get_bindings', 'config._make_gin_wrapper', 'config.config_scope', 'config._ScopeManager', 'config.current_scope'],
    'C02': ['config_parser.ConfigParser', 'config.parse_value'],
    'C03': ['config_parser.', 'config.parse_config'],
    'C04': ['config._make_gin_wrapper', 'config.ConfigurableReference', 'config._decorate_with_scope', 'config.get_bindings',
            'config.ParserDelegate.configurable_reference', 'config.config_scope', 'config._ScopeManager'],
    'C05': ['config.ParserDelegate.macro', 'config.macro', 'config._retrieve_constant', 'config.constant', 'config.validate_macros_hook',
            'config.validate_reference', 'config.query_parameter', 'config.constants_from_enum', 'config.iterate_references'],
    'C06': ['config._config_str', 'config._format_value', 'config._is_literally_representable', 'config.ImportManager', 'config.markdown',
            'config_parser.ImportStatement', 'config.ConfigurableReference.__repr__', 'config.config_str', 'config._make_unique', 'config._uniquify_name'],
    'C07': ['config._make_gin_wrapper', 'config._get_default_configurable_parameter_values', 'config._get_kwarg_defaults', 'config._config_str',
            'config.operative_config_str'],
    'C08': ['selector_map.SelectorMap', 'config.ParsedBindingKey', 'config._as_scope_and_selector', 'config.finalize', 'config.ImportManager.minimal_selector',
            'config.get_configurable', 'config.get_bindings', 'config.query_parameter'],
    'C09': ['config._ScopeManager', 'config.config_scope', 'config.current_scope', 'config._decorate_with_scope', 'config.get_configurable'],
    'C10': ['config._make_gin_wrapper', 'config._get_validated_required_kwargs', 'config._order_by_signature', 'config._get_kwarg_defaults',
            'config._get_supplied_positional_parameter_names', 'config._get_all_positional_parameter_names'],
    'C11': ['config.ParsedBindingKey', 'config.bind_parameter', 'config._might_have_parameter', 'config._make_configurable', 'config._validate_parameters',
            'config._find_registered_methods', 'config._get_cached_arg_spec'],
    'C12': ['config.config_is_locked', 'config._set_config_is_locked', 'config.unlock_config', 'config.finalize', 'config.bind_parameter',
            'config.clear_config', 'config.register_finalize_hook', 'config.validate_macros_hook', 'config.find_unknown_references_hook',
            'config.find_missing_overrides_hook'],
    'C13': ['config._make_configurable', 'config.register', 'config.external_configurable', 'config.configurable', 'config._decorate_fn_or_cls',
            'config._make_meta_call_wrapper', 'config._ensure_wrappability', 'config.interactive_mode', 'config.enter_interactive_mode',
            'config.exit_interactive_mode', 'config._inverse_lookup', 'config._find_registered_methods', 'config._find_class_construction_fn'],
    'C14': ['config.parse_config', 'config.parse_config_file', 'config.parse_config_files_and_bindings', 'config.add_config_file_search_path',
            'config.register_file_reader', 'resource_reader.'],
    'C15': ['config._should_skip', 'config._validate_skip_unknown', 'config.ParserDelegate', 'config._UnknownConfigurableReference', 'config.parse_config',
            'config.find_unknown_references_hook', 'config._iterate_flattened_values'],
    'C16': ['config.parse_config', 'config._parse_scope', 'config.bind_parameter', 'utils.', 'config_parser.ConfigParser.parse_statement',
            'config_parser.ConfigParser._block_scope', 'config_parser.ConfigParser._parse_binding_block'],
    'C17': ['utils.', 'config._make_gin_wrapper', 'config._get_all_positional_parameter_names'],
    'C18': ['config._make_gin_wrapper', 'config.operative_config_str', 'config._config_str', 'config.clear_config', 'config.singleton', 'config.singleton_value'],
    'C19': ['config.ParseContext', 'config._parse_scope', 'config.ImportManager', 'config_parser.ImportStatement', 'config._GinBuiltins'],
    'C20': ['config.clear_config', 'config.constant', 'selector_map.SelectorMap.clear', 'selector_map.SelectorMap.copy', 'selector_map.SelectorMap.__setitem__'],
}

USER_VALUE_STORES = ('_SINGLETONS', '_CONSTANTS', '_CONFIG', '_OPERATIVE_CONFIG')


def owned(ctx, pid):
  pre = OWNERS[pid]
  funcs = [f for f in ctx.ix.all_funcs() if any(f.qual == p or f.qual.startswith(p if p.endswith('.') else p + '.') for p in pre)]
  classes = [c for c in ctx.ix.all_classes() if any(c.qual == p or c.qual.startswith(p if p.endswith('.') else p + '.') or
                                                    (p.endswith('.') and c.qual.startswith(p)) for p in pre)]
  return funcs, classes


def _user_value_receiver(f, recv, bindings_vars):
  t = u(recv)
  root = recv
  while isinstance(root, (ast.Subscript, ast.Attribute, ast.Call)):
    root = root.func if isinstance(root, ast.Call) else root.value
  rname = root.id if isinstance(root, ast.Name) else ''
  if rname in USER_VALUE_STORES:
    return True
  if rname in bindings_vars:
    return True
  a = getattr(f.node, 'args', None)
  if a is not None and a.kwarg is not None and rname == a.kwarg.arg:
    return True
  return False


def _presence_call(e):
  """Is e a lookup that returns None both for "absent" and for a stored None?"""
  if isinstance(e, ast.Call) and isinstance(e.func, ast.Attribute):
    if e.func.attr == 'get' and len(e.args) == 1 and not e.keywords:
      return e.func.value
    if e.func.attr in ('get', 'pop') and len(e.args) == 2 and isinstance(e.args[1], ast.Constant) and e.args[1].value is None:
      return e.func.value
    if e.func.attr == 'get_match' and len(e.args) == 1:
      return e.func.value
  return None


def none_as_missing(ctx, pid, funcs):
  n = 0
  for f in funcs:
    bvars = set()
    for a in walk_local(f.node):
      if isinstance(a, ast.Assign) and isinstance(a.value, ast.Call):
        q = ctx.prog.resolve_call(f, a.value)
        if q in ('config._get_bindings',) or u(a.value.func) in ('copy.deepcopy',):
          for t in a.targets:
            if isinstance(t, ast.Name):
              bvars.add(t.id)
    # records reached through a parameter that callers fill with one of the stores, and entries taken from such records in loops
    def root_of(e):
      while isinstance(e, (ast.Subscript, ast.Attribute, ast.Call)):
        e = e.func if isinstance(e, ast.Call) else e.value
      return e.id if isinstance(e, ast.Name) else ''
    params = f.params
    for cf, call in (ctx.prog.call_sites_of(f.qual) if hasattr(ctx.prog, 'call_sites_of') else []):
      for i_, a_ in enumerate(call.args):
        if isinstance(a_, ast.Name) and a_.id in USER_VALUE_STORES and i_ < len(params):
          bvars.add(params[i_])
    for _ in range(3):
      for nd in walk_local(f.node):
        if isinstance(nd, (ast.For, ast.comprehension)):
          it = nd.iter
          if isinstance(it, ast.Call) and u(it.func) == 'sorted' and it.args:
            it = it.args[0]
          r = root_of(it)
          if r in USER_VALUE_STORES or r in bvars:
            tg = nd.target
            if isinstance(it, ast.Call) and isinstance(it.func, ast.Attribute) and it.func.attr == 'items' and isinstance(tg, ast.Tuple) and len(tg.elts) == 2:
              if isinstance(tg.elts[1], ast.Name):
                bvars.add(tg.elts[1].id)
            elif isinstance(it, ast.Call) and isinstance(it.func, ast.Attribute) and it.func.attr == 'values' and isinstance(tg, ast.Name):
              bvars.add(tg.id)
        elif isinstance(nd, ast.Assign) and len(nd.targets) == 1 and isinstance(nd.targets[0], ast.Name) and isinstance(nd.value, ast.DictComp):
          gen = nd.value.generators[0]
          if root_of(gen.iter) in USER_VALUE_STORES or root_of(gen.iter) in bvars:
            bvars.add(nd.targets[0].id)
    defs = {}
    for a in walk_local(f.node):
      if isinstance(a, ast.Assign) and len(a.targets) == 1 and isinstance(a.targets[0], ast.Name):
        defs.setdefault(a.targets[0].id, []).append(a.value)
    for c in walk_local(f.node):
      tests = []
      if isinstance(c, ast.Compare) and len(c.ops) == 1 and isinstance(c.ops[0], (ast.Is, ast.IsNot, ast.Eq, ast.NotEq)) \
          and isinstance(c.comparators[0], ast.Constant) and c.comparators[0].value is None:
        tests.append(c.left)
      elif isinstance(c, (ast.If, ast.While)) or isinstance(c, ast.IfExp):
        t = c.test
        if isinstance(t, ast.UnaryOp) and isinstance(t.op, ast.Not):
          t = t.operand
        if isinstance(t, ast.Name) or isinstance(t, ast.Call):
          tests.append(t)
      for x in tests:
        cands = [x] if not isinstance(x, ast.Name) else defs.get(x.id, [])
        for e in cands:
          recv = _presence_call(e)
          if recv is not None and _user_value_receiver(f, recv, bvars):
            n += 1
            ctx.fail('%s.none-as-missing' % pid, construct(f),
                     'presence in `%s` is decided by `%s` being None/falsy: a bound / cached / constant value that *is* None (or falsy) is treated as absent '
                     '(e.g. a binding `f.a = None` counts as missing, a singleton whose constructor returns None is rebuilt at every use, a constant None can be redefined)'
                     % (u(recv), u(e)), f.loc(c), instance='%s:%s' % (f.name, u(e)[:40]))
  return n


def cm_cleanup(ctx, pid, funcs):
  prog = ctx.prog
  for f in funcs:
    if not f.is_contextmanager():
      continue
    g = prog.cfg(f)
    ys = [n for n in g.live_nodes() if n.ast is not None and any(isinstance(x, ast.Yield) for x in ast.walk(n.ast)) and n.kind in ('stmt',)]
    if len(ys) != 1:
      continue
    y = ys[0]
    # statements (by source identity) executed after the yield on the normal path to exit
    def effects(start_edges, goal):
      seen, out, stack = set(), set(), list(start_edges)
      while stack:
        i = stack.pop()
        if i in seen:
          continue
        seen.add(i)
        nd = g.nodes[i]
        if nd.ast is not None and nd.kind in ('stmt',) and calls_of_node(nd):
          out.add(id(nd.ast))
        stack.extend(b for b, k in g.succ[i])
      return out, seen
    normal_succ = [b for b, k in g.succ[y.id] if k != 'exc']
    exc_succ = [b for b, k in g.succ[y.id] if k == 'exc']
    ne, _ = effects(normal_succ, g.exit.id)
    ee, eseen = effects(exc_succ, g.raise_exit.id)
    # cleanup on the exception path must not be conditional on the exception type: every path
    # from the yield's exception edge to the raise exit passes each cleanup statement
    missing = []
    for nd in g.live_nodes():
      if nd.ast is not None and id(nd.ast) in ne:
        copies = [m.id for m in g.live_nodes() if m.ast is nd.ast]
        if not exc_succ:
          continue
        w = witness(g, y.id, [g.raise_exit.id], avoid=copies)
        # only paths that start with the exception edge matter
        if w is not None and len(w) > 1 and w[1] in exc_succ and nd.ast not in [m.ast for m in missing]:
          missing.append(nd)
    if missing:
      ctx.fail('%s.cm-cleanup' % pid, construct(f),
               'the context manager runs `%s` after the body only on some exits: when the body raises (any BaseException, incl. KeyboardInterrupt / '
               'GeneratorExit) the statement is skipped, so what the manager set up is not undone' % missing[0].text(), f.loc(missing[0].ast),
               instance='%s:%s' % (f.name, missing[0].text()[:40]))
    else:
      ctx.hold('%s.cm-cleanup' % pid, construct(f), 'everything the manager does after the body also happens when the body raises (%d statement(s))' % len(ne),
               f.loc(), instance=f.name)


def shared_class_state(ctx, pid, classes):
  for c in classes:
    if any(b.endswith('NamedTuple') or b.endswith('Enum') for b in c.base_names()):
      continue
    shared = [(n, v) for n, v, st in c.class_level_assigns() if v is not None and isinstance(
        v, (ast.List, ast.Dict, ast.Set, ast.ListComp, ast.DictComp, ast.SetComp, ast.Call)) and not n.startswith('__')]
    shared = [(n, v) for n, v in shared if not (isinstance(v, ast.Call) and u(v.func) in ('property', 'staticmethod', 'classmethod', 'object', 're.compile', 'type'))]
    con = '%s::%s' % (c.module.relpath, c.qual.split('.', 1)[1])
    if shared:
      ctx.fail('%s.shared-class-state' % pid, con, 'class attribute(s) %s hold mutable state shared by every instance (and every thread / file / parse)' % [n for n, _ in shared],
               '%s:%d' % (c.module.relpath, c.node.lineno), instance=c.name)
    else:
      ctx.hold('%s.shared-class-state' % pid, con, 'no class-level mutable state', '%s:%d' % (c.module.relpath, c.node.lineno), instance=c.name)


_MUT = {'pop', 'popitem', 'clear', 'update', 'setdefault', 'append', 'extend', 'insert', 'remove', 'add', 'discard'}


def mutate_while_iterating(ctx, pid, funcs):
  for f in funcs:
    for lp in walk_local(f.node):
      if not isinstance(lp, ast.For):
        continue
      it = lp.iter
      base = it
      if isinstance(it, ast.Call) and isinstance(it.func, ast.Attribute) and it.func.attr in ('items', 'keys', 'values') and not it.args:
        base = it.func.value
      if not isinstance(base, (ast.Name, ast.Attribute)):
        continue
      bt = u(base)
      for x in walk_local(lp):
        hit = None
        if isinstance(x, ast.Call) and isinstance(x.func, ast.Attribute) and x.func.attr in _MUT and u(x.func.value) == bt:
          hit = x
        elif isinstance(x, ast.Subscript) and isinstance(x.ctx, (ast.Del,)) and u(x.value) == bt:
          hit = x
        elif isinstance(x, ast.Subscript) and isinstance(x.ctx, ast.Store) and u(x.value) == bt and isinstance(it, ast.Call):
          # writing new keys into a dict being iterated
          key = u(x.slice)
          tnames = [n.id for n in ast.walk(lp.target) if isinstance(n, ast.Name)]
          if key not in tnames:
            hit = x
        if hit is not None:
          # a `break` / `return` straight after the mutation is the safe idiom
          st = enclosing_stmt(hit)
          body = getattr(st.parent, 'body', [])
          nxt = body[body.index(st) + 1] if st in body and body.index(st) + 1 < len(body) else None
          if isinstance(nxt, (ast.Break, ast.Return)):
            continue
          ctx.fail('%s.mutate-while-iterating' % pid, construct(f), 'the loop over `%s` mutates it (`%s`): items are skipped or the iteration raises RuntimeError'
                   % (u(it), u(hit)[:60]), f.loc(hit), instance='%s:%s' % (f.name, bt))


def substring_membership(ctx, pid, funcs):
  for f in funcs:
    for c in walk_local(f.node):
      if isinstance(c, ast.Compare) and len(c.ops) == 1 and isinstance(c.ops[0], (ast.In, ast.NotIn)):
        r = c.comparators[0]
        if isinstance(r, ast.Constant) and isinstance(r.value, str) and len(r.value) > 1 and r.value.strip() != '':
          if isinstance(c.left, ast.Constant):
            continue
          ctx.fail('%s.substring-membership' % pid, construct(f),
                   '`%s` is a substring test against a string constant: the empty string and multi-character pieces match too; a tuple of alternatives was meant'
                   % u(c), f.loc(c), instance='%s:%s' % (f.name, u(c)[:40]))


def argspec_none(ctx, pid, funcs):
  """inspect.getfullargspec gives `defaults` / `kwonlydefaults` = None when there are none (trusted fact T14): a membership test,
  iteration, len() or subscript on one of them needs a truthiness / None guard on every path (or an `or {}` / `or ()` default)."""
  from ..lib import std_facts
  for f in funcs:
    uses = [a for a in walk_local(f.node) if isinstance(a, ast.Attribute) and a.attr in ('kwonlydefaults', 'defaults')
            and isinstance(a.ctx, ast.Load) and not (isinstance(a.value, ast.Name) and a.value.id in ('self', 'cls'))]
    if not uses:
      continue
    ctx.assume('T14')
    g, facts = std_facts(ctx.prog, f)
    # a function that tests the field anywhere (truthiness, None-ness, `or` default) has the case in mind: its uses are left to
    # the path rules; the pattern reported here is a use in a function that never considers None at all
    def tested(attr):
      for x in walk_local(f.node):
        if isinstance(x, ast.Attribute) and x.attr == attr:
          q_ = getattr(x, 'parent', None)
          if (isinstance(q_, (ast.If, ast.IfExp, ast.While)) and q_.test is x) or isinstance(q_, ast.BoolOp) or \
              (isinstance(q_, ast.UnaryOp) and isinstance(q_.op, ast.Not)) or \
              (isinstance(q_, ast.Compare) and any(isinstance(o, (ast.Is, ast.IsNot)) for o in q_.ops)):
            return True
      return False
    uses = [a for a in uses if not tested(a.attr)]
    for a in uses:
      p_ = getattr(a, 'parent', None)
      # harmless positions: the guard itself, `x or {}`, comparison with None, passing it on
      if isinstance(p_, (ast.If, ast.IfExp, ast.While)) and p_.test is a:
        continue
      if isinstance(p_, ast.BoolOp) or (isinstance(p_, ast.UnaryOp) and isinstance(p_.op, ast.Not)):
        continue
      if isinstance(p_, ast.Compare) and p_.left is a and all(isinstance(o, (ast.Is, ast.IsNot, ast.Eq, ast.NotEq)) for o in p_.ops):
        continue
      risky = (isinstance(p_, ast.Compare) and a in p_.comparators and any(isinstance(o, (ast.In, ast.NotIn)) for o in p_.ops)) or \
          (isinstance(p_, (ast.For, ast.comprehension)) and p_.iter is a) or \
          (isinstance(p_, ast.Subscript) and p_.value is a) or \
          (isinstance(p_, ast.Call) and a in p_.args and u(p_.func) in ('len', 'zip', 'dict', 'list', 'tuple', 'set', 'reversed', 'enumerate', 'sorted')) or \
          (isinstance(p_, ast.Attribute) and p_.value is a)
      if not risky:
        continue
      st = enclosing_stmt(a)
      fs = set()
      for n in g.live_nodes():
        if n.ast is st or (n.ast is not None and n.kind in ('test', 'for') and any(x is a for x in ast.walk(n.ast if n.kind == 'test' else n.ast.iter))):
          fs = set(facts[n.id])
          break
      txt = u(a)
      guarded = ('c', txt, True) in fs or ('c', '%s is None' % txt, False) in fs or \
          any(f_[0] == 'c' and f_[2] is True and f_[1].startswith(txt + ' and ') for f_ in fs)
      # the guard may sit in the same expression: `spec.defaults and k in spec.defaults`, a comprehension `if`
      anc = p_
      while anc is not None and not isinstance(anc, ast.stmt):
        if isinstance(anc, ast.BoolOp) and isinstance(anc.op, ast.And) and any(u(v) == txt for v in anc.values):
          guarded = True
        if isinstance(anc, ast.IfExp) and u(anc.test) == txt:
          guarded = True
        anc = getattr(anc, 'parent', None)
      ctx.check(guarded, '%s.argspec-none' % pid, construct(f),
                '`%s` is used only where it is known not to be None' % txt,
                '`%s` is None when the signature has no such defaults (getfullargspec), and `%s` then raises TypeError: in an error path this replaces '
                'the exception being reported' % (txt, u(p_)[:80]), f.loc(a), instance='%s:%s' % (f.name, u(p_)[:40]))


def run_lints(ctx, pid):
  funcs, classes = owned(ctx, pid)
  ctx.expect_at_least('functions in the data path of %s' % pid, len(funcs), 1)
  before = len(ctx.obs)
  none_as_missing(ctx, pid, funcs)
  cm_cleanup(ctx, pid, funcs)
  shared_class_state(ctx, pid, classes)
  mutate_while_iterating(ctx, pid, funcs)
  substring_membership(ctx, pid, funcs)
  argspec_none(ctx, pid, funcs)
  ctx.note('bug-pattern rules swept %d functions and %d classes in the data path of %s (%d obligations)' % (len(funcs), len(classes), pid, len(ctx.obs) - before))
