#!/venv/bin/python
"""Runs the repository's baseline test command and compares with BASELINE.json
(dev helper for fix: commits; never used by a check)."""
import json, subprocess, sys, tempfile, os, xml.etree.ElementTree as ET
b = json.load(open('/root/.vp/BASELINE.json'))
out = tempfile.mktemp(suffix='.xml')
subprocess.run(['/venv/bin/python', '-m', 'pytest', '-ra', '-q', '-p', 'no:cacheprovider', '--timeout=900',
                '--continue-on-collection-errors', '--junitxml=' + out], cwd=sys.argv[1] if len(sys.argv) > 1 else '/repo',
               capture_output=True)
passed = set()
for tc in ET.parse(out).getroot().iter('testcase'):
  if not any(c.tag in ('failure', 'error', 'skipped') for c in tc):
    passed.add('%s::%s' % (tc.get('classname'), tc.get('name')))
os.remove(out)
missing = [t for t in b['stable_pass'] if t not in passed]
print('stable_pass: %d/%d pass' % (len(b['stable_pass']) - len(missing), len(b['stable_pass'])))
for t in missing: print('  REGRESSION', t)
sys.exit(1 if missing else 0)
