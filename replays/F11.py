from _common import *
@gin.configurable
def known(x=None): return x
try:
  gin.parse_config("import gin.testdata.import_test_configurables\nknown.x = 1\nbad.x = 2")
except Exception: pass
s = gin.config_str()
done('import gin.testdata.import_test_configurables' not in s, "config_str() after failed parse %s the import that preceded the failure" %
     ('lacks' if 'import gin.testdata' not in s else 'lists'))
