def S(name, rule, file, old, new, note=''):
  return dict(name=name, rule=rule, edits=[(file, old, new)], note=note)
