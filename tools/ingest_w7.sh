#!/bin/bash
# ingest_w7.sh C13 ...   (break round k/l from /tmp/w7_<id>/seed_{k,l})
for p in "$@"; do
for r in k l; do /verif/tools/try_seed.py /tmp/w7_$p/seed_$r --keep-as ${p}$r 2>&1 | python3 -c "
import json,sys
t=sys.stdin.read(); d=json.loads(t[t.index('{'):])
print('$p$r', d['confirmed'], 'own' if d['detected_own_property'] else '---', {k:(v['exit'], v['rules'] or v['msg'][:1]) for k,v in d['detected_by'].items()})"; done; done
