#!/bin/bash
# with_patch.sh <seed-or-refactor id> <check ids...>  : apply the kept patch to /repo, run the checks (--no-write), restore
id=$1; shift
p=/verif/seeded/$id/patch.diff; [ -f $p ] || p=/verif/refactors/$id/patch.diff
git -C /repo apply $p || exit 3
for c in "$@"; do /verif/check $c --no-write 2>&1 | grep -v "^WARNING" | grep -A1 "rule=\|VIOLATION\|ANALYSIS-ERROR\|obligations over" ; done
git -C /repo checkout -- .
