from ._h import S
C = 'config.py'
SEEDS = [
  S('raise-removed', 'C10.before-call', C, "      err_str = err_str.format(minimal_selector, missing_required_params)\n      raise RuntimeError(err_str)", "      err_str = err_str.format(minimal_selector, missing_required_params)\n      logging.error(err_str)"),
  S('raise-conditional', 'C10.before-call', C, "    if missing_required_params:\n      missing_required_params = (", "    if missing_required_params and gin_bound_args:\n      missing_required_params = ("),
  S('keyword-marker-not-popped', 'C10.complete', C, "        # Remove from kwargs and let the new_kwargs value be used.\n        kwargs.pop(required_kwarg)", "        pass"),
  S('positional-marker-not-substituted', 'C10.complete', C, "      else:\n        new_args[i] = new_kwargs.pop(arg_name)", "      else:\n        new_kwargs.pop(arg_name)"),
  S('positional-missing-not-reported', 'C10.complete', C, "      if arg_name not in new_kwargs:\n        missing_required_params.append(arg_name)\n      else:\n        new_args[i] = new_kwargs.pop(arg_name)", "      if arg_name in new_kwargs:\n        new_args[i] = new_kwargs.pop(arg_name)"),
  S('signature-marker-ignores-keywords-check', 'C10.complete', C, "          required_kwarg not in kwargs and  # or a keyword arg\n", ""),
  S('signature-marker-or', 'C10.complete', C, "      if (required_kwarg not in arg_names and  # not a positional arg", "      if (required_kwarg not in arg_names or  # not a positional arg"),
  S('equality-comparison', 'C10.identity', C, "    for kwarg, value in kwargs.items():\n      if value is REQUIRED:", "    for kwarg, value in kwargs.items():\n      if value == REQUIRED:"),
  S('vararg-marker-warned', 'C10.vararg', C, "    for arg in args[len(arg_names):]:\n      if arg is REQUIRED:\n        raise ValueError(", "    for arg in args[len(arg_names):]:\n      if arg is REQUIRED:\n        logging.warning("),
  S('vararg-first-skipped', 'C10.vararg', C, "    for arg in args[len(arg_names):]:\n      if arg is REQUIRED:\n        raise ValueError(", "    for arg in args[len(arg_names) + 1:]:\n      if arg is REQUIRED:\n        raise ValueError("),
  S('unordered-names', 'C10.order', C, "      missing_required_params = (\n          _order_by_signature(signature_fn, missing_required_params))\n", ""),
  S('denylisted-required-accepted', 'C10.registration', C, "      if denylist and kwarg in denylist:\n        err_str = \"Argument '{}' of {} marked REQUIRED but denylisted.\"\n        raise ValueError(err_str.format(kwarg, fn_descriptor))\n", ""),
  S('allowlist-check-inverted', 'C10.registration', C, "      if allowlist and kwarg not in allowlist:\n        err_str = \"Argument '{}' of {} marked REQUIRED but not allowlisted.\"", "      if allowlist and kwarg in allowlist:\n        err_str = \"Argument '{}' of {} marked REQUIRED but not allowlisted.\""),
]
