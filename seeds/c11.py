from ._h import S
C = 'config.py'
SEEDS = [
  S('denylist-guard-dropped', 'C11.guards', C, "    if configurable_.denylist and arg_name in configurable_.denylist:\n      err_str = \"Configurable '{}' has denylisted kwarg '{}'.\"\n      raise ValueError(err_str.format(selector, arg_name))\n", ""),
  S('denylist-guard-inverted', 'C11.guards', C, "    if configurable_.denylist and arg_name in configurable_.denylist:", "    if configurable_.denylist and arg_name not in configurable_.denylist:"),
  S('allowlist-guard-weakened', 'C11.guards', C, "    if configurable_.allowlist and arg_name not in configurable_.allowlist:", "    if configurable_.allowlist and configurable_.denylist and arg_name not in configurable_.allowlist:"),
  S('signature-guard-dropped', 'C11.guards', C, "    if not _might_have_parameter(configurable_.wrapper, arg_name):\n      err_str = \"Configurable '{}' doesn't have a parameter named '{}'.\"\n      raise ValueError(err_str.format(selector, arg_name))\n", ""),
  S('method-without-class-allowed', 'C11.guards', C, "    if configurable_.is_method and '.' not in selector:", "    if configurable_.is_method and '.' in selector:"),
  S('unknown-configurable-passes', 'C11.guards', C, "    configurable_ = _parse_context().get_configurable(selector)\n    if not configurable_:\n      _raise_unknown_configurable_error(selector)\n\n    if configurable_.is_method", "    configurable_ = _parse_context().get_configurable(selector)\n\n    if configurable_.is_method"),
  S('key-keeps-given-selector', 'C11.guards', C, "        complete_selector=configurable_.selector,\n        arg_name=arg_name)", "        complete_selector=selector,\n        arg_name=arg_name)"),
  S('write-before-validation', 'C11.validate-first', C, "  pbk = ParsedBindingKey.parse(binding_key)\n  fn_dict = _CONFIG.setdefault(pbk.config_key, {})", "  fn_dict = _CONFIG.setdefault(tuple(binding_key[:2]), {})\n  pbk = ParsedBindingKey.parse(binding_key)"),
  S('tuple-keys-bypass-validation', 'C11.validate-first', C, "  pbk = ParsedBindingKey.parse(binding_key)\n  fn_dict", "  if isinstance(binding_key, tuple):\n    pbk = ParsedBindingKey(binding_key[0], binding_key[1], binding_key[1], binding_key[2])\n  else:\n    pbk = ParsedBindingKey.parse(binding_key)\n  fn_dict"),
  S('key-built-outside-parse', 'C11.construct', C, "  for pbk, value in bindings.items():\n    bind_parameter(pbk, value)", "  for pbk, value in bindings.items():\n    bind_parameter(ParsedBindingKey(pbk.scope, pbk.given_selector, pbk.given_selector, pbk.arg_name), value)"),
  S('kwonly-ignored', 'C11.signature', C, "  return arg_name in arg_spec.args or arg_name in arg_spec.kwonlyargs", "  return arg_name in arg_spec.args"),
  S('varkw-ignored', 'C11.signature', C, "  if arg_spec.varkw:  # pytype: disable=attribute-error\n    return True\n", ""),
  S('denylist-not-validated', 'C11.lists', C, "  _validate_parameters(fn_or_cls, denylist, 'denylist')\n", ""),
  S('both-lists-accepted', 'C11.lists', C, "  if allowlist and denylist:\n    err_str = 'An allowlist or a denylist can be specified, but not both.'\n    raise ValueError(err_str)\n", ""),
  S('method-flag-not-set', 'C11.method', C, "          module=selector, selector=new_selector, is_method=True)", "          module=selector, selector=new_selector)"),
]
