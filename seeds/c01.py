from ._h import S
C = 'config.py'
SEEDS = [
  S('range-from-1', 'C01.overlay', C, "range(len(scope_components) + 1)]", "range(1, len(scope_components) + 1)]", 'root scope never applies'),
  S('range-no-full-scope', 'C01.overlay', C, "range(len(scope_components) + 1)]", "range(len(scope_components))]", 'the full active scope never applies'),
  S('reversed-prefixes', 'C01.overlay', C, "scope_components[:i] for i in range(len(scope_components) + 1)]", "scope_components[:i] for i in reversed(range(len(scope_components) + 1))]", 'shorter prefix overrides longer'),
  S('suffix-slices', 'C01.overlay', C, "scope_components[:i] for i in range(len(scope_components) + 1)]", "scope_components[i:] for i in range(len(scope_components) + 1)]", 'suffixes instead of prefixes'),
  S('earlier-wins-merge', 'C01.overlay', C, "    new_kwargs.update(_CONFIG.get((partial_scope_str, selector), {}))", "    new_kwargs = {**_CONFIG.get((partial_scope_str, selector), {}), **new_kwargs}", 'shorter prefix wins'),
  S('config-wins-over-kwargs', 'C01.precedence', C, "    new_kwargs.update(kwargs)\n", "    kwargs.update(new_kwargs)\n    new_kwargs = kwargs\n", 'binding overrides caller keyword'),
  S('caller-kwargs-dropped-when-bound', 'C01.precedence', C, "    new_kwargs.update(kwargs)\n", "    for _k, _v in kwargs.items():\n      new_kwargs.setdefault(_k, _v)\n", 'binding overrides caller keyword'),
  S('list-scope-appended', 'C01.scope-entry', C, "    new_scope = name_or_scope\n", "    new_scope = current_scope() + name_or_scope\n", 'explicit list appended instead of replacing'),
  S('name-scope-replaces', 'C01.scope-entry', C, "    new_scope = current_scope()  # Returns a copy.\n", "    new_scope = []\n", 'named scope no longer nests'),
  S('bindings-fetched-in-factory', 'C01.fresh', C, "    current_selector = _RENAMED_SELECTORS.get(selector, selector)\n    new_kwargs = _get_bindings(current_selector)\n", "    current_selector = _RENAMED_SELECTORS.get(selector, selector)\n    new_kwargs = dict(_factory_bindings)\n", 'stale bindings'),
  S('explicit-root-scope', 'C01.fresh', C, "    new_kwargs = _get_bindings(current_selector)\n", "    new_kwargs = _get_bindings(current_selector, scope_components=[''])\n", 'ambient scope ignored'),
  S('positional-names-kept', 'C01.precedence', C, "    for arg_name in arg_names:\n      if arg_name not in required_arg_names:\n        new_kwargs.pop(arg_name, None)\n", "", 'positional + bound -> multiple values TypeError'),
]
