"""Callee resolution, call graph, no-return functions, store table (E2/E5)."""
import ast

from .core import (AnalysisError, Class, Func, FuncNode, ancestors, u,
                   walk_local)
from .cfg import CFG

# Module-level globals whose type is inferred from their initialiser.
_MUTATING_METHODS = {
    'update', 'setdefault', 'clear', 'pop', 'popitem', 'append', 'add',
    'extend', 'insert', 'remove', 'discard', '__setitem__', '__delitem__',
    'appendleft', 'popleft', 'sort', 'reverse',
}


class Program:
  """Resolved view of the package: call graph + stores + CFG cache."""

  def __init__(self, index):
    self.ix = index
    self._cfgs = {}
    self.global_types = {}   # (module, name) -> Class
    self._infer_global_types()
    self.calls = {}          # Func.qual -> list of (ast.Call, callee qual|None)
    for f in index.all_funcs():
      self.calls[f.qual] = [(c, self.resolve_call(f, c)) for c in self._calls(f)]
    self.noreturn = self._compute_noreturn()

  # ------------------------------------------------------------------ helpers
  def _calls(self, f):
    return [n for n in walk_local(f.node) if isinstance(n, ast.Call)]

  def _infer_global_types(self):
    for m in self.ix.modules.values():
      for name, lst in m.assigns.items():
        for st, val in lst:
          if isinstance(val, ast.Call):
            tgt = self._resolve_expr_to_def(m, None, val.func)
            if isinstance(tgt, Class):
              self.global_types[(m.name, name)] = tgt

  def _module_by_dotted(self, dotted):
    # 'gin.config' -> 'config' ; 'gin' -> package itself
    if dotted == 'gin':
      return '__init__'
    if dotted.startswith('gin.'):
      rest = dotted[4:]
      if rest in self.ix.modules:
        return rest
    return None

  def _resolve_name(self, m, f, name):
    """Resolve a bare name used in function f (or module scope if f None)."""
    g = f
    while g is not None:
      if name in g.nested:
        return g.nested[name]
      if name in g.local_names():
        return None  # a local variable / parameter
      g = g.outer
    if name in m.funcs:
      return m.funcs[name]
    if name in m.classes:
      return m.classes[name]
    imp = m.imports.get(name)
    if imp:
      if imp[0] == 'from':
        # `from gin import config` binds a module; `from gin.config import x`
        sub = self._module_by_dotted((imp[1] + '.' + imp[2]).strip('.'))
        if sub:
          return ('module', sub)
        mod = self._module_by_dotted(imp[1])
        if mod:
          mm = self.ix.modules[mod]
          return mm.funcs.get(imp[2]) or mm.classes.get(imp[2])
      else:
        mod = self._module_by_dotted(imp[1])
        if mod:
          return ('module', mod)
    return None

  def _resolve_expr_to_def(self, m, f, expr):
    if isinstance(expr, ast.Name):
      return self._resolve_name(m, f, expr.id)
    if isinstance(expr, ast.Attribute):
      base = expr.value
      if isinstance(base, ast.Name):
        if f is not None and base.id in ('self', 'cls') and f.cls is not None \
            and f.params and f.params[0] == base.id:
          return self._lookup_method(f.cls, expr.attr)
        # enclosing method's self used inside a nested function
        if f is not None and base.id in ('self', 'cls'):
          g = f.outer
          while g is not None:
            if g.cls is not None and g.params and g.params[0] == base.id:
              return self._lookup_method(g.cls, expr.attr)
            g = g.outer
        r = self._resolve_name(m, f, base.id)
        if isinstance(r, tuple) and r[0] == 'module':
          mm = self.ix.modules[r[1]]
          return mm.funcs.get(expr.attr) or mm.classes.get(expr.attr)
        if isinstance(r, Class):
          return self._lookup_method(r, expr.attr)
        if r is None and (f is None or base.id not in f.local_names()):
          t = self.global_types.get((m.name, base.id))
          if t is not None:
            return self._lookup_method(t, expr.attr)
      elif isinstance(base, ast.Attribute):
        r = self._resolve_expr_to_def(m, f, base)
        if isinstance(r, tuple) and r[0] == 'module':
          mm = self.ix.modules[r[1]]
          return mm.funcs.get(expr.attr) or mm.classes.get(expr.attr)
        if isinstance(r, Class):
          return self._lookup_method(r, expr.attr)
      elif isinstance(base, ast.Call):
        # _parse_context().get_configurable(...) via return annotation
        callee = self._resolve_expr_to_def(m, f, base.func)
        if isinstance(callee, Func) and callee.node.returns is not None:
          t = self._resolve_expr_to_def(callee.module, None, callee.node.returns)
          if isinstance(t, Class):
            return self._lookup_method(t, expr.attr)
        if isinstance(callee, Class):
          return self._lookup_method(callee, expr.attr)
    return None

  def _lookup_method(self, c, name):
    if name in c.methods:
      return c.methods[name]
    for b in c.node.bases:
      bc = self._resolve_expr_to_def(c.module, None, b)
      if isinstance(bc, Class):
        r = self._lookup_method(bc, name)
        if r:
          return r
    return None

  def resolve_call(self, f, call):
    """Qualified name of the repository function/class called, or None."""
    r = self._resolve_expr_to_def(f.module, f, call.func)
    if isinstance(r, (Func, Class)):
      return r.qual
    # with cm() as x: x.method(...)  -- type of x from the yield of cm
    if isinstance(call.func, ast.Attribute) and isinstance(call.func.value, ast.Name):
      t = self.local_type(f, call.func.value.id)
      if t is not None:
        mth = self._lookup_method(t, call.func.attr)
        if mth:
          return mth.qual
    # x.m(...) where m is defined by exactly one concrete repository class and
    # is not the name of a builtin container/str method.
    if isinstance(call.func, ast.Attribute):
      mth = self.unique_method(call.func.attr)
      if mth is not None:
        return mth.qual
    return None

  _BUILTIN_METHOD_NAMES = set(dir(dict)) | set(dir(list)) | set(dir(str)) | \
      set(dir(set)) | set(dir(tuple)) | {'match', 'popleft', 'appendleft'}

  def unique_method(self, name):
    if name in self._BUILTIN_METHOD_NAMES:
      return None
    cands = []
    for c in self.ix.all_classes():
      m = c.methods.get(name)
      if m is None:
        continue
      if any(d.endswith('abstractmethod') for d in m.decorator_names()):
        continue
      if any(d == 'property' for d in m.decorator_names()):
        continue
      cands.append(m)
    return cands[0] if len(cands) == 1 else None

  def resolve_expr(self, f, expr):
    r = self._resolve_expr_to_def(f.module, f, expr)
    return r.qual if isinstance(r, (Func, Class)) else None

  def local_type(self, f, name):
    """Type (Class) of local `name` in f when bound by `with cm() as name`
    where cm is a generator context manager that yields a typed call."""
    for n in walk_local(f.node):
      if isinstance(n, ast.Assign) and len(n.targets) == 1 and \
          isinstance(n.targets[0], ast.Name) and n.targets[0].id == name and \
          isinstance(n.value, ast.Call):
        c = self._resolve_expr_to_def(f.module, f, n.value.func)
        if isinstance(c, Class):
          return c
      if isinstance(n, ast.With):
        for it in n.items:
          if isinstance(it.optional_vars, ast.Name) and it.optional_vars.id == name \
              and isinstance(it.context_expr, ast.Call):
            cm = self._resolve_expr_to_def(f.module, f, it.context_expr.func)
            if isinstance(cm, Func) and cm.is_contextmanager():
              for y in walk_local(cm.node):
                if isinstance(y, ast.Yield) and isinstance(y.value, ast.Call):
                  inner = self._resolve_expr_to_def(cm.module, cm, y.value.func)
                  if isinstance(inner, Func) and inner.node.returns is not None:
                    t = self._resolve_expr_to_def(inner.module, None, inner.node.returns)
                    if isinstance(t, Class):
                      return t
                  if isinstance(inner, Class):
                    return inner
    return None

  # --------------------------------------------------------------- no-return
  def _compute_noreturn(self):
    nr = set()
    changed = True
    funcs = [f for f in self.ix.all_funcs() if not f.is_generator()]
    while changed:
      changed = False
      for f in funcs:
        if f.qual in nr:
          continue
        if any(d.endswith('abstractmethod') for d in f.decorator_names()):
          continue
        g = CFG(f.node, noreturn=lambda c, f=f: self.resolve_call(f, c) in nr)
        if not g.normal_exit_reachable():
          nr.add(f.qual)
          changed = True
    return nr

  def is_noreturn_call(self, f, call):
    return self.resolve_call(f, call) in self.noreturn

  def cfg(self, f, may_raise=None, yield_raises=None, cache_key=None):
    if yield_raises is None:
      yield_raises = f.is_contextmanager()
    key = (f.qual, cache_key, yield_raises)
    if may_raise is None or cache_key is not None:
      if key in self._cfgs:
        return self._cfgs[key]
    g = CFG(f.node, noreturn=lambda c: self.is_noreturn_call(f, c),
            may_raise=may_raise, yield_raises=yield_raises)
    if may_raise is None or cache_key is not None:
      self._cfgs[key] = g
    return g

  # -------------------------------------------------------------- call graph
  def callees(self, qual):
    return {q for _, q in self.calls.get(qual, []) if q}

  def reachable(self, roots, stop=()):
    seen = set()
    stack = list(roots)
    while stack:
      q = stack.pop()
      if q in seen or q in stop:
        continue
      seen.add(q)
      f = self.ix.get(q)
      if isinstance(f, Class):
        init = f.methods.get('__init__')
        if init:
          stack.append(init.qual)
        continue
      stack.extend(self.callees(q))
    return seen

  def call_sites_of(self, target_qual, modules=None):
    out = []
    for q, lst in self.calls.items():
      f = self.ix.get(q)
      if modules is not None and f.module.name not in modules:
        continue
      for c, callee in lst:
        if callee == target_qual:
          out.append((f, c))
    return out

  def path_to(self, root, target):
    """One call-graph path root -> target (list of quals) or None."""
    prev = {root: None}
    queue = [root]
    while queue:
      q = queue.pop(0)
      if q == target:
        out = []
        while q is not None:
          out.append(q)
          q = prev[q]
        return out[::-1]
      f = self.ix.get(q)
      nxt = []
      if isinstance(f, Class):
        init = f.methods.get('__init__')
        nxt = [init.qual] if init else []
      else:
        nxt = sorted(self.callees(q))
      for c in nxt:
        if c not in prev:
          prev[c] = q
          queue.append(c)
    return None


# ----------------------------------------------------------------------------
# Store table


class Access:
  __slots__ = ('store', 'func', 'node', 'kind', 'method', 'stmt')

  def __init__(self, store, func, node, kind, method=None):
    self.store = store
    self.func = func      # Func or None (module level)
    self.node = node      # the ast.Name node
    self.kind = kind      # 'read' | 'write' | 'escape' | 'rebind' | 'init'
    self.method = method  # method / operation name for writes

  @property
  def lineno(self):
    return self.node.lineno

  def loc(self):
    f = self.func
    return '%s:%d (%s)' % (f.file if f else '?', self.node.lineno,
                           f.qual if f else '<module>')

  def __repr__(self):
    return '<%s %s %s %s>' % (self.store, self.kind, self.method or '', self.loc())


def is_mutable_init(val):
  if isinstance(val, (ast.Dict, ast.List, ast.Set, ast.ListComp, ast.DictComp,
                      ast.SetComp)):
    return True
  if isinstance(val, ast.Call):
    t = u(val.func)
    if t in ('object',):
      return False
    if t.startswith('re.') or t.startswith('typing.') or t in ('Union', 'Optional'):
      return False
    return True
  return False


def module_stores(prog, modname):
  """Module-level mutable globals of a module: name -> (stmt, value).

  A name counts when it is bound at module level to a mutable value (display,
  comprehension or constructor call) or is rebound through `global` inside a
  function (the boolean mode flags)."""
  m = prog.ix.module(modname)
  stores = {}
  for name, lst in m.assigns.items():
    st, val = lst[0]
    if val is not None and is_mutable_init(val):
      stores[name] = (st, val)
  for f in prog.ix.all_funcs([modname]):
    for n in walk_local(f.node):
      if isinstance(n, ast.Global):
        for g in n.names:
          if g in m.assigns and g not in stores:
            stores[g] = m.assigns[g][0]
  return stores


def classify_access(name_node):
  """Classifies one ast.Name occurrence of a store."""
  p = name_node.parent
  if isinstance(name_node.ctx, (ast.Store, ast.Del)):
    return 'rebind', None
  # S[k] = v / del S[k] / S[k] += v
  if isinstance(p, ast.Subscript) and p.value is name_node:
    if isinstance(p.ctx, (ast.Store, ast.Del)):
      return 'write', '__setitem__' if isinstance(p.ctx, ast.Store) else '__delitem__'
    # S[k][j] = v  -> nested write through the store
    q = p
    while isinstance(q.parent, ast.Subscript) and q.parent.value is q:
      q = q.parent
      if isinstance(q.ctx, (ast.Store, ast.Del)):
        return 'write', 'nested.__setitem__'
    if isinstance(q.parent, ast.Attribute) and q.parent.value is q and \
        isinstance(q.parent.parent, ast.Call) and q.parent.parent.func is q.parent and \
        q.parent.attr in _MUTATING_METHODS:
      return 'write', 'nested.' + q.parent.attr
    return 'read', '__getitem__'
  if isinstance(p, ast.Attribute) and p.value is name_node:
    if isinstance(p.parent, ast.Call) and p.parent.func is p:
      if p.attr in _MUTATING_METHODS:
        return 'write', p.attr
      return 'read', p.attr
    if isinstance(p.ctx, ast.Store):
      return 'write', 'setattr.' + p.attr
    return 'read', 'attr.' + p.attr
  if isinstance(p, ast.Compare):
    return 'read', 'compare'
  if isinstance(p, ast.Call) and name_node in p.args:
    return 'escape', 'arg:' + u(p.func)
  if isinstance(p, ast.keyword):
    return 'escape', 'kwarg'
  if isinstance(p, ast.Return):
    return 'escape', 'return'
  if isinstance(p, (ast.withitem,)):
    return 'read', 'with'
  if isinstance(p, (ast.For, ast.comprehension)) and getattr(p, 'iter', None) is name_node:
    return 'read', 'iterate'
  if isinstance(p, (ast.If, ast.While, ast.BoolOp, ast.UnaryOp, ast.IfExp)):
    return 'read', 'truth'
  if isinstance(p, (ast.Assign, ast.AnnAssign)) and p.value is name_node:
    return 'escape', 'alias'
  return 'escape', type(p).__name__


def store_accesses(prog, modname, names=None):
  """All accesses to module-level stores of `modname` from any function of the
  package (other modules reach them as `config.X`)."""
  stores = module_stores(prog, modname)
  if names is not None:
    missing = [n for n in names if n not in stores]
    if missing:
      raise AnalysisError('store(s) %s no longer defined at module level of gin/%s.py'
                          % (missing, modname))
    stores = {k: v for k, v in stores.items() if k in names}
  out = []
  m = prog.ix.module(modname)
  for f in prog.ix.all_funcs([modname]):
    shadow = f.local_names()
    # names that are local in an enclosing function shadow too
    g = f.outer
    outer_shadow = set()
    while g is not None:
      outer_shadow |= g.local_names()
      g = g.outer
    declared_global = set()
    for n in walk_local(f.node):
      if isinstance(n, ast.Global):
        declared_global.update(n.names)
    lambdas = [l for l in walk_local(f.node) if isinstance(l, ast.Lambda)]
    in_lambdas = [x for l in lambdas for x in ast.walk(l.body)]
    for n in list(walk_local(f.node)) + in_lambdas:
      if isinstance(n, ast.Name) and n.id in stores:
        if n.id in declared_global:
          pass
        elif n.id in shadow or n.id in outer_shadow:
          continue
        kind, method = classify_access(n)
        out.append(Access(n.id, f, n, kind, method))
  # module-level uses (initialisers, top-level statements)
  for st in m.tree.body:
    if isinstance(st, FuncNode + (ast.ClassDef,)):
      continue
    for n in ast.walk(st):
      if isinstance(n, ast.Name) and n.id in stores:
        if isinstance(n.ctx, ast.Store):
          out.append(Access(n.id, None, n, 'init', None))
        else:
          kind, method = classify_access(n)
          out.append(Access(n.id, None, n, kind, method))
  # other modules: config.X
  for om in prog.ix.modules.values():
    if om.name == modname:
      continue
    aliases = {b for b, imp in om.imports.items()
               if (imp[0] == 'from' and prog._module_by_dotted((imp[1] + '.' + imp[2])) == modname)
               or (imp[0] == 'module' and prog._module_by_dotted(imp[1]) == modname)}
    if not aliases:
      continue
    for n in ast.walk(om.tree):
      if isinstance(n, ast.Attribute) and isinstance(n.value, ast.Name) and \
          n.value.id in aliases and n.attr in stores:
        fn = None
        for a in ancestors(n):
          if isinstance(a, FuncNode):
            fn = next((f for f in prog.ix.all_funcs([om.name]) if f.node is a), None)
            break
        fake = ast.Name(id=n.attr, ctx=n.ctx)
        fake.lineno = n.lineno
        fake.parent = n.parent
        # re-point parent link check: classify using the attribute node itself
        kind, method = _classify_attr_store(n)
        out.append(Access(n.attr, fn, fake, kind, method))
  return stores, out


def _classify_attr_store(attr_node):
  """classify_access for a `config.X` attribute occurrence."""
  p = attr_node.parent
  if isinstance(attr_node.ctx, (ast.Store, ast.Del)):
    return 'rebind', None
  if isinstance(p, ast.Subscript) and p.value is attr_node:
    if isinstance(p.ctx, (ast.Store, ast.Del)):
      return 'write', '__setitem__'
    return 'read', '__getitem__'
  if isinstance(p, ast.Attribute) and p.value is attr_node:
    if isinstance(p.parent, ast.Call) and p.parent.func is p:
      return ('write', p.attr) if p.attr in _MUTATING_METHODS else ('read', p.attr)
    return 'read', 'attr.' + p.attr
  return 'escape', type(p).__name__


def enclosing_withs(node):
  """With statements lexically enclosing `node` (innermost last)."""
  out = []
  for a in ancestors(node):
    if isinstance(a, FuncNode + (ast.Lambda,)):
      break
    if isinstance(a, (ast.With, ast.AsyncWith)):
      # only when node is in the body, not in the items
      out.append(a)
  return out[::-1]


def in_with_body(node, w):
  cur = node
  for a in ancestors(node):
    if a is w:
      return any(cur is s for s in w.body)
    cur = a
  return False
