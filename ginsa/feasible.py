"""Bounded path feasibility with a small predicate store (DESIGN.md E6).

Used to discharge syntactic witness paths: an alarm is dropped only when the
path is contradictory under facts of the forms `X == C`, `X in [C...]`, and
truth values of local names.  Sound direction: anything not understood leaves
the path feasible.
"""
import ast

from .core import u
from .cfg import decompose

UNKNOWN = object()


def _is_const(e):
  """Symbolic constants: literals and dotted ALL-CAPS names (tokenize.NUMBER)."""
  if isinstance(e, ast.Constant):
    return True
  if isinstance(e, ast.Attribute) and e.attr.isupper():
    return True
  if isinstance(e, ast.Name) and e.id.isupper():
    return True
  return False


class Store:

  def __init__(self):
    self.eq = {}      # expr text -> constant text it equals
    self.neq = {}     # expr text -> set of constant texts it differs from
    self.truth = {}   # name -> bool
    self.vals = {}    # name -> ast expr (for list/tuple constants: end_types = (...))

  def kill_name(self, name):
    for d in (self.eq, self.neq, self.truth, self.vals):
      for k in [k for k in d if k == name or (name in k and not k.replace(name, '').strip('._[]') == k)]:
        if k == name or name + '.' in k or name + '[' in k:
          d.pop(k, None)
    self.truth.pop(name, None)
    self.vals.pop(name, None)

  def kill_containing(self, text):
    for d in (self.eq, self.neq, self.truth):
      for k in [k for k in d if text in k]:
        d.pop(k, None)

  def elements(self, e):
    if isinstance(e, (ast.List, ast.Tuple, ast.Set)):
      return e.elts
    if isinstance(e, ast.Name) and e.id in self.vals:
      return self.elements(self.vals[e.id])
    return None

  def ev(self, e):
    """True / False / UNKNOWN."""
    if isinstance(e, ast.Constant):
      return bool(e.value)
    if isinstance(e, ast.Name):
      return self.truth.get(e.id, UNKNOWN)
    if isinstance(e, ast.UnaryOp) and isinstance(e.op, ast.Not):
      v = self.ev(e.operand)
      return UNKNOWN if v is UNKNOWN else (not v)
    if isinstance(e, ast.BoolOp):
      vals = [self.ev(v) for v in e.values]
      if isinstance(e.op, ast.And):
        if any(v is False for v in vals):
          return False
        return True if all(v is True for v in vals) else UNKNOWN
      if any(v is True for v in vals):
        return True
      return False if all(v is False for v in vals) else UNKNOWN
    if isinstance(e, ast.Compare) and len(e.ops) == 1:
      op, l, r = e.ops[0], e.left, e.comparators[0]
      if isinstance(op, (ast.Eq, ast.NotEq)):
        res = self._eq(l, r)
        if res is UNKNOWN:
          return UNKNOWN
        return res if isinstance(op, ast.Eq) else (not res)
      if isinstance(op, (ast.In, ast.NotIn)):
        elts = self.elements(r)
        if elts is None:
          return UNKNOWN
        rs = [self._eq(l, x) for x in elts]
        if any(x is True for x in rs):
          res = True
        elif all(x is False for x in rs):
          res = False
        else:
          return UNKNOWN
        return res if isinstance(op, ast.In) else (not res)
    return UNKNOWN

  def _eq(self, l, r):
    if _is_const(l) and not _is_const(r):
      l, r = r, l
    lt, rt = u(l), u(r)
    if _is_const(l) and _is_const(r):
      return lt == rt
    if _is_const(r):
      if lt in self.eq:
        return self.eq[lt] == rt
      if rt in self.neq.get(lt, ()):
        return False
    return UNKNOWN

  def assume(self, test, pol):
    """Records facts of test == pol.  Returns False if contradictory."""
    v = self.ev(test)
    if v is not UNKNOWN and v != pol:
      return False
    for text, p in decompose(test, pol):
      t = ast.parse(text, mode='eval').body
      if isinstance(t, ast.Name):
        self.truth[t.id] = p
      elif isinstance(t, ast.Compare) and len(t.ops) == 1 and isinstance(t.ops[0], ast.Eq):
        l, r = t.left, t.comparators[0]
        if _is_const(l) and not _is_const(r):
          l, r = r, l
        if _is_const(r):
          if p:
            self.eq[u(l)] = u(r)
          else:
            self.neq.setdefault(u(l), set()).add(u(r))
      elif isinstance(t, ast.Compare) and len(t.ops) == 1 and isinstance(t.ops[0], ast.In) and not p:
        elts = self.elements(t.comparators[0])
        if elts and all(_is_const(x) for x in elts):
          self.neq.setdefault(u(t.left), set()).update(u(x) for x in elts)
    return True

  def assign(self, name, value):
    self.kill_name(name)
    if isinstance(value, (ast.List, ast.Tuple, ast.Set)) and all(_is_const(x) for x in value.elts):
      self.vals[name] = value
      return
    v = self.ev(value)
    if v is not UNKNOWN:
      self.truth[name] = v


def path_feasible(g, path, consuming_ids=(), volatile='self._current_token'):
  """path: list of (node_id, edge_kind).  consuming nodes invalidate facts
  about `volatile`."""
  from .lib import stored_names
  st = Store()
  for nid, ek in path:
    n = g.nodes[nid]
    if n.kind == 'test' and ek in ('T', 'F'):
      if not st.assume(n.ast, ek == 'T'):
        return False
    if nid in consuming_ids:
      st.kill_containing(volatile)
    a = n.ast
    if n.kind == 'stmt' and isinstance(a, ast.Assign) and len(a.targets) == 1 and isinstance(a.targets[0], ast.Name):
      st.assign(a.targets[0].id, a.value)
    elif n.kind == 'stmt' and isinstance(a, ast.AugAssign) and isinstance(a.target, ast.Name):
      if isinstance(a.op, ast.BitAnd):
        old = st.truth.get(a.target.id, UNKNOWN)
        new = st.ev(a.value)
        st.kill_name(a.target.id)
        if old is False or new is False:
          st.truth[a.target.id] = False
        elif old is True and new is True:
          st.truth[a.target.id] = True
      else:
        st.kill_name(a.target.id)
    elif a is not None and n.kind in ('stmt', 'for', 'with_enter'):
      for nm in stored_names(n, mutations=False):
        st.kill_name(nm)
  return True
