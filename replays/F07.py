from _common import *
from gin import selector_map
m = selector_map.SelectorMap(); m['a.b.c'] = 1
r = m.minimal_selector('a.b.c')
done(r != 'c', "minimal_selector('a.b.c') on a single-entry map == %r" % r)
