"""Obligations, findings, evidence files, known-findings matching, CLI."""
import argparse
import ast
import importlib
import json
import os
import sys
import time
import traceback

from .core import AnalysisError, Index
from .resolve import Program

VERIF = os.path.dirname(os.path.dirname(os.path.abspath(__file__)))
EVIDENCE_DIR = os.path.join(VERIF, 'evidence')
KNOWN = os.path.join(VERIF, 'known_findings.json')


class Ob:
  """One rule instance (obligation) evaluated on the current tree."""

  def __init__(self, rule, construct, ok, what, loc='', sites=1, instance='',
               path=None, facts=None):
    self.rule = rule            # 'C09.pair'
    self.construct = construct  # 'gin/config.py::config_scope'
    self.instance = instance    # discriminator inside the construct
    self.ok = ok
    self.what = what            # human text: what was decided / what fails
    self.loc = loc              # file:line
    self.sites = sites          # sites / paths examined for this instance
    self.path = path            # for path rules: list of node texts
    self.facts = facts

  def key(self):
    return (self.rule, self.construct, self.instance)

  def as_dict(self):
    d = dict(rule=self.rule, construct=self.construct, instance=self.instance,
             verdict='holds' if self.ok else 'VIOLATED', what=self.what,
             location=self.loc, sites_examined=self.sites)
    if self.path:
      d['path'] = self.path
    if self.facts:
      d['facts'] = self.facts
    return d


class Ctx:
  """What a property's rule module receives."""

  def __init__(self, repo=None, shared=None):
    # `shared` = (Index, Program) built once for several properties of one tree (tools/batch.py); both are read-only to the rules
    self.ix, self.prog = shared if shared is not None else (None, None)
    if self.ix is None:
      self.ix = Index(repo)
      self.prog = Program(self.ix)
    self.obs = []
    self.analysis_errors = []
    self.notes = []
    self.assumptions = []
    self.modules_used = set()

  def ob(self, *a, **k):
    o = Ob(*a, **k)
    self.obs.append(o)
    return o

  def hold(self, rule, construct, what, loc='', sites=1, instance='', **k):
    return self.ob(rule, construct, True, what, loc, sites, instance, **k)

  def fail(self, rule, construct, what, loc='', sites=1, instance='', **k):
    return self.ob(rule, construct, False, what, loc, sites, instance, **k)

  def check(self, cond, rule, construct, ok_what, bad_what, loc='', sites=1,
            instance='', **k):
    return self.ob(rule, construct, bool(cond), ok_what if cond else bad_what,
                   loc, sites, instance, **k)

  def note(self, text):
    self.notes.append(text)

  def section(self, fn, *args, **kw):
    """Runs one rule group; an AnalysisError inside it does not stop the
    other groups (it is reported as exit 2 only if nothing is violated)."""
    try:
      return fn(*args, **kw)
    except AnalysisError as e:
      self.analysis_errors.append(str(e))
      return None

  def assume(self, *facts):
    for f in facts:
      if f not in self.assumptions:
        self.assumptions.append(f)

  def expect_at_least(self, what, got, minimum):
    """Vacuity guard (DESIGN.md section 7)."""
    if got < minimum:
      raise AnalysisError('vacuity guard: %s: found %d, confirmed minimum %d'
                          % (what, got, minimum))

  def borrow(self, other_pid, rule, as_rule, instances=None):
    """Rule `rule` of property `other_pid` decides a necessary condition of this property as well: its obligations are
    evaluated (on the same index) and recorded here under `as_rule`.  A rule that cannot be evaluated there is simply not
    borrowed (the other property reports that)."""
    cache = self.__dict__.setdefault('_borrowed', {})
    if other_pid not in cache:
      sub = Ctx.__new__(Ctx)
      sub.ix, sub.prog = self.ix, self.prog
      sub.obs, sub.analysis_errors, sub.notes, sub.assumptions, sub.modules_used = [], [], [], [], set()
      sub._borrowed = cache
      cache[other_pid] = sub
      try:
        importlib.import_module('ginsa.rules.' + other_pid.lower()).run(sub)
      except AnalysisError:
        pass
    sub = cache[other_pid]
    n = 0
    for o in sub.obs:
      if o.rule == rule and (instances is None or o.instance in instances):
        self.obs.append(Ob(as_rule, o.construct, o.ok, o.what, o.loc, o.sites, o.instance, o.path, o.facts))
        n += 1
    for a in sub.assumptions:
      self.assume(a)
    return n

  def func(self, qual):
    f = self.ix.func(qual)
    self.modules_used.add(f.module.name)
    return f

  def cls(self, qual):
    c = self.ix.cls(qual)
    self.modules_used.add(c.module.name)
    return c


TRUSTED = {
    'T1': 'with always runs __exit__; in a @contextmanager generator an exception in the body re-enters at the yield as a raise',
    'T2': 'instance attributes of a threading.local subclass are per thread; class attributes and module globals are shared',
    'T3': 'dict.update / {**a, **b} / item assignment are later-wins; dict.copy, dict(d), list(l), l[:] are shallow',
    'T4': 'copy.deepcopy recurses into list/tuple/dict and uses the result of __deepcopy__(memo) as is',
    'T5': '__getattr__ runs only when normal lookup fails; BaseException defines args etc. as type-level descriptors; Cls() calls the base __new__ with no arguments',
    'T6': 'dict/set membership uses __hash__ then __eq__; NamedTuple inherits tuple.__eq__ over all fields; __equal__ is not in the data model',
    'T7': '-0 == 0 and seq[0:] is the whole sequence',
    'T8': 'the GIL makes single bytecodes atomic, not test-then-call-then-store',
    'T9': 'ast.literal_eval is CPython\'s literal evaluator; tokenize tokens carry the exact source text',
    'T10': 'ModuleSpec.origin is None for namespace packages; os.path.dirname(None) raises TypeError',
    'T11': 'functools.wraps copies __name__, __qualname__, __doc__, __module__, __dict__ and sets __wrapped__',
    'T12': 'deque.popleft with extend is FIFO',
    'T13': 'truthiness, ==, in, attribute access, calls and iteration dispatch to the operand\'s class and may raise; isinstance and is do not',
    'T14': 'inspect.getfullargspec reports `defaults` and `kwonlydefaults` as None (not empty) when the signature has none',
}


def load_known():
  if not os.path.exists(KNOWN):
    return []
  with open(KNOWN) as f:
    return json.load(f).get('findings', [])


def match_known(pid, ob, known):
  for k in known:
    if k.get('property') == pid and k.get('rule') == ob.rule and \
        k.get('construct') == ob.construct and k.get('instance', '') == ob.instance:
      return k
  return None


_VOCAB = None


def _vocab():
  global _VOCAB
  if _VOCAB is None:
    p = os.path.join(os.path.dirname(os.path.abspath(__file__)), 'canon_vocab.json')
    _VOCAB = set(json.load(open(p))) if os.path.exists(p) else None
    if _VOCAB is not None:
      _VOCAB |= _modelled_words()
  return _VOCAB


def _modelled_words():
  """Identifiers the engine itself names in its rules and rewrites (string constants of its sources): constructs the
  analysis has a model for even though the reference tree does not use them."""
  import ast, re
  out = set()
  base = os.path.dirname(os.path.abspath(__file__))
  for dp, dn, fn in os.walk(base):
    for f in fn:
      if f.endswith('.py'):
        try:
          tree = ast.parse(open(os.path.join(dp, f)).read())
        except SyntaxError:
          continue
        for n in ast.walk(tree):
          if isinstance(n, ast.Constant) and isinstance(n.value, str) and len(n.value) < 60:
            for w in re.findall(r'[A-Za-z_][A-Za-z_0-9]*', n.value):
              out.add(w)
  return out


def unfamiliar_words(ctx, f, seen=None):
  """Called identifiers (and dunder attributes used as values) in the normal form of `f` - and of the new helpers it
  calls - that the reference tree never uses and the package does not define."""
  import ast
  vocab = _vocab()
  if vocab is None:
    return []
  seen = seen if seen is not None else set()
  if f.qual in seen:
    return []
  seen.add(f.qual)
  defined = {q.rsplit('.', 1)[-1] for q in ctx.ix.by_qual}
  local = set(f.params)
  for n in ast.walk(f.node):
    if isinstance(n, ast.Name) and isinstance(n.ctx, ast.Store):
      local.add(n.id)
    elif isinstance(n, ast.arg):
      local.add(n.arg)
    elif isinstance(n, (ast.FunctionDef, ast.ClassDef)):
      local.add(n.name)
  out = []
  imports = f.module.imports
  for n in ast.walk(f.node):
    w = None
    # library callables only: `mod.name(...)` through an imported module, or a from-imported name; methods of
    # builtin types and new package helpers are ordinary code the rules read structurally
    if isinstance(n, ast.Call):
      if isinstance(n.func, ast.Name) and (n.func.id in imports or n.func.id in defined):
        w = n.func.id
      elif isinstance(n.func, ast.Attribute) and isinstance(n.func.value, ast.Name) and \
          imports.get(n.func.value.id, ('',))[0] == 'module' and n.func.value.id not in local:
        w = n.func.attr
      elif isinstance(n.func, ast.Attribute) and n.func.attr in defined and n.func.attr not in vocab:
        w = n.func.attr
    if w is None or w in vocab or w in local:
      continue
    if w in defined:
      g = [x for q, x in ctx.ix.by_qual.items() if q.rsplit('.', 1)[-1] == w and hasattr(x, 'params')]
      for x in g:
        out.extend(unfamiliar_words(ctx, x, seen))
      continue
    if w not in out:
      out.append(w)
  return out


def unfamiliar_demotion(ctx):
  """Failed obligations whose construct is written with vocabulary no rule has seen: reported as undecided (exit 2)
  rather than as a violation.  Obligations in familiar code are untouched."""
  out = []
  cache = {}
  for o in list(ctx.obs):
    if o.ok or '::' not in o.construct:
      continue
    fl, q = o.construct.split('::', 1)
    q = q.split('[')[0].split(' ')[0]
    hit = [f for f in ctx.ix.all_funcs() if f.file == fl and (f.qual.split('.', 1)[1] if '.' in f.qual else f.qual) == q]
    if not hit:
      continue
    f = hit[0]
    if f.qual not in cache:
      cache[f.qual] = unfamiliar_words(ctx, f)
    if cache[f.qual]:
      out.append((o, cache[f.qual]))
  return out


_IFACE = None


def changed_interfaces(ctx):
  """Reference functions whose interface (parameter kinds / count, generator-ness, shapes returned) differs from the reference tree:
  {qual: description}.  The rules read a helper's callers against the reference protocol; when that protocol was changed on both
  sides, what they see is a form they cannot interpret, not a violation."""
  global _IFACE
  if _IFACE is None:
    try:
      with open(os.path.join(os.path.dirname(os.path.abspath(__file__)), 'canon_iface.json')) as f:
        _IFACE = json.load(f)
    except (OSError, ValueError):
      _IFACE = {}
  from .canon import interface_of
  out = {}
  for f in ctx.ix.all_funcs():
    ref = (_IFACE.get(f.module.name) or {}).get(f.qual)
    if ref is None or not hasattr(f, 'node') or isinstance(f.node, ast.ClassDef):
      continue
    cur = interface_of(f.node)
    diff = [k for k in ('pos', 'kwonly', 'var', 'kw', 'gen') if cur[k] != ref[k]]
    if set(cur['rets']) != set(ref['rets']) and not (set(cur['rets']) <= {'value'} and set(ref['rets']) <= {'value'}):
      diff.append('rets')
    if diff:
      out[f.qual] = ', '.join('%s: %s -> %s' % (k, ref[k], cur[k]) for k in diff)
  return out


def interface_demotion(ctx):
  """Failed obligations in a function that calls (or is) a reference function whose interface changed."""
  changed = changed_interfaces(ctx)
  if not changed:
    return []
  out = []
  for o in list(ctx.obs):
    if o.ok or '::' not in o.construct:
      continue
    fl, q = o.construct.split('::', 1)
    q = q.split('[')[0].split(' ')[0]
    hit = [f for f in ctx.ix.all_funcs() if f.file == fl and (f.qual.split('.', 1)[1] if '.' in f.qual else f.qual) == q]
    if not hit:
      continue
    f = hit[0]
    scope = {f.qual}
    o_ = f.outer
    while o_ is not None:
      scope.add(o_.qual)
      o_ = o_.outer
    own = set(scope)
    for q_ in list(scope):
      scope |= {c for c in ctx.prog.callees(q_) if c}
    # a verdict about the changed function itself stands: only its callers read a protocol that is no longer the reference's
    why = sorted((q_, changed[q_]) for q_ in scope - own if q_ in changed)
    if why:
      out.append((o, why))
  return out


def run_property(pid, tier='quick', seed=0, repo=None, write=True, quiet=False,
                 evidence_dir=None, shared=None):
  """Runs all rules of a property. Returns (exit_code, obligations)."""
  t0 = time.time()
  out = []

  def say(s):
    out.append(s)
    if not quiet:
      print(s, flush=True)

  analysis_errors = []
  try:
    ctx = Ctx(repo, shared=shared)
    for m_ in ctx.ix.modules.values():
      if m_.normalized != (0, 0) or m_.renamed_locals:
        ctx.note('normal form of %s: %d helper/closure/temporary rewrites, %d idiom/loop rewrites, %d locals mapped to reference names'
                 % (m_.relpath, m_.normalized[0], m_.normalized[1], m_.renamed_locals))
      if getattr(m_, 'normalize_error', None):
        ctx.note('normal form of %s not computed (%s): analysed as written' % (m_.relpath, m_.normalize_error))
    mod = importlib.import_module('ginsa.rules.' + pid.lower())
    try:
      mod.run(ctx)
      from .rules.lints import run_lints
      ctx.section(run_lints, ctx, pid)
    except AnalysisError as e:
      # A rule could not interpret the tree.  Violations already established by
      # earlier rules stand (exit 1); otherwise the run is an ANALYSIS-ERROR.
      analysis_errors.append(str(e))
    analysis_errors.extend(ctx.analysis_errors)
    if analysis_errors and not any(not o.ok for o in ctx.obs):
      say('ANALYSIS-ERROR property=%s %s' % (pid, '; '.join(analysis_errors)))
      return 2, [], out
    for e in analysis_errors:
      ctx.note('ANALYSIS-ERROR in a later rule (violations above stand): ' + e)
      say('note: a later rule could not be evaluated: ' + e)
    extra = {}
    selftest_bad = []
    if tier == 'thorough':
      from .selftest import selftest
      st = selftest(pid, repo)
      selftest_bad = [r for r in st['results'] if r['status'] in ('MISSED', 'analysis-error')]
      extra = {'seeded_variants': st['seeds'],
               'seeded_reported': sum(1 for r in st['results'] if r['status'] == 'reported'),
               'seeded_skipped': sum(1 for r in st['results'] if r['status'] == 'skipped'),
               'seeded_missed': [r['name'] for r in selftest_bad],
               'seeded_results': st['results']}
  except AnalysisError as e:
    say('ANALYSIS-ERROR property=%s %s' % (pid, e))
    return 2, [], out
  except Exception:  # tool defect: never a violation
    say('ANALYSIS-ERROR property=%s tool traceback:\n%s' % (pid, traceback.format_exc()))
    return 2, [], out

  demoted = unfamiliar_demotion(ctx)
  if demoted:
    for o, words in demoted:
      ctx.obs.remove(o)
      msg = ('%s at %s could not be decided: %s uses %s, which no rule models (absent from the reference tree\'s vocabulary); '
             'the rule read: %s' % (o.rule, o.loc, o.construct, ', '.join('`%s`' % w for w in words), o.what))
      analysis_errors.append(msg)
    if not any(not o.ok for o in ctx.obs):
      say('ANALYSIS-ERROR property=%s %s' % (pid, '; '.join(analysis_errors)))
      return 2, [], out
    for o, words in demoted:
      ctx.note('not decided (unfamiliar vocabulary %s): %s %s' % (words, o.rule, o.construct))
  demoted_i = interface_demotion(ctx)
  if demoted_i:
    for o, why in demoted_i:
      ctx.obs.remove(o)
      analysis_errors.append('%s at %s could not be decided: the interface of %s changed with respect to the reference tree, so its callers follow '
                             'a protocol no rule models; the rule read: %s' % (o.rule, o.loc, '; '.join('%s (%s)' % w for w in why), o.what))
    if not any(not o.ok for o in ctx.obs):
      say('ANALYSIS-ERROR property=%s %s' % (pid, '; '.join(analysis_errors)))
      return 2, [], out
    for o, why in demoted_i:
      ctx.note('not decided (helper interface changed %s): %s %s' % (why, o.rule, o.construct))
  known = load_known()
  violations = []
  matched = []
  for o in ctx.obs:
    if o.ok:
      continue
    k = match_known(pid, o, known)
    if k is not None and k.get('status', 'known') == 'known':
      matched.append((o, k))
    else:
      violations.append(o)

  edir = evidence_dir or EVIDENCE_DIR
  vdir = os.path.join(edir, 'violations')
  for o, k in matched:
    say('KNOWN-FINDING: property=%s %s %s %s -- %s' %
        (pid, o.rule, o.construct, ('[' + o.instance + ']') if o.instance else '', k.get('what', o.what)))
  for i, o in enumerate(violations):
    path = os.path.join(vdir, '%s_%d.json' % (pid, i))
    if write:
      os.makedirs(vdir, exist_ok=True)
      with open(path, 'w') as f:
        json.dump(dict(property=pid, **o.as_dict()), f, indent=1)
    say('VIOLATION property=%s replay=%s' % (pid, path))
    say('  rule=%s construct=%s %s' % (o.rule, o.construct, ('instance=' + o.instance) if o.instance else ''))
    say('  at %s: %s' % (o.loc, o.what))
    if o.path:
      for step in o.path:
        say('    | ' + step)

  n_ob = len(ctx.obs)
  n_ok = sum(1 for o in ctx.obs if o.ok)
  sites = sum(o.sites for o in ctx.obs)
  distinct = len({o.key() for o in ctx.obs if o.sites > 0})
  rules = sorted({o.rule for o in ctx.obs})
  if not quiet:
    say('%s: %d obligations over %d rules, %d hold, %d known finding(s), %d violation(s); %d sites examined; %.2fs'
        % (pid, n_ob, len(rules), n_ok, len(matched), len(violations), sites, time.time() - t0))
  if write:
    os.makedirs(edir, exist_ok=True)
    mods = sorted(ctx.modules_used) or ['config']
    ev = {
        'property_id': pid,
        'tier': tier,
        'seed': int(seed),
        'level': 'other',
        'coverage': {
            'explanation': ('Static analysis of /repo/gin (Python ast, nothing executed): %d rule instances '
                            'of %d repository-specific rules (%s) evaluated over the resolved program; '
                            'each decides a structural necessary condition of the property, not the '
                            'behaviour as a whole. See samples for every obligation with its location and verdict.'
                            % (n_ob, len(rules), ', '.join(rules))),
            'obligations': n_ob,
            'discharged': n_ok,
            'evaluations': sites,
            'distinct_nontrivial': distinct,
            'rule': 'one evaluation = one CFG path, call site, store-access site or guard examined by a rule instance; '
                    'distinct_nontrivial = distinct (rule, construct, instance) obligations that examined at least one site',
            'samples': [o.as_dict() for o in ctx.obs],
            'exhaustive': True,
            'files_analysed': ctx.ix.files_digest(sorted(ctx.ix.modules)),
            'functions_indexed': sum(1 for _ in ctx.ix.all_funcs()),
            'call_edges_resolved': sum(1 for l in ctx.prog.calls.values() for _, q in l if q),
            'call_sites_unresolved_or_external': sum(1 for l in ctx.prog.calls.values() for _, q in l if not q),
            'no_return_functions': sorted(ctx.prog.noreturn),
            'known_findings_matched': [dict(rule=o.rule, construct=o.construct, instance=o.instance) for o, _ in matched],
            'notes': ctx.notes,
            'checker_cmd': './check %s --tier %s' % (pid, tier),
            'trusted_base': ctx.assumptions,
        },
        'assumptions': ctx.assumptions + ['Python ast of /venv/bin/python parses exactly what the interpreter executes'],
        'wall_s': round(time.time() - t0, 3),
        'violations': len(violations),
    }
    ev['coverage'].update(extra)
    if extra.get('seeded_variants'):
      ev['coverage']['evaluations'] = sites + extra['seeded_variants']
    with open(os.path.join(edir, pid + '.json'), 'w') as f:
      json.dump(ev, f, indent=1, default=str)
  if not quiet and extra.get('seeded_variants') is not None:
    say('%s: self-test: %d seeded variants, %d reported, %d skipped, %d missed' % (
        pid, extra['seeded_variants'], extra['seeded_reported'], extra['seeded_skipped'], len(selftest_bad)))
  if violations:
    return 1, ctx.obs, out
  if selftest_bad:
    for r in selftest_bad:
      say('ANALYSIS-ERROR property=%s self-test: seeded variant `%s` applied but rule %s did not report it (%s)'
          % (pid, r['name'], r.get('rule'), r.get('detail')))
    return 2, ctx.obs, out
  return 0, ctx.obs, out


def main(argv=None):
  ap = argparse.ArgumentParser(prog='check')
  ap.add_argument('property')
  ap.add_argument('--tier', default=os.environ.get('VERIF_TIER', 'quick'),
                  choices=['quick', 'thorough'])
  ap.add_argument('--repo', default=None)
  ap.add_argument('--replay', default=None)
  ap.add_argument('--no-write', action='store_true')
  a = ap.parse_args(argv)
  seed = int(os.environ.get('VERIF_SEED', '0') or 0)
  pid = a.property.upper()
  if a.replay:
    with open(a.replay) as f:
      want = json.load(f)
    code, obs, _ = run_property(pid, 'quick', seed, a.repo, write=False, quiet=True)
    for o in obs:
      if o.rule == want.get('rule') and o.construct == want.get('construct') \
          and o.instance == want.get('instance', ''):
        print(json.dumps(o.as_dict(), indent=1))
        return 0 if o.ok else 1
    print('obligation %s %s no longer produced' % (want.get('rule'), want.get('construct')))
    return 2
  code, _, _ = run_property(pid, a.tier, seed, a.repo, write=not a.no_write)
  return code


if __name__ == '__main__':
  try:
    rc = main()
  except SystemExit:
    raise
  except BaseException:     # a defect of the tool is never a violation
    print('ANALYSIS-ERROR tool traceback:\n%s' % traceback.format_exc(), flush=True)
    rc = 2
  sys.exit(rc)
