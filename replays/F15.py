from _common import *
with config.interactive_mode():
  gin.constant('x.PI', 3.14); gin.constant('PI', 3.0)
config._IMPORTS.add('sentinel')
try:
  gin.clear_config()
  done(bool(config._IMPORTS), "clear_config() succeeded")
except ValueError as e:
  done(True, "clear_config() raises half-way (%s); imports left uncleared: %s" % (str(e)[:50], bool(config._IMPORTS)))
