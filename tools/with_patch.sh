#!/bin/bash
# with_patch.sh <seed-or-refactor id> <check ids...>  : apply the kept patch to a scratch worktree of /repo (never to /repo), run the checks there (--no-write)
id=$1; shift
p=/verif/seeded/$id/patch.diff; [ -f $p ] || p=/verif/refactors/$id/patch.diff
wt=$(mktemp -d -u /tmp/ginsa_wp_XXXXXX)
git -C /repo worktree add -q --detach "$wt" HEAD || exit 3
trap 'git -C /repo worktree remove --force "$wt"; rm -rf "$wt"; git -C /repo worktree prune' EXIT
git -C "$wt" apply $p || exit 3
for c in "$@"; do /verif/check $c --no-write --repo "$wt" 2>&1 | grep -v "^WARNING" | grep -A1 "rule=\|VIOLATION\|ANALYSIS-ERROR\|obligations over" ; done
