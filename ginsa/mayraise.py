"""Operator-dispatch may-raise model (DESIGN.md E8, trusted fact T13).

Answers one question: can evaluating this statement raise because it applies a
dispatching operator (truthiness, ==, in, attribute access, call, subscript,
iteration, arithmetic, formatting) to a value derived from a *parameter* whose
type has not been fixed by an `isinstance` test that holds on every path to
it?  `isinstance`, `is`/`is not`, plain assignment and literals never raise.
Deliberately small: it is not a general exception analysis.
"""
import ast

from .core import FuncNode, u, walk_local

_SAFE_BUILTINS = {'isinstance', 'type', 'id', 'callable', 'issubclass'}
_FIXING_TYPES = {'str', 'list', 'tuple', 'dict', 'int', 'float', 'bool',
                 'bytes', 'set', 'frozenset'}


def derived_names(fnode, seeds):
  """Flow-insensitive closure: names assigned from expressions mentioning a
  derived name."""
  d = set(seeds)
  changed = True
  while changed:
    changed = False
    for n in walk_local(fnode):
      if isinstance(n, ast.Assign):
        if _mentions(n.value, d):
          for t in n.targets:
            for x in ast.walk(t):
              if isinstance(x, ast.Name) and x.id not in d:
                d.add(x.id)
                changed = True
  return d


def _mentions(e, names):
  return any(isinstance(n, ast.Name) and n.id in names for n in ast.walk(e))


def _fixed_by(test, pol, fixed):
  """Adds to `fixed` the names whose builtin type `test == pol` establishes."""
  if isinstance(test, ast.UnaryOp) and isinstance(test.op, ast.Not):
    _fixed_by(test.operand, not pol, fixed)
  elif isinstance(test, ast.BoolOp):
    if (isinstance(test.op, ast.And) and pol) or (isinstance(test.op, ast.Or) and not pol):
      for v in test.values:
        _fixed_by(v, pol, fixed)
  elif pol and isinstance(test, ast.Call) and u(test.func) == 'isinstance' \
      and len(test.args) == 2 and isinstance(test.args[0], ast.Name):
    t = test.args[1]
    ts = t.elts if isinstance(t, ast.Tuple) else [t]
    if all(isinstance(x, ast.Name) and x.id in _FIXING_TYPES for x in ts):
      fixed.add(test.args[0].id)


class MayRaise:

  def __init__(self, prog, f, tainted_params=None):
    self.prog = prog
    self.f = f
    params = set(tainted_params if tainted_params is not None else f.params)
    params -= {'self', 'cls'}
    self.derived = derived_names(f.node, params)
    self.reasons = {}

  def fixed_from_facts(self, facts):
    fixed = set()
    for fct in facts or ():
      if fct[0] == 'c' and fct[2] is True:
        try:
          t = ast.parse(fct[1], mode='eval').body
        except SyntaxError:
          continue
        _fixed_by(t, True, fixed)
    return fixed

  def expr(self, e, fixed, truth=False):
    """Returns a reason string if evaluating `e` may raise, else None.
    `truth`: the value of e is additionally tested for truthiness."""
    d = self.derived

    def risky_val(x):
      return isinstance(x, ast.Name) and x.id in d and x.id not in fixed

    def rec(x, truth=False, fixed=fixed):
      if isinstance(x, ast.BoolOp):
        fx = set(fixed)
        for v in x.values[:-1]:
          r = rec(v, True, fx)
          if r:
            return r
          _fixed_by(v, isinstance(x.op, ast.And), fx)
        return rec(x.values[-1], truth, fx)
      if isinstance(x, ast.UnaryOp):
        if isinstance(x.op, ast.Not):
          return rec(x.operand, True, fixed)
        if risky_val(x.operand):
          return 'arithmetic on %s' % u(x.operand)
        return rec(x.operand, False, fixed)
      if isinstance(x, ast.IfExp):
        return rec(x.test, True, fixed) or rec(x.body, truth, fixed) or rec(x.orelse, truth, fixed)
      if isinstance(x, ast.Name):
        if truth and risky_val(x):
          return 'truthiness of %s (type not fixed by isinstance)' % x.id
        return None
      if isinstance(x, ast.Constant):
        return None
      if isinstance(x, ast.Compare):
        operands = [x.left] + list(x.comparators)
        for op, (a, b) in zip(x.ops, zip(operands, operands[1:])):
          if isinstance(op, (ast.Is, ast.IsNot)):
            continue
          sides = [a, b]
          if isinstance(op, (ast.In, ast.NotIn)) and isinstance(b, (ast.Tuple, ast.List, ast.Set)):
            sides = [a] + list(b.elts)
          if any(risky_val(s) for s in sides):
            return "comparison '%s' dispatches to the operand's class" % u(x)
        for o in operands:
          r = rec(o, False, fixed)
          if r:
            return r
        return None
      if isinstance(x, ast.Attribute):
        if risky_val(x.value):
          return 'attribute access %s' % u(x)
        return rec(x.value, False, fixed)
      if isinstance(x, ast.Subscript):
        if risky_val(x.value):
          return 'subscript %s' % u(x)
        return rec(x.value, False, fixed) or rec(x.slice, False, fixed)
      if isinstance(x, ast.BinOp):
        if risky_val(x.left) or risky_val(x.right):
          return 'arithmetic %s' % u(x)
        return rec(x.left, False, fixed) or rec(x.right, False, fixed)
      if isinstance(x, ast.JoinedStr):
        for v in x.values:
          if isinstance(v, ast.FormattedValue) and risky_val(v.value):
            return 'formatting %s' % u(v.value)
        return None
      if isinstance(x, ast.Call):
        fn = u(x.func)
        if isinstance(x.func, ast.Name) and fn in _SAFE_BUILTINS:
          return None
        if risky_val(x.func):
          return 'call of %s' % fn
        r = rec(x.func, False, fixed)
        if r:
          return r
        args = list(x.args) + [k.value for k in x.keywords]
        for a in args:
          r = rec(a, False, fixed)
          if r:
            return r
        risky_args = [a for a in args if risky_val(a)]
        if risky_args:
          q = self.prog.resolve_call(self.f, x)
          if q is None:
            # container methods that only store their argument
            if isinstance(x.func, ast.Attribute) and x.func.attr in ('append', 'add'):
              return None
            return 'call %s(...) receives %s' % (fn, u(risky_args[0]))
          callee = self.prog.ix.get(q)
          return self._callee(callee, x, risky_args)
        return None
      if isinstance(x, (ast.Tuple, ast.List, ast.Set)):
        for e2 in x.elts:
          r = rec(e2, False, fixed)
          if r:
            return r
        return None
      if isinstance(x, ast.Dict):
        for e2 in list(x.keys) + list(x.values):
          if e2 is not None:
            if risky_val(e2) and e2 in x.keys:
              return 'hashing %s' % u(e2)
            r = rec(e2, False, fixed)
            if r:
              return r
        return None
      if isinstance(x, (ast.Yield, ast.Await)):
        return rec(x.value, False, fixed) if x.value is not None else None
      if isinstance(x, ast.Starred):
        if risky_val(x.value):
          return 'iteration of %s' % u(x.value)
        return rec(x.value, False, fixed)
      if isinstance(x, (ast.ListComp, ast.SetComp, ast.GeneratorExp, ast.DictComp)):
        for gen in x.generators:
          if risky_val(gen.iter):
            return 'iteration of %s' % u(gen.iter)
        return None
      if isinstance(x, ast.Lambda):
        return None
      return None

    return rec(e, truth, fixed)

  _depth = 0

  def _callee(self, callee, call, risky_args):
    from .core import Func
    if not isinstance(callee, Func) or MayRaise._depth > 3:
      return None if isinstance(callee, Func) else None
    # map risky args to callee params
    params = [p for p in callee.params]
    if callee.cls is not None and params and params[0] in ('self', 'cls'):
      params = params[1:]
    tainted = set()
    for i, a in enumerate(call.args):
      if a in risky_args and i < len(params):
        tainted.add(params[i])
    for k in call.keywords:
      if k.value in risky_args and k.arg:
        tainted.add(k.arg)
    if not tainted:
      return None
    MayRaise._depth += 1
    try:
      sub = MayRaise(self.prog, callee, tainted)
      for n in walk_local(callee.node):
        if isinstance(n, ast.stmt):
          r = sub.stmt(n, set())
          if r:
            return 'via %s: %s' % (callee.qual, r)
    finally:
      MayRaise._depth -= 1
    return None

  def stmt(self, st, fixed):
    """Reason why executing this statement's own expression(s) may raise."""
    if isinstance(st, (ast.If, ast.While)):
      return self.expr(st.test, fixed, truth=True)
    if isinstance(st, ast.For):
      if isinstance(st.iter, ast.Name) and st.iter.id in self.derived and st.iter.id not in fixed:
        return 'iteration of %s' % st.iter.id
      return self.expr(st.iter, fixed)
    if isinstance(st, ast.Assign):
      return self.expr(st.value, fixed)
    if isinstance(st, ast.AugAssign):
      return self.expr(ast.BinOp(left=st.target, op=st.op, right=st.value), fixed)
    if isinstance(st, ast.Expr):
      return self.expr(st.value, fixed)
    if isinstance(st, ast.Return) and st.value is not None:
      return self.expr(st.value, fixed)
    if isinstance(st, ast.Assert):
      return self.expr(st.test, fixed, truth=True)
    if isinstance(st, ast.With):
      for it in st.items:
        r = self.expr(it.context_expr, fixed)
        if r:
          return r
    if isinstance(st, ast.expr):
      return self.expr(st, fixed, truth=True)
    return None
