from _common import *
@gin.configurable
def g(): return 7
@gin.configurable
def f(x=None): return x
try:
  gin.parse_config("f.x = -@g()")
  done(True, "`f.x = -@g()` accepted; f() == %r (minus silently dropped)" % (f(),))
except SyntaxError as e:
  done(False, "`-@g()` rejected with SyntaxError")
