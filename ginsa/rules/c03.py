"""C03 Statements are recovered exactly, whatever the layout of the config text."""
import ast

from ..cfg import witness
from ..core import AnalysisError, u, walk_local, enclosing_stmt
from ..lib import (construct, std_facts, def_of, facts_imply, calls_of_node,
                   in_subtree, returns_of)
from .c02 import eos, consuming_methods, CP, alternatives, indirect_callees
from .common import instance_state

KINDS = ['BindingStatement', 'BlockDeclaration', 'ImportStatement', 'IncludeStatement']


def run(ctx):
  prog = ctx.prog
  ctx.assume('T12')
  # ---- C03.selector-guard
  f = ctx.func(CP + '._parse_selector')
  con = construct(f)
  g, facts = std_facts(prog, f)
  rets = [n for n in g.live_nodes() if n.kind == 'return' and n.ast.value is not None]
  ctx.expect_at_least('returns of _parse_selector', len(rets), 1)
  flag = None
  for n in walk_local(f.node):
    if isinstance(n, ast.AugAssign) and isinstance(n.target, ast.Name):
      flag = n.target.id
  joined = raw = None
  for n in walk_local(f.node):
    if isinstance(n, ast.Assign) and isinstance(n.value, ast.Call) and u(n.value.func) == "''.join":
      joined = u(n.targets[0])
    if isinstance(n, ast.Assign) and isinstance(n.value, ast.Subscript) and isinstance(n.value.slice, ast.Slice) and u(n.value.value) == 'line':
      raw = u(n.targets[0])

  def atom(e):
    t = u(e)
    if flag and t == flag:
      return 'valid'
    if isinstance(e, ast.Compare) and len(e.ops) == 1 and isinstance(e.ops[0], ast.Eq) and {u(e.left), u(e.comparators[0])} == {raw, joined}:
      return 'raw_eq'
    return None
  for n in rets:
    miss = facts_imply(facts[n.id], [('inner whitespace rejected (raw text == joined tokens)', 'raw_eq'),
                                     ('format flag holds', 'valid')], atom)
    ctx.check(not miss, 'C03.selector-guard', con,
              'the selector is returned only if the raw text between its first and last token equals the joined tokens and the format flag holds',
              'the scoped-name scanner returns although %s is not enforced: names with internal whitespace / malformed components are '
              'silently repaired instead of rejected' % ', '.join(l for l, _ in miss), f.loc(n.ast), instance='return-guard')
  # the raw text really is the slice from the first to the last consumed token
  okraw = False
  for n in walk_local(f.node):
    if isinstance(n, ast.Assign) and u(n.targets[0]) == raw:
      sl = n.value.slice
      okraw = u(sl.lower) == 'begin_char_num' and u(sl.upper) == 'end_char_num'
  ctx.check(okraw and joined, 'C03.selector-guard', con, 'raw text = line[first token start : last token end]', 'the raw-text slice changed', f.loc(), instance='raw-slice')
  # flag components
  comps = []
  for n in walk_local(f.node):
    if isinstance(n, ast.Assign) and flag and u(n.targets[0]) == flag:
      comps.append(('=', n.value))
    elif isinstance(n, ast.AugAssign) and flag and u(n.target) == flag:
      comps.append((type(n.op).__name__, n.value))
  texts = [u(v).replace(' ', '') for _, v in comps]
  need = {
      'every scope component matches the scope regex': lambda t: 'scope_re.match(' in t and 'scope_parts[:-1]' in t and t.startswith('all('),
      'the last component matches the selector regex': lambda t: 'selector_re.match(scope_parts[-1])' in t,
      'scopes only where allowed': lambda t: 'scoped' in t and 'len(scope_parts)==1' in t,
  }
  for label, pred in need.items():
    ctx.check(any(pred(t) for t in texts), 'C03.selector-guard', con, label, 'the format flag no longer requires: %s' % label, f.loc(), instance=label)
  ctx.check(all(op in ('=', 'BitAnd') for op, _ in comps) and comps, 'C03.selector-guard', con, 'the flag components are conjoined (&=)',
            'the format flag is combined with %s' % [op for op, _ in comps], f.loc(), instance='conjunction')
  res = {}
  for n in walk_local(f.node):
    if isinstance(n, ast.Assign) and u(n.targets[0]) in ('scope_re', 'selector_re'):
      res.setdefault(u(n.targets[0]), []).append(u(n.value))
  ctx.check(res.get('selector_re') == ['MODULE_RE'] and 'IDENTIFIER_RE' in res.get('scope_re', []), 'C03.selector-guard', con,
            'scope components are identifiers (dotted only for references), the selector is a dotted name',
            'component regexes changed: %s' % res, f.loc(), instance='regexes')

  # ---- C03.kinds
  produced = set()
  c = ctx.cls(CP)
  for name, m in c.methods.items():
    for call in walk_local(m.node):
      if isinstance(call, ast.Call):
        q = prog.resolve_call(m, call)
        if q and q.split('.')[-1] in KINDS and q.startswith('config_parser.'):
          produced.add(q.split('.')[-1])
  pc = ctx.func('config.parse_config')
  consumed = set()
  loop = [n for n in walk_local(pc.node) if isinstance(n, ast.For)]
  chain_else_raises = False
  for n in walk_local(pc.node):
    if isinstance(n, ast.Call) and u(n.func) == 'isinstance' and len(n.args) == 2 and u(n.args[1]).startswith('config_parser.'):
      consumed.add(u(n.args[1]).split('.')[-1])
  g_pc, f_pc = std_facts(prog, pc)
  for n in g_pc.live_nodes():
    if n.kind == 'raise_stmt' and n.loops:
      neg = {fct[1] for fct in f_pc[n.id] if fct[0] == 'c' and fct[2] is False and fct[1].startswith('isinstance(statement, config_parser.')}
      if len(neg) >= len(KINDS):
        chain_else_raises = True
  ctx.check(produced == consumed and produced == set(KINDS), 'C03.kinds', construct(pc),
            'the statement kinds the parser produces are exactly those the consumer dispatches on: %s' % sorted(produced),
            'parser produces %s, consumer handles %s' % (sorted(produced), sorted(consumed)), pc.loc(), instance='agree')
  ctx.check(chain_else_raises, 'C03.kinds', construct(pc), 'an unrecognised statement kind raises', 'the dispatch chain no longer ends in a raising else', pc.loc(), instance='else-raises')
  # BindingStatement built from the parsed key
  ps = ctx.func(CP + '.parse_statement')
  okb = False
  for n in walk_local(ps.node):
    if isinstance(n, ast.Assign) and isinstance(n.value, ast.Call) and u(n.value.func) == 'BindingStatement':
      okb = [u(a) for a in n.value.args[:4]] == ['scope', 'selector', 'arg_name', 'value']
  unpack = any(isinstance(n, ast.Assign) and isinstance(n.targets[0], ast.Tuple) and [u(e) for e in n.targets[0].elts] == ['scope', 'selector', 'arg_name']
               and isinstance(n.value, ast.Call) and u(n.value.func) == 'parse_binding_key' for n in walk_local(ps.node))
  ctx.check(okb and unpack, 'C03.kinds', construct(ps), 'a binding statement carries (scope, selector, parameter, value) from the key splitter in that order',
            'BindingStatement fields are no longer (scope, selector, arg_name, value) from parse_binding_key', ps.loc(), instance='binding-fields')

  # keyword statements are recognised only when the name is followed by neither '=' nor ':' (so `include = 1` / `from: ...` stay bindings)
  g_ps, f_ps = std_facts(prog, ps)
  kw_nodes = [n for n in g_ps.live_nodes() if any(prog.resolve_call(ps, cc) == CP + '._parse_import' for cc in calls_of_node(n)) or
              (n.kind == 'stmt' and isinstance(n.ast, ast.Assign) and isinstance(n.ast.value, ast.Call) and u(n.ast.value.func) == 'IncludeStatement')]
  okd = bool(kw_nodes)
  for n in kw_nodes:
    fs = f_ps[n.id]
    okd = okd and ('c', "self._current_token.string == '='", False) in fs and ('c', "self._current_token.string == ':'", False) in fs
  ctx.check(okd, 'C03.kinds', construct(ps), "`import` / `from` / `include` are keywords only when not followed by '=' or ':'",
            "a statement whose name is import / from / include is treated as a keyword statement even when it is followed by '=' or ':': "
            "the macro definition `include = 'x'` (or a block named so) is no longer read as a binding", ps.loc(), instance='dispatch-order')

  # ---- C03.queue
  init = c.methods.get('__init__')
  qinit = [n for n in walk_local(init.node) if isinstance(n, ast.Assign) and u(n.targets[0]) == 'self._statements_queue']
  okq = len(qinit) == 1 and u(qinit[0].value) == 'collections.deque()'
  g, facts = std_facts(prog, ps)
  cons, _ = consuming_methods(ctx)
  drains = [n for n in g.live_nodes() if n.kind == 'return' and n.ast.value is not None and 'self._statements_queue.' in u(n.ast.value)]
  okd = bool(drains) and all(u(n.ast.value) == 'self._statements_queue.popleft()' for n in drains)
  cnodes = [n for n in g.live_nodes() if any(prog.resolve_call(ps, cc) in cons for cc in calls_of_node(n))]
  qtest = [n for n in g.live_nodes() if n.kind == 'test' and u(n.ast) == 'self._statements_queue']
  okfirst = bool(qtest) and all(witness(g, g.entry.id, [cn.id], avoid=[qtest[0].id]) is None for cn in cnodes)
  fills = [cc for n in g.live_nodes() for cc in calls_of_node(n) if u(cc.func).startswith('self._statements_queue.')
           and cc.func.attr not in ('popleft',)]
  okf = bool(fills) and all(cc.func.attr == 'extend' for cc in fills)
  ctx.check(okq and okd and okf, 'C03.queue', construct(ps), 'block members are queued with extend and drained with popleft (FIFO: source order)',
            'the block queue is %s / drained by %s / filled by %s: block members would not be yielded in source order'
            % ([u(x.value) for x in qinit], [u(n.ast.value) for n in drains], [u(x.func) for x in fills]), ps.loc(), instance='fifo')
  ctx.check(okfirst, 'C03.queue', construct(ps), 'queued members are yielded before any further token is read',
            'tokens can be consumed while queued block members are pending', ps.loc(), instance='drain-first')
  bb = ctx.func(CP + '._parse_binding_block')
  apps = [cc for cc in walk_local(bb.node) if isinstance(cc, ast.Call) and isinstance(cc.func, ast.Attribute) and cc.func.attr in ('append', 'insert', 'appendleft')]
  ctx.check(bool(apps) and all(cc.func.attr == 'append' for cc in apps), 'C03.queue', construct(bb), 'members are collected in source order (append)',
            'block members are collected with %s' % [cc.func.attr for cc in apps], bb.loc(), instance='collect-order')
  hdr = [n for n in walk_local(ps.node) if isinstance(n, ast.Assign) and isinstance(n.targets[0], ast.Tuple) and isinstance(n.value, ast.Call)
         and prog.resolve_call(ps, n.value) == bb.qual]
  ctx.check(bool(hdr), 'C03.queue', construct(ps), 'the block header is returned as the statement, its members follow from the queue',
            'parse_statement no longer returns the block header first', ps.loc(), instance='header-first')

  # ---- C03.split
  pk = ctx.func('config_parser.parse_binding_key')
  sp = ctx.func('config_parser.parse_scoped_selector')
  def rsplits(fn):
    return [(u(cc.args[0]), u(cc.args[1]) if len(cc.args) > 1 else next((u(k.value) for k in cc.keywords if k.arg == 'maxsplit'), None), cc.func.attr)
            for cc in walk_local(fn.node) if isinstance(cc, ast.Call) and isinstance(cc.func, ast.Attribute) and cc.func.attr in ('split', 'rsplit')]
  ctx.check(rsplits(pk) == [("'.'", '1', 'rsplit')], 'C03.split', construct(pk), "the parameter is split off at the last '.'",
            'binding keys are split with %s: `a/b/c.d.e` no longer means configurable c.d, parameter e' % rsplits(pk), pk.loc(), instance='last-dot')
  ctx.check(rsplits(sp) == [("'/'", '1', 'rsplit')], 'C03.split', construct(sp), "the scope is split off at the last '/'",
            'scoped selectors are split with %s: `a/b/c` no longer means scope a/b' % rsplits(sp), sp.loc(), instance='last-slash')
  okparts = any(isinstance(n, ast.Assign) and u(n.value) == "''.join(scope_selector_list[:-1])" for n in walk_local(sp.node)) and \
      any(isinstance(n, ast.Assign) and u(n.value) == 'scope_selector_list[-1]' for n in walk_local(sp.node))
  ctx.check(okparts, 'C03.split', construct(sp), 'scope = everything before the last slash, selector = the rest', 'scope/selector parts changed', sp.loc(), instance='parts')

  eos(ctx, 'C03.eos')
  normal_form(ctx)
  # membership of a token text in a *string* constant is a substring test: '' (the text of a synthesised NEWLINE/ENDMARKER token) is in every string
  n_in = 0
  for m in ctx.cls(CP).methods.values():
    for cmpn in walk_local(m.node):
      if isinstance(cmpn, ast.Compare) and len(cmpn.ops) == 1 and isinstance(cmpn.ops[0], (ast.In, ast.NotIn)) and 'string' in u(cmpn.left):
        n_in += 1
        r = cmpn.comparators[0]
        bad = isinstance(r, ast.Constant) and isinstance(r.value, str) and len(r.value) > 1 and not (m.name == '_advance_one_token')
        ctx.check(not bad, 'C03.selector-guard', construct(m), 'token text `%s` is tested against a tuple/list of alternatives' % u(cmpn)[:60],
                  'token text is tested with `%s`, a *substring* test on a string constant: the empty text of the NEWLINE/ENDMARKER token the tokenizer '
                  'synthesises at the end of a text without trailing newline also matches, so the scanner swallows the statement terminator' % u(cmpn),
                  m.loc(cmpn), instance='membership:' + u(cmpn)[:50])
  ctx.expect_at_least('token-text membership tests in the parser', n_in, 2)
  instance_state(ctx, 'C03.queue', CP, {'_token_generator', '_filename', '_current_token', '_delegate', '_within_block', '_statements_queue'},
                 'parser state beyond the token cursor, the block flag and the statement queue changes how a layout is read')


def normal_form(ctx):
  """AGREE: every value alternative that succeeds leaves the cursor in the
  same normal form -- after any trailing comments / line breaks -- so that a
  comment or a line break after a value (flat, in a block or inside a
  bracket) is skipped whatever kind of value precedes it."""
  prog = ctx.prog
  cons, _ = consuming_methods(ctx)
  c = ctx.cls(CP)
  skip = CP + '._skip_whitespace_and_comments'
  if skip not in cons:
    raise AnalysisError('_skip_whitespace_and_comments no longer moves the cursor')
  enders = {skip}

  def callees_of(m, cc):
    return indirect_callees(prog, m, cc)

  def last_consumers(m):
    """For each accepting exit of m: the consuming nodes that can be the last one before it."""
    g = prog.cfg(m)
    cids = {n.id: n for n in g.live_nodes() if any(q in cons for cc in calls_of_node(n) for q in callees_of(m, cc))}
    out = []
    exits = [g.nodes[a] for a, _ in g.pred[g.exit.id]]
    for r in exits:
      v = r.ast.value if r.kind == 'return' else None
      if isinstance(v, ast.Tuple) and v.elts and isinstance(v.elts[0], ast.Constant) and v.elts[0].value is False:
        continue   # a decline consumed nothing (C02.backtrack)
      if r.id in cids:
        out.append((r, [r]))
        continue
      lasts = []
      seen = set()
      stack = [a for a, _ in g.pred[r.id]]
      while stack:
        x = stack.pop()
        if x in seen:
          continue
        seen.add(x)
        if x in cids:
          lasts.append(cids[x])
          continue
        stack.extend(a for a, _ in g.pred[x])
      out.append((r, lasts))
    return g, out

  def ends_skipping(m, node):
    calls = [cc for cc in calls_of_node(node) if any(q in cons for q in callees_of(m, cc))]
    calls.sort(key=lambda cc: (cc.end_lineno, cc.end_col_offset))
    return bool(calls) and all(q in enders for q in callees_of(m, calls[-1]))

  changed = True
  while changed:
    changed = False
    for name, m in c.methods.items():
      if m.qual in enders or m.qual not in cons or m.is_generator():
        continue
      g, rl = last_consumers(m)
      if rl and all(lasts and all(ends_skipping(m, n) for n in lasts) for _, lasts in rl):
        enders.add(m.qual)
        changed = True
  # before every `_expect(NEWLINE)` the last cursor movement skipped trailing comments
  def skips_comments(m, node):
    for cc in calls_of_node(node):
      q = indirect_callees(prog, m, cc)
      if any(x in enders for x in q):
        return True
      if prog.resolve_call(m, cc) == CP + '._skip' and cc.args and 'COMMENT' in u(cc.args[0]):
        return True
    return False
  for name, m in c.methods.items():
    g = prog.cfg(m)
    cids = {n.id: n for n in g.live_nodes() if any(q in cons for cc in calls_of_node(n) for q in indirect_callees(prog, m, cc))}
    for n in g.live_nodes():
      exp = [cc for cc in calls_of_node(n) if prog.resolve_call(m, cc) == CP + '._expect' and cc.args and u(cc.args[0]) == 'tokenize.NEWLINE']
      if not exp:
        continue
      lasts, seen, stack = [], set(), [a for a, _ in g.pred[n.id]]
      while stack:
        x = stack.pop()
        if x in seen:
          continue
        seen.add(x)
        if x in cids:
          lasts.append(cids[x])
          continue
        stack.extend(a for a, _ in g.pred[x])
      bad = [x for x in lasts if not skips_comments(m, x)]
      ctx.check(not bad, 'C03.normal-form', construct(m),
                'the NEWLINE expected at line %d is preceded, on every path, by a step that skips a trailing comment' % n.lineno,
                'NEWLINE is expected at line %d right after `%s` (line %d), which does not skip a trailing comment: a comment at the end of that line '
                '(after a block header `scope/name:` or after a block member) is a syntax error, although the same statements without it parse'
                % (n.lineno, bad[0].text() if bad else '', bad[0].lineno if bad else 0), m.loc(n.ast), instance='before-newline@%s:%d' % (name, len(lasts)))
  pv, alts = alternatives(ctx)
  for name in alts + ['parse_value']:
    m = ctx.func('%s.%s' % (CP, name))
    if m.qual in enders:
      ctx.hold('C03.normal-form', construct(m), 'every successful path ends by skipping trailing comments / line breaks', m.loc(), instance='trailing-skip')
      continue
    g, rl = last_consumers(m)
    bad = [(r, n) for r, lasts in rl for n in lasts if not ends_skipping(m, n)] or [(r, None) for r, lasts in rl if not lasts]
    r, n = bad[0] if bad else (None, None)
    ctx.fail('C03.normal-form', construct(m),
             'a successful path ends with `%s` (line %s), which does not skip trailing comments / line breaks like its sibling alternatives: '
             'a comment or line break after this kind of value (e.g. `@name()  # note`, or before `,` / `]` in a multi-line container) is a syntax error, '
             'so two layouts of the same statements no longer give the same configuration' % (n.text() if n else 'no consuming call', n.lineno if n else '?'),
             m.loc(n.ast) if n else m.loc(), instance='trailing-skip')
