from ._h import S
C = 'config.py'
P = 'config_parser.py'
U = 'utils.py'
SEEDS = [
  S('context-not-popped-on-error', 'C16.context', C, "  _PARSE_CONTEXTS.append(ParseContext(import_manager))\n  try:\n    yield _parse_context()\n  finally:\n    _PARSE_CONTEXTS.pop()", "  _PARSE_CONTEXTS.append(ParseContext(import_manager))\n  yield _parse_context()\n  _PARSE_CONTEXTS.pop()"),
  S('parser-materialised', 'C16.stream', C, "    for statement in parser:", "    for statement in list(parser):"),
  S('imports-recorded-after-loop', 'C16.no-deferred', C, "    imports.extend(statement.module for statement in parse_context.imports)\n", "    imports.extend(statement.module for statement in parse_context.imports)\n    _IMPORTS.update(parse_context.imports)\n", 'F11 shape'),
  S('imports-never-recorded', 'C16.no-deferred', C, "            _IMPORTS.add(statement)\n", ""),
  S('bind-outside-location-wrapper', 'C16.located', C, "        elif not _should_skip(selector, skip_unknown):\n          with utils.try_with_location(location):\n            bind_parameter((scope, selector, arg_name), value, location)", "        elif not _should_skip(selector, skip_unknown):\n          bind_parameter((scope, selector, arg_name), value, location)"),
  S('include-outside-location-wrapper', 'C16.located', C, "        with utils.try_with_location(statement.location):\n          nested_includes = parse_config_file(statement.filename, skip_unknown)\n          includes.append(nested_includes)", "        nested_includes = parse_config_file(statement.filename, skip_unknown)\n        includes.append(nested_includes)"),
  S('location-captured-after-selector', 'C16.located', P, "    stmt_loc = self._current_location(ignore_char_num=True)\n    binding_key_or_keyword = self._parse_selector()", "    binding_key_or_keyword = self._parse_selector()\n    stmt_loc = self._current_location(ignore_char_num=True)"),
  S('reference-location-after-name', 'C16.located', P, "    location = self._current_location()\n    self._advance_one_token()\n    scoped_name = self._parse_selector(allow_periods_in_scope=True)\n\n    evaluate = False", "    self._advance_one_token()\n    scoped_name = self._parse_selector(allow_periods_in_scope=True)\n    location = self._current_location()\n\n    evaluate = False"),
  S('reraise-base-exception-class', 'C16.type', U, "  class ExceptionProxy(type(exception)):", "  class ExceptionProxy(Exception):"),
  S('handler-swallows', 'C16.type', U, "    augment_exception_message_and_reraise(exception, _format_location(location))", "    print(_format_location(location))"),
  S('provenance-only-with-location', 'C16.provenance', C, "  loc_dict[pbk.arg_name] = location", "  if location is not None:\n    loc_dict[pbk.arg_name] = location"),
  S('provenance-not-cleared', 'C16.provenance', C, "  _CONFIG.clear()\n  _CONFIG_PROVENANCE.clear()", "  _CONFIG.clear()"),
  S('parse-unlocks', 'C16.untouched', C, "  with _parse_scope() as parse_context:\n    for statement in parser:", "  _set_config_is_locked(False)\n  with _parse_scope() as parse_context:\n    for statement in parser:"),
]
