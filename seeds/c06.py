from ._h import S
C = 'config.py'
SEEDS = [
  S('macro-emitted-unfiltered', 'C06.always-parses', C, "      if not _is_literally_representable(value):\n        continue  # As for parameters: omit what can't be parsed back.\n", "", 'F3 re-introduced'),
  S('parameters-unfiltered', 'C06.always-parses', C, "          (k, v) for k, v in config.items() if _is_literally_representable(v)\n", "          (k, v) for k, v in config.items()\n"),
  S('parameters-filter-wrong-var', 'C06.always-parses', C, "          (k, v) for k, v in config.items() if _is_literally_representable(v)\n", "          (k, v) for k, v in config.items() if _is_literally_representable(k)\n"),
  S('parameters-unsorted', 'C06.canonical', C, "      for arg, val in sorted(parameters):", "      for arg, val in parameters:"),
  S('sections-unsorted', 'C06.canonical', C, "    sorted_items: List[Tuple[Tuple[str, str], Mapping[str, Any]]] = sorted(\n        configuration_object.items(), key=sort_key)", "    sorted_items: List[Tuple[Tuple[str, str], Mapping[str, Any]]] = list(\n        configuration_object.items())"),
  S('macros-unsorted', 'C06.canonical', C, "    for (name, _), config in sorted(macros.items(), key=sort_key):", "    for (name, _), config in macros.items():"),
  S('imports-unsorted', 'C06.canonical', C, "    return sorted(self.imports, key=lambda s: s.module)", "    return list(self.imports)"),
  S('import-manager-set-order', 'C06.canonical', C, "    for statement in sorted(imports, key=lambda s: (s.module, not s.is_from)):", "    for statement in imports:"),
  S('roundtrip-guard-dropped', 'C06.roundtrip-guard', C, "    if parse_value(literal) == value:\n      return literal", "    parse_value(literal)\n    return literal"),
  S('markdown-strips-lines', 'C06.markdown', C, "      return '    ' + line\n", "      return '    ' + line.strip()\n"),
  S('import-format-alias-keyword', 'C06.import-syntax', 'config_parser.py', "      output += f' as {self.alias}'", "      output += f' alias {self.alias}'"),
]
