from _common import *
@gin.configurable
def f(): raise OSError(2, 'nope')
try: f()
except OSError as e:
  done(e.args != (2, 'nope') or e.errno != 2, "OSError(2,'nope') arrives with args=%r errno=%r" % (e.args, e.errno))
