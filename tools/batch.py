#!/venv/bin/python
"""Runs the quick checks of all (or the given) properties against one tree in ONE process, sharing the parsed and normalised
index: batch.py <repo-dir> [Cnn ...]   ->  one JSON line {pid: {"exit": n, "rules": [...], "err": "..."}} for the checks that do not exit 0.
Used by the recheck tools (a fifth of the time of twenty separate runs); the registered commands are the separate runs."""
import json, sys
sys.path.insert(0, '/verif')
from ginsa.report import run_property
from ginsa.core import Index, AnalysisError
from ginsa.resolve import Program
repo = sys.argv[1]
pids = sys.argv[2:] or ['C%02d' % i for i in range(1, 21)]
out = {}
try:
  ix = Index(repo)
  shared = (ix, Program(ix))
except AnalysisError as e:
  print(json.dumps({p: {'exit': 2, 'rules': [], 'err': str(e)[:200]} for p in pids}))
  sys.exit(0)
for p in pids:
  try:
    code, obs, lines = run_property(p, 'quick', 0, repo, write=False, quiet=True, shared=shared)
  except Exception as e:      # tool defect
    code, obs, lines = 2, [], ['ANALYSIS-ERROR tool traceback: %r' % e]
  if code != 0:
    rules = sorted({l.split('rule=')[1].split()[0] for l in lines if 'rule=' in l})
    err = [l.strip()[:160] for l in lines if 'ANALYSIS-ERROR' in l][:1]
    out[p] = {'exit': code, 'rules': rules, 'err': err[0] if err else ''}
print(json.dumps(out))
