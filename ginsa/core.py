"""Loader and symbol index (DESIGN.md E1).

Parses every *.py under <repo>/gin with the stdlib `ast` module, attaches
parent pointers and indexes functions / classes (including nested ones) under
qualified names such as `config._make_gin_wrapper.gin_wrapper`.
Nothing from the analysed repository is imported or executed.
"""
import ast
import hashlib
import os

REPO = os.environ.get('GINSA_REPO', '/repo')
PKG = 'gin'


class AnalysisError(Exception):
  """The analysis itself cannot proceed (vanished anchor, unknown construct).

  Mapped to exit code 2 by the CLI; never to a VIOLATION.
  """


FuncNode = (ast.FunctionDef, ast.AsyncFunctionDef)


class Func:
  """One function / method / nested function."""

  def __init__(self, module, qual, node, cls=None, outer=None):
    self.module = module          # Module
    self.qual = qual              # 'config.ParseContext.process_import'
    self.node = node              # ast.FunctionDef
    self.cls = cls                # Class or None (immediately enclosing class)
    self.outer = outer            # enclosing Func or None
    self.nested = {}              # name -> Func / Class defined directly inside
    self._locals = None

  @property
  def name(self):
    return self.node.name

  @property
  def file(self):
    return self.module.relpath

  @property
  def params(self):
    a = self.node.args
    names = [x.arg for x in a.posonlyargs + a.args + a.kwonlyargs]
    if a.vararg:
      names.append(a.vararg.arg)
    if a.kwarg:
      names.append(a.kwarg.arg)
    return names

  def decorator_names(self):
    out = []
    for d in self.node.decorator_list:
      t = d.func if isinstance(d, ast.Call) else d
      out.append(ast.unparse(t))
    return out

  def is_generator(self):
    for n in walk_local(self.node):
      if isinstance(n, (ast.Yield, ast.YieldFrom)):
        return True
    return False

  def is_contextmanager(self):
    return any(d.endswith('contextmanager') for d in self.decorator_names())

  def local_names(self):
    """Names bound in this function's own scope (params, assignments, ...)."""
    if self._locals is None:
      names = set(self.params)
      globs = set()
      for n in walk_local(self.node):
        if isinstance(n, (ast.Global, ast.Nonlocal)):
          globs.update(n.names)
        elif isinstance(n, ast.Name) and isinstance(n.ctx, (ast.Store, ast.Del)):
          names.add(n.id)
        elif isinstance(n, FuncNode + (ast.ClassDef,)) and n is not self.node:
          names.add(n.name)
        elif isinstance(n, ast.ExceptHandler) and n.name:
          names.add(n.name)
        elif isinstance(n, (ast.Import, ast.ImportFrom)):
          for al in n.names:
            names.add((al.asname or al.name).split('.')[0])
      self._locals = names - globs
    return self._locals

  def loc(self, node=None):
    node = node or self.node
    return '%s:%d' % (self.file, getattr(node, 'lineno', 0))

  def __repr__(self):
    return '<Func %s>' % self.qual


class Class:

  def __init__(self, module, qual, node, outer=None):
    self.module = module
    self.qual = qual
    self.node = node
    self.outer = outer
    self.methods = {}   # name -> Func
    self.nested = {}

  @property
  def name(self):
    return self.node.name

  def base_names(self):
    return [ast.unparse(b) for b in self.node.bases]

  def class_level_assigns(self):
    """(name, value-node, stmt) for assignments in the class body."""
    out = []
    for st in self.node.body:
      if isinstance(st, ast.Assign):
        for t in st.targets:
          if isinstance(t, ast.Name):
            out.append((t.id, st.value, st))
      elif isinstance(st, ast.AnnAssign) and isinstance(st.target, ast.Name):
        out.append((st.target.id, st.value, st))
    return out

  def __repr__(self):
    return '<Class %s>' % self.qual


def walk_local(fnode):
  """ast.walk that does not descend into nested function / class / lambda
  bodies (their decorators, defaults and the def node itself are yielded)."""
  stack = list(ast.iter_child_nodes(fnode))
  while stack:
    n = stack.pop()
    yield n
    if isinstance(n, FuncNode + (ast.ClassDef,)):
      for d in n.decorator_list:
        stack.append(d)
      if not isinstance(n, ast.ClassDef):
        stack.extend(n.args.defaults)
        stack.extend(x for x in n.args.kw_defaults if x is not None)
      continue
    if isinstance(n, ast.Lambda):
      continue
    stack.extend(ast.iter_child_nodes(n))


def walk_all(node):
  return ast.walk(node)


class Module:

  def __init__(self, name, path, relpath):
    self.name = name        # 'config', 'tf.utils'
    self.path = path
    self.relpath = relpath  # 'gin/config.py'
    with open(path, 'rb') as f:
      raw = f.read()
    self.sha256 = hashlib.sha256(raw).hexdigest()
    self.src = raw.decode('utf8')
    try:
      self.tree = ast.parse(self.src, filename=path)
    except SyntaxError as e:
      raise AnalysisError('cannot parse %s: %s' % (relpath, e))
    self.renamed_locals = 0
    self.normalized = (0, 0)
    self.normalize_error = None
    try:
      self._normal_form(name)
    except Exception as e:     # a rewrite tripped over an unforeseen construct: analyse the source as written
      self.normalize_error = '%s: %s' % (type(e).__name__, e)
      self.tree = ast.parse(self.src, filename=path)
      self.normalized = (0, 0)
      if not os.environ.get('GINSA_NO_CANON'):
        from .canon import canonicalise
        self.renamed_locals = canonicalise(self.tree, name)
    for parent in ast.walk(self.tree):
      for child in ast.iter_child_nodes(parent):
        child.parent = parent
    self.tree.parent = None
    self.funcs = {}     # top-level name -> Func
    self.classes = {}   # top-level name -> Class
    self.imports = {}   # bound name -> ('module', 'gin.config') | ('name', 'gin.config', 'x')
    self.assigns = {}   # top-level name -> list of (stmt, value)


def _normal_form(self, name):
  from .normalize import normalize
  self.normalized = normalize(self.tree, name)
  if not os.environ.get('GINSA_NO_CANON'):
    from .canon import canonicalise
    self.renamed_locals = canonicalise(self.tree, name)
    if not os.environ.get('GINSA_NO_NORMALIZE'):
      from .normalize import post_canon
      t2 = post_canon(self.tree, name)
      self.normalized = (self.normalized[0] + t2[0], self.normalized[1] + t2[1])
      if t2 != (0, 0):
        self.renamed_locals += canonicalise(self.tree, name)


Module._normal_form = _normal_form


class Index:
  """All modules of the package with a qualified-name index."""

  def __init__(self, repo=None):
    self.repo = repo or REPO
    self.modules = {}
    self.by_qual = {}
    root = os.path.join(self.repo, PKG)
    if not os.path.isdir(root):
      raise AnalysisError('package directory %s not found' % root)
    # package-wide facts the per-module normal form needs (new expression-bodied methods used across modules)
    try:
      from .normalize import scan_package_methods
      raw_trees = []
      for dirpath, dirnames, filenames in os.walk(root):
        for fn in sorted(filenames):
          if fn.endswith('.py'):
            try:
              with open(os.path.join(dirpath, fn), 'rb') as fh:
                raw_trees.append(ast.parse(fh.read()))
            except SyntaxError:
              pass
      scan_package_methods(raw_trees)
    except Exception:
      pass
    for dirpath, dirnames, filenames in os.walk(root):
      dirnames.sort()
      for fn in sorted(filenames):
        if not fn.endswith('.py'):
          continue
        path = os.path.join(dirpath, fn)
        rel = os.path.relpath(path, self.repo)
        modname = os.path.relpath(path, root)[:-3].replace(os.sep, '.')
        if modname.endswith('__init__'):
          modname = modname[:-len('.__init__')] if '.' in modname else '__init__'
        m = Module(modname, path, rel)
        self.modules[modname] = m
        self._index_module(m)

  # ---------------------------------------------------------------- indexing
  def _index_module(self, m):
    for st in m.tree.body:
      if isinstance(st, ast.Import):
        for al in st.names:
          bound = al.asname or al.name.split('.')[0]
          m.imports[bound] = ('module', al.name if al.asname else al.name.split('.')[0])
      elif isinstance(st, ast.ImportFrom):
        for al in st.names:
          bound = al.asname or al.name
          m.imports[bound] = ('from', st.module or '', al.name)
      elif isinstance(st, ast.Assign):
        for t in st.targets:
          if isinstance(t, ast.Name):
            m.assigns.setdefault(t.id, []).append((st, st.value))
      elif isinstance(st, ast.AnnAssign) and isinstance(st.target, ast.Name):
        m.assigns.setdefault(st.target.id, []).append((st, st.value))
    self._index_body(m, m.tree.body, m.name, None, None, m.funcs, m.classes)

  def _index_body(self, m, body, prefix, cls, outer, fdict, cdict):
    for st in _defs_in(body):
      if isinstance(st, FuncNode):
        q = prefix + '.' + st.name
        f = Func(m, q, st, cls=cls, outer=outer)
        # Later definitions of the same name (if/else alternatives) keep first.
        fdict.setdefault(st.name, f)
        self.by_qual.setdefault(q, f)
        self._index_body(m, st.body, q, None, f, f.nested, f.nested)
      elif isinstance(st, ast.ClassDef):
        q = prefix + '.' + st.name
        c = Class(m, q, st, outer=outer)
        cdict.setdefault(st.name, c)
        self.by_qual.setdefault(q, c)
        self._index_body(m, st.body, q, c, outer, c.methods, c.nested)

  # ------------------------------------------------------------------ lookup
  def get(self, qual):
    return self.by_qual.get(qual)

  def func(self, qual):
    f = self.by_qual.get(qual)
    if not isinstance(f, Func):
      raise AnalysisError('anchor function %s not found in %s/%s' %
                          (qual, self.repo, PKG))
    return f

  def cls(self, qual):
    c = self.by_qual.get(qual)
    if not isinstance(c, Class):
      raise AnalysisError('anchor class %s not found in %s/%s' %
                          (qual, self.repo, PKG))
    return c

  def module(self, name):
    if name not in self.modules:
      raise AnalysisError('module gin/%s.py not found' % name)
    return self.modules[name]

  def all_funcs(self, modules=None):
    for q, f in sorted(self.by_qual.items()):
      if isinstance(f, Func) and (modules is None or f.module.name in modules):
        yield f

  def all_classes(self, modules=None):
    for q, c in sorted(self.by_qual.items()):
      if isinstance(c, Class) and (modules is None or c.module.name in modules):
        yield c

  def files_digest(self, modules):
    return {self.modules[m].relpath: self.modules[m].sha256
            for m in modules if m in self.modules}


def _defs_in(body):
  """Function/class definitions directly in `body`, also those nested in
  if/try/with blocks of the same scope."""
  for st in body:
    if isinstance(st, FuncNode + (ast.ClassDef,)):
      yield st
    elif isinstance(st, (ast.If, ast.For, ast.While, ast.With, ast.Try)):
      for field in ('body', 'orelse', 'finalbody'):
        yield from _defs_in(getattr(st, field, []) or [])
      for h in getattr(st, 'handlers', []) or []:
        yield from _defs_in(h.body)


def enclosing_stmt(node):
  """The statement node that contains `node`."""
  while node is not None and not isinstance(node, ast.stmt):
    node = getattr(node, 'parent', None)
  return node


def ancestors(node):
  node = getattr(node, 'parent', None)
  while node is not None:
    yield node
    node = getattr(node, 'parent', None)


def u(node):
  """Canonical text of an expression (quotes / spacing normalised)."""
  return ast.unparse(node) if node is not None else 'None'


def names_in(node):
  return {n.id for n in ast.walk(node) if isinstance(n, ast.Name)}


def calls_in(node, local=True):
  it = walk_local(node) if local and isinstance(node, FuncNode) else ast.walk(node)
  return [n for n in it if isinstance(n, ast.Call)]
