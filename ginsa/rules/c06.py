"""C06 The config string round-trips, is canonical and always parses."""
import ast
import re

from ..core import AnalysisError, u, walk_local, enclosing_stmt
from ..lib import (construct, std_facts, def_of, facts_at, calls_of_node,
                   in_subtree, single_reaching_value, returns_of, format_sites, expand_expr)

from .c19 import import_aliases
from .common import method_selector_rule
from ..core import AnalysisError

SAN = 'config._is_literally_representable'


def is_sorted_expr(prog, f, e, depth=0):
  """Is the iteration order of expression e determined by sorting?"""
  if isinstance(e, ast.Call) and u(e.func) == 'sorted':
    return True
  if isinstance(e, ast.Name) and depth < 3:
    v = single_reaching_value(f, e.id)
    if v is not None and is_sorted_expr(prog, f, v, depth + 1):
      return True
    # a list filled only by `L.append(x)` inside loops over something sorted, x being the loop variable: an order-preserving selection
    apps = [c for c in walk_local(f.node) if isinstance(c, ast.Call) and isinstance(c.func, ast.Attribute) and u(c.func.value) == e.id
            and c.func.attr in ('append', 'extend', 'insert', 'sort', 'reverse')]
    inits = [a for a in walk_local(f.node) if isinstance(a, (ast.Assign, ast.AnnAssign)) and u(a.targets[0] if isinstance(a, ast.Assign) else a.target) == e.id]
    if apps and all(c.func.attr == 'append' and len(c.args) == 1 for c in apps) and inits and \
        all(isinstance(a.value, ast.List) and not a.value.elts for a in inits):
      from ..core import ancestors
      for c in apps:
        lp = next((x for x in ancestors(c) if isinstance(x, ast.For)), None)
        if lp is None or u(c.args[0]) != u(lp.target) or not is_sorted_expr(prog, f, lp.iter, depth + 1):
          return False
      return True
    return False
  if isinstance(e, ast.Attribute):
    # a property whose body returns sorted(...)
    m = prog.unique_method(e.attr) if hasattr(prog, 'unique_method') else None
    for c in prog.ix.all_classes():
      pm = c.methods.get(e.attr)
      if pm is not None and 'property' in pm.decorator_names():
        rets = [r for r in returns_of(pm) if r.value is not None]
        return bool(rets) and all(isinstance(r.value, ast.Call) and u(r.value.func) == 'sorted' for r in rets)
  if isinstance(e, ast.ListComp) and len(e.generators) == 1:
    return is_sorted_expr(prog, f, e.generators[0].iter, depth + 1)
  return False


def run(ctx):
  prog = ctx.prog
  ctx.assume('T9')
  cs = ctx.func('config._config_str')
  con = construct(cs)
  g, facts = std_facts(prog, cs)
  fb = cs.nested.get('format_binding')
  if fb is None:
    raise AnalysisError('_config_str.format_binding vanished')

  # ---- C06.always-parses
  emits = [c for c in walk_local(cs.node) if isinstance(c, ast.Call) and prog.resolve_call(cs, c) == fb.qual]
  ctx.expect_at_least('binding emission sites in _config_str', len(emits), 1)
  # the value parameter of format_binding is the one that is pretty-printed
  fparams = [a.arg for a in fb.node.args.posonlyargs + fb.node.args.args]
  printed = [x.args[0].id for x in ast.walk(fb.node) if isinstance(x, ast.Call) and u(x.func) in ('pprint.pformat', 'pformat', 'repr')
             and x.args and isinstance(x.args[0], ast.Name) and x.args[0].id in fparams]
  if len(set(printed)) != 1:
    raise AnalysisError('format_binding: cannot tell which parameter is the printed value (%s)' % sorted(set(printed)))
  vpos = fparams.index(printed[0])
  for c in emits:
    kw = [k.value for k in c.keywords if k.arg == printed[0]]
    if any(isinstance(a, ast.Starred) for a in c.args) or (len(c.args) <= vpos and not kw):
      raise AnalysisError('format_binding call without a value argument at line %d' % c.lineno)
    val = c.args[vpos] if len(c.args) > vpos else kw[0]
    st = enclosing_stmt(c)
    fs = facts_at(g, facts, st) or frozenset()
    ok = False
    how = ''
    vt = u(val)
    for fct in fs:
      if fct[0] == 'c' and fct[2] is True and fct[1].replace(' ', '') == '_is_literally_representable(%s)' % vt.replace(' ', ''):
        ok = True
        how = 'guarded by the representability test'
    if not ok and isinstance(val, ast.Name):
      # loop variable over a collection filtered by the sanitiser (a `for` statement, or the generator of a comprehension around the call)
      from ..core import ancestors as _anc
      comp_loops = [gen for a_ in _anc(c) if isinstance(a_, (ast.ListComp, ast.GeneratorExp)) for gen in a_.generators]
      st_nodes = g.nodes_for(st)
      for lp in [l for l in (st_nodes[0].loops if st_nodes else []) if isinstance(l, ast.For)] + comp_loops:
        tnames = [x.id for x in ast.walk(lp.target) if isinstance(x, ast.Name)]
        if val.id not in tnames:
          continue
        src = lp.iter
        # order-only / copying wrappers keep the elements; a name stands for its single definition
        for _ in range(6):
          if isinstance(src, ast.Call) and u(src.func) in ('sorted', 'list', 'tuple', 'reversed') and src.args:
            src = src.args[0]
          elif isinstance(src, ast.Name):
            src = single_reaching_value(cs, src.id)
          else:
            break
        if isinstance(src, (ast.ListComp, ast.GeneratorExp)) and len(src.generators) == 1:
          gen = src.generators[0]
          sani = [i for i in gen.ifs if isinstance(i, ast.Call) and prog.resolve_call(cs, i) == SAN and len(i.args) == 1]
          if sani:
            sv = u(sani[0].args[0])
            # position of the sanitised variable in the element tuple == position of val in the loop target
            elts = [u(x) for x in (src.elt.elts if isinstance(src.elt, ast.Tuple) else [src.elt])]
            tl = [u(x) for x in (lp.target.elts if isinstance(lp.target, ast.Tuple) else [lp.target])]
            if sv in elts and val.id in tl and elts.index(sv) == tl.index(val.id):
              ok = True
              how = 'iterates a list filtered by the representability test'
    ctx.check(ok, 'C06.always-parses', con, 'emitted value `%s` %s' % (vt, how),
              'value `%s` is emitted without having passed _is_literally_representable: a value with no literal form (e.g. a macro '
              'bound to an object) is printed as its repr and the config string no longer parses' % vt,
              cs.loc(c), instance='emit:' + vt)

  # ---- C06.canonical
  out_var = None
  rets = [r for r in returns_of(cs) if r.value is not None and r.parent is cs.node]
  for r in rets:
    for x in ast.walk(r.value):
      if isinstance(x, ast.Name):
        out_var = x.id
  if out_var is None:
    raise AnalysisError('_config_str: output list not found')
  n_loops = 0
  # lists whose content ends up in the output: OUT.extend(L) / OUT += L / aliases
  outs = {out_var}
  for _ in range(4):
    for n in walk_local(cs.node):
      if isinstance(n, ast.Call) and isinstance(n.func, ast.Attribute) and n.func.attr == 'extend' and u(n.func.value) in outs \
          and n.args and isinstance(n.args[0], ast.Name):
        outs.add(n.args[0].id)
      elif isinstance(n, ast.AugAssign) and isinstance(n.op, ast.Add) and u(n.target) in outs and isinstance(n.value, ast.Name):
        outs.add(n.value.id)
      elif isinstance(n, ast.Assign) and len(n.targets) == 1 and isinstance(n.targets[0], ast.Name) and n.targets[0].id in outs \
          and isinstance(n.value, ast.Name):
        outs.add(n.value.id)
  for lp in [n for n in walk_local(cs.node) if isinstance(n, ast.For)]:
    appends = [c for c in walk_local(lp) if isinstance(c, ast.Call) and isinstance(c.func, ast.Attribute) and c.func.attr in ('append', 'extend')
               and u(c.func.value) in outs]
    if not appends:
      continue
    n_loops += 1
    ok = is_sorted_expr(prog, cs, lp.iter)
    ctx.check(ok, 'C06.canonical', con, 'emitting loop over `%s` iterates in sorted order' % u(lp.iter)[:60],
              'the loop over `%s` appends to the output in the iteration order of its source (insertion / hash order): the config '
              'string depends on the order in which bindings were made' % u(lp.iter)[:80], cs.loc(lp), instance='loop:' + u(lp.target))
  # comprehensions whose result is added to the output (OUT += [... for x in XS], OUT.extend([...]))
  for n in walk_local(cs.node):
    val = None
    if isinstance(n, ast.AugAssign) and isinstance(n.op, ast.Add) and u(n.target) in outs:
      val = n.value
    elif isinstance(n, ast.Call) and isinstance(n.func, ast.Attribute) and n.func.attr == 'extend' and u(n.func.value) in outs and n.args:
      val = n.args[0]
    if val is not None and not isinstance(val, ast.Name):
      for comp in [x for x in ast.walk(val) if isinstance(x, (ast.ListComp, ast.GeneratorExp))]:
        n_loops += 1
        ok = is_sorted_expr(prog, cs, comp.generators[0].iter)
        ctx.check(ok, 'C06.canonical', con, 'emitting comprehension over `%s` iterates in sorted order' % u(comp.generators[0].iter)[:60],
                  'the comprehension over `%s` adds to the output in the iteration order of its source (insertion / hash order): the config '
                  'string depends on the order in which bindings were made' % u(comp.generators[0].iter)[:80], cs.loc(comp),
                  instance='comp:' + u(comp.generators[0].target))
  init = single_reaching_value(cs, out_var)
  if isinstance(init, ast.ListComp):
    n_loops += 1
    ok = is_sorted_expr(prog, cs, init.generators[0].iter)
    ctx.check(ok, 'C06.canonical', con, 'imports are emitted in sorted order',
              'imports are emitted in the iteration order of `%s`' % u(init.generators[0].iter), cs.loc(init), instance='imports')
  ctx.expect_at_least('emitting loops in _config_str', n_loops, 2)
  im = ctx.cls('config.ImportManager')
  ii = im.methods.get('__init__')
  for lp in [n for n in walk_local(ii.node) if isinstance(n, ast.For)]:
    if any(isinstance(c, ast.Call) and prog.resolve_call(ii, c) == 'config.ImportManager.add_import' for c in walk_local(lp)):
      ctx.check(is_sorted_expr(prog, ii, lp.iter), 'C06.canonical', 'gin/config.py::ImportManager.__init__',
                'imports (a set) are added in sorted order, so re-aliasing of colliding names is deterministic',
                'imports are added in set iteration order: which of two colliding import names gets re-aliased varies from run to run',
                ii.loc(lp), instance='import-order')

  sk = cs.nested.get('sort_key')
  if sk is None:
    raise AnalysisError('_config_str.sort_key vanished')
  partial = []
  for x in walk_local(sk.node):
    if isinstance(x, ast.Subscript) and isinstance(x.slice, ast.Slice) and isinstance(x.value, ast.Call) and isinstance(x.value.func, ast.Attribute) \
        and x.value.func.attr == 'split':
      sl = x.slice
      full_rev = sl.lower is None and sl.upper is None and sl.step is not None and u(sl.step) == '-1'
      if not full_rev:
        partial.append(x)
  uses = {nm for x in walk_local(sk.node) if isinstance(x, ast.Name) for nm in [x.id]}
  ctx.check(not partial and {'scope', 'selector'} <= uses, 'C06.canonical', construct(sk),
            'sections are ordered by *all* selector and scope components (a total order on (scope, selector))',
            'the sort key drops components (`%s`): keys that differ only in the dropped part tie, and a stable sort leaves ties in the order the '
            'bindings were made' % (u(partial[0]) if partial else 'scope/selector unused'), sk.loc(partial[0]) if partial else sk.loc(), instance='sort-key-total')
  # imports are written out only after every import needed by the bound configurables has been added
  emit = [n for n in g.live_nodes() if n.ast is not None and n.kind == 'stmt' and 'sorted_imports' in u(n.ast)]
  req = [n for n in g.live_nodes() if any(prog.resolve_call(cs, c_) == 'config.ImportManager.require_configurable' for c_ in calls_of_node(n))]
  late = [r for e in emit for r in req if g.reaches(e.id, r.id)]
  ctx.check(bool(emit) and bool(req) and not late, 'C06.always-parses', con,
            'the import lines are produced after the imports required by the bound configurables were added',
            'the import lines are produced (line %d) before `require_configurable` has added the imports needed by bound / referenced configurables: '
            'selectors in the text then use modules the text never imports, and re-parsing raises NameError' % (emit[0].lineno if emit else 0),
            cs.loc(emit[0].ast) if emit else cs.loc(), instance='imports-after-require')

  # ---- C06.roundtrip-guard
  roundtrip_guard(ctx, 'C06.roundtrip-guard')
  reference_repr(ctx, 'C06.reference-repr')
  reference_eq(ctx, 'C06.roundtrip-guard')
  method_selector_rule(ctx, 'C06.selectors')
  ctx.borrow('C19', 'C19.import-source', 'C06.selectors')     # the module a selector is printed against is the one it was resolved through

  # ---- C06.markdown
  md = ctx.func('config.markdown')
  pr = md.nested.get('process')
  if pr is None:
    raise AnalysisError('markdown.process vanished')
  g3, facts3 = std_facts(prog, pr)
  p = pr.params[0]
  def under_noncomment(n):
    return any(fct[0] == 'c' and fct[2] is False and fct[1] == "%s.startswith('#')" % p for fct in facts3[n.id])
  # what is produced for a non-comment line: a direct return, or the assignment of the result variable, on the non-comment branch
  result_vars = {n.ast.value.id for n in g3.live_nodes() if n.kind == 'return' and isinstance(n.ast.value, ast.Name)}
  nonc = [(n, n.ast.value) for n in g3.live_nodes() if n.kind == 'return' and n.ast.value is not None and under_noncomment(n)
          and not (isinstance(n.ast.value, ast.Name) and n.ast.value.id in result_vars and def_of(facts3[n.id], n.ast.value.id) is None)]
  nonc += [(n, n.ast.value) for n in g3.live_nodes() if n.kind == 'stmt' and isinstance(n.ast, ast.Assign) and len(n.ast.targets) == 1
           and u(n.ast.targets[0]) in result_vars and under_noncomment(n)]
  ok = bool(nonc)
  for n, v0 in nonc:
    v = expand_expr(facts3[n.id], v0, keep=(p,))
    same = isinstance(v, ast.BinOp) and isinstance(v.op, ast.Add) and isinstance(v.left, ast.Constant) and isinstance(v.left.value, str) \
        and v.left.value.strip() == '' and u(v.right) == p and def_of(facts3[n.id], p) is None
    ok = ok and same
  ctx.check(ok, 'C06.markdown', construct(pr), 'a non-comment line is returned verbatim behind a constant indent',
            'a binding line is altered by the Markdown conversion (`%s`)' % [u(v0) for _n, v0 in nonc], pr.loc(), instance='verbatim')
  loops = [n for n in walk_local(md.node) if isinstance(n, ast.For) and not in_subtree(n, pr.node)]
  src = md.params[0] + '.splitlines()'
  joins = [r.value for r in returns_of(md) if r.value is not None and r.parent is md.node and isinstance(r.value, ast.Call) and u(r.value.func) == "'\\n'.join"
           and len(r.value.args) == 1]
  ok = any(u(lp.iter) == src for lp in loops) and bool(joins)
  drops = [n for lp in loops for n in walk_local(lp) if isinstance(n, ast.If) and 'is not None' not in u(n.test)]
  # equivalent one-expression forms: '\n'.join(map(process, S.splitlines())) / a comprehension over the lines
  for j in joins:
    a = j.args[0]
    if isinstance(a, ast.Call) and u(a.func) == 'map' and len(a.args) == 2 and u(a.args[0]) == pr.name and u(a.args[1]) == src:
      ok = True
    if isinstance(a, (ast.ListComp, ast.GeneratorExp)) and len(a.generators) == 1 and u(a.generators[0].iter) == src \
        and isinstance(a.elt, ast.Call) and u(a.elt.func) == pr.name and all('is not None' in u(i) for i in a.generators[0].ifs):
      ok = True
  ctx.check(ok and not drops, 'C06.markdown', construct(md), 'every line is processed and kept (only None results are dropped)',
            'markdown() drops or re-joins lines differently', md.loc(), instance='all-lines')

  # ---- C06.import-syntax
  fm = ctx.func('config_parser.ImportStatement.format')
  words = set()
  for n in walk_local(fm.node):
    if isinstance(n, ast.Constant) and isinstance(n.value, str):
      words |= set(re.findall(r'[a-z]+', n.value))
  pi = ctx.func('config_parser.ConfigParser._parse_import')
  ps = ctx.func('config_parser.ConfigParser.parse_statement')
  consumed = set()
  for fn in (pi, ps):
    for n in walk_local(fn.node):
      if isinstance(n, ast.Constant) and isinstance(n.value, str) and re.fullmatch(r'[a-z]+', n.value):
        consumed.add(n.value)
  need = {'import', 'from', 'as'}
  ctx.check(need <= words and need <= consumed, 'C06.import-syntax', construct(fm),
            'the keywords the formatter emits (%s) are the ones the import parser consumes' % sorted(need),
            'import formatter emits %s but the parser consumes %s' % (sorted(words & (need | consumed)), sorted(consumed & (need | words))),
            fm.loc(), instance='keywords')
  rs = [c for c in walk_local(fm.node) if isinstance(c, ast.Call) and isinstance(c.func, ast.Attribute) and c.args and u(c.args[0]) == "'.'"
        and ((c.func.attr == 'rsplit' and [u(x) for x in c.args[1:]] + [u(k.value) for k in c.keywords if k.arg == 'maxsplit'] == ['1'])
             or (c.func.attr == 'rpartition' and len(c.args) == 1))]
  join = [n for n, tmpl, ops in format_sites(pi.node) if tmpl == '{}.{}' and len(ops) == 2]
  ctx.check(bool(rs) and bool(join), 'C06.import-syntax', construct(fm),
            'from-imports are split at the last dot when printed and joined with a dot when parsed',
            'the from-import split/join no longer mirror each other', fm.loc(), instance='from-split')
  import_aliases(ctx, 'C06.import-aliases')


def roundtrip_guard(ctx, rule):
  """_format_value returns text only if it is repr(value) and parses back to an equal value."""
  prog = ctx.prog
  fv = ctx.func('config._format_value')
  g2, facts2 = std_facts(prog, fv)
  rets2 = [n for n in g2.live_nodes() if n.kind == 'return']
  ok = False
  for n in rets2:
    v = n.ast.value
    if v is None or (isinstance(v, ast.Constant) and v.value is None):
      continue
    d = def_of(facts2[n.id], u(v)) if isinstance(v, ast.Name) else None
    guard = any(fct[0] == 'c' and fct[2] is True and fct[1].replace(' ', '') in
                ('parse_value(%s)==value' % u(v), 'value==parse_value(%s)' % u(v)) for fct in facts2[n.id])
    ok = guard and d == 'repr(value)'
    if not ok:
      break
  ctx.check(ok, rule, construct(fv), 'text is returned only when it is repr(value) and parses back to an equal value',
            '_format_value returns text that was not checked to parse back to an equal value', fv.loc(), instance='guard')
  ir = ctx.func(SAN)
  rv = [u(r.value).replace(' ', '') for r in returns_of(ir) if r.value is not None]
  ctx.check(rv == ['_format_value(value)isnotNone'], rule, construct(ir),
            'representable == _format_value yields text', '_is_literally_representable is `%s`' % rv, ir.loc(), instance='predicate')



def reference_repr(ctx, rule):
  """The text of a reference keeps its scopes in every branch of __repr__."""
  prog = ctx.prog
  cr = ctx.cls('config.ConfigurableReference')
  rp = cr.methods.get('__repr__')
  if rp is None:
    raise AnalysisError('ConfigurableReference.__repr__ vanished')
  g, facts = std_facts(prog, rp)
  rets = [n for n in g.live_nodes() if n.kind == 'return' and n.ast.value is not None]
  ctx.expect_at_least('returns of ConfigurableReference.__repr__', len(rets), 2)
  for n in rets:
    v = n.ast.value
    txt = u(v)
    if txt.startswith("'%'"):
      ok = 'self._scopes' in txt or 'self.scopes' in txt
      ctx.check(ok, rule, construct(rp), 'a macro / constant reference prints as %<its scope>', 'the %-form no longer prints the scope (the macro name)', rp.loc(v), instance='percent')
      continue
    names = [x.id for x in ast.walk(v) if isinstance(x, ast.Name)]
    ok = False
    for nm in names:
      for a in walk_local(rp.node):
        if isinstance(a, ast.Assign) and u(a.targets[0]) == nm and ('self.scopes' in u(a.value) or 'self._scopes' in u(a.value)) and 'join' in u(a.value):
          # every definition of that name must include the scopes
          alld = [b for b in walk_local(rp.node) if isinstance(b, ast.Assign) and u(b.targets[0]) == nm]
          ok = all(('self.scopes' in u(b.value) or 'self._scopes' in u(b.value) or 'self._scoped_selector' == u(b.value)) for b in alld)
    # the selector part in dynamic mode must come from the import manager
    dyn = [a for a in walk_local(rp.node) if isinstance(a, ast.Assign) and isinstance(a.value, ast.Call) and u(a.value.func).endswith('minimal_selector')]
    for a in dyn:
      tgt = u(a.targets[0])
      joined = any(isinstance(b, ast.Assign) and 'join' in u(b.value) and tgt in [x.id for x in ast.walk(b.value) if isinstance(x, ast.Name)]
                   and ('self.scopes' in u(b.value) or 'self._scopes' in u(b.value)) for b in walk_local(rp.node))
      ok = ok and joined
    ctx.check(ok, rule, construct(rp), 'the printed reference is <scopes>/<selector> in the static and in the dynamic-registration branch',
              'a branch of __repr__ prints the selector without the reference\'s scopes: after a round trip through config_str the reference '
              'runs under the ambient scope instead of its own', rp.loc(v), instance='scopes-kept')


def reference_eq(ctx, rule):
  """ConfigurableReference.__eq__ compares what the reference resolves to, not how it was spelled."""
  cr = ctx.cls('config.ConfigurableReference')
  eq = cr.methods.get('__eq__')
  if eq is None:
    ctx.fail(rule, 'gin/config.py::ConfigurableReference', 'ConfigurableReference no longer defines __eq__: the round-trip test parse(repr(v)) == v fails for every reference', 'gin/config.py', instance='__eq__')
    return
  attrs = {n.attr for n in walk_local(eq.node) if isinstance(n, ast.Attribute) and isinstance(n.value, ast.Name) and n.value.id in (eq.params[0], eq.params[1])
           and n.attr != '__class__'}
  # a read-only property that just hands out a private attribute stands for that attribute
  props = {}
  for name_, m_ in cr.methods.items():
    if any(u(d) == 'property' for d in m_.node.decorator_list):
      rs = [r for r in walk_local(m_.node) if isinstance(r, ast.Return)]
      if len(rs) == 1 and isinstance(rs[0].value, ast.Attribute) and u(rs[0].value.value) == m_.params[0]:
        props[name_] = rs[0].value.attr
  attrs = {props.get(a, a) for a in attrs}
  spelled = attrs & {'_scoped_selector', '_selector', 'selector', 'scoped_selector'}
  ctx.check('_configurable' in attrs and not spelled, rule, construct(eq),
            'two references are equal iff they resolve to the same configurable (and agree on evaluation), however they were spelled',
            'reference equality depends on the spelling (%s): `parse_value(repr(ref)) == ref` fails whenever the emitted selector differs from the one '
            'written (re-aliased imports, module-qualified vs short), so such bindings are judged unrepresentable and silently dropped from config strings'
            % sorted(spelled or attrs), eq.loc(), instance='__eq__')
