from ._h import S
C = 'config.py'
SEEDS = [
  S('no-finally', 'C09.pair', C, "  _SCOPE_MANAGER.enter_scope(new_scope)\n  try:\n    scopes_are_valid = map(config_parser.MODULE_RE.match, new_scope)\n    if not valid_value or not all(scopes_are_valid):\n      err_str = 'Invalid value for `name_or_scope`: {}.'\n      raise ValueError(err_str.format(name_or_scope))\n\n    yield new_scope\n  finally:\n    _SCOPE_MANAGER.exit_scope()", "  _SCOPE_MANAGER.enter_scope(new_scope)\n  scopes_are_valid = map(config_parser.MODULE_RE.match, new_scope)\n  if not valid_value or not all(scopes_are_valid):\n    _SCOPE_MANAGER.exit_scope()\n    err_str = 'Invalid value for `name_or_scope`: {}.'\n    raise ValueError(err_str.format(name_or_scope))\n\n  yield new_scope\n  _SCOPE_MANAGER.exit_scope()", 'scope leaks when the body raises'),
  S('except-only-exception', 'C09.pair', C, "    yield new_scope\n  finally:\n    _SCOPE_MANAGER.exit_scope()", "    yield new_scope\n  except Exception:\n    _SCOPE_MANAGER.exit_scope()\n    raise\n  else:\n    _SCOPE_MANAGER.exit_scope()", 'KeyboardInterrupt/GeneratorExit leak'),
  S('validate-inside-try-before-push', 'C09.push-first', C, "  _SCOPE_MANAGER.enter_scope(new_scope)\n  try:\n    scopes_are_valid", "  try:\n    if name_or_scope == 'forbidden':\n      raise ValueError('forbidden')\n    _SCOPE_MANAGER.enter_scope(new_scope)\n    scopes_are_valid"),
  S('truthiness-inside-try-before-push', 'C09.push-first', C, "  _SCOPE_MANAGER.enter_scope(new_scope)\n  try:\n    scopes_are_valid", "  try:\n    if not name_or_scope:\n      new_scope = []\n    _SCOPE_MANAGER.enter_scope(new_scope)\n    scopes_are_valid", 'F16 shape'),
  S('not-thread-local', 'C09.thread', C, "class _ScopeManager(threading.local):", "class _ScopeManager(object):"),
  S('class-level-stack', 'C09.thread', C, "  def _maybe_init(self):\n    if not hasattr(self, '_active_scopes'):\n      self._active_scopes = [[]]\n", "  _active_scopes = [[]]\n\n  def _maybe_init(self):\n    pass\n"),
  S('exit-without-init', 'C09.thread', C, '    """Exits the most recently entered scope."""\n    self._maybe_init()\n', '    """Exits the most recently entered scope."""\n'),
  S('live-frame-returned', 'C09.copy-out', C, "    return self._active_scopes[-1][:]  # Slice to get copy.", "    return self._active_scopes[-1]"),
  S('manual-push-elsewhere', 'C09.who', C, "      with config_scope(scope_components):\n        return fn_or_cls(*args, **kwargs)", "      _SCOPE_MANAGER.enter_scope(scope_components)\n      result = fn_or_cls(*args, **kwargs)\n      _SCOPE_MANAGER.exit_scope()\n      return result"),
  S('list-scope-appended', 'C09.scope-entry', C, "    new_scope = name_or_scope\n", "    new_scope = current_scope() + name_or_scope\n"),
  S('none-keeps-scope', 'C09.scope-entry', C, "    valid_value = name_or_scope in (None, '')\n    new_scope = []", "    valid_value = name_or_scope in (None, '')\n    new_scope = current_scope()"),
  S('any-value-valid', 'C09.scope-entry', C, "    valid_value = name_or_scope in (None, '')", "    valid_value = True"),
]
