from ._h import S
C = 'config.py'
SEEDS = [
  S('list-test-before-known-test', 'C15.known-first', C, "  if _REGISTRY.matching_selectors(selector):\n    return False  # Never skip known configurables.\n  if isinstance(skip_unknown, (list, tuple, set)):\n    return selector in skip_unknown\n", "  if isinstance(skip_unknown, (list, tuple, set)):\n    return selector in skip_unknown\n  if _REGISTRY.matching_selectors(selector):\n    return False  # Never skip known configurables.\n"),
  S('known-test-dropped', 'C15.known-first', C, "  if _REGISTRY.matching_selectors(selector):\n    return False  # Never skip known configurables.\n", ""),
  S('list-means-skip-all', 'C15.known-first', C, "    return selector in skip_unknown\n  return skip_unknown", "    return True\n  return skip_unknown"),
  S('macros-skipped-too', 'C15.consumer', C, "        if not arg_name:\n          macro_name", "        if not arg_name and not _should_skip(selector, skip_unknown):\n          macro_name"),
  S('bindings-never-skipped', 'C15.consumer', C, "        elif not _should_skip(selector, skip_unknown):\n          with utils.try_with_location(location):\n            bind_parameter((scope, selector, arg_name), value, location)", "        else:\n          with utils.try_with_location(location):\n            bind_parameter((scope, selector, arg_name), value, location)"),
  S('block-header-always-checked', 'C15.consumer', C, "        if not _should_skip(statement.selector, skip_unknown):\n          with utils.try_with_location(statement.location):\n            if not parse_context", "        if True:\n          with utils.try_with_location(statement.location):\n            if not parse_context"),
  S('importerror-always-swallowed', 'C15.consumer', C, "            if not skip_unknown:\n              raise\n", ""),
  S('placeholder-for-known', 'C15.placeholder', C, "    if _should_skip(unscoped_selector, self._skip_unknown):\n      return _UnknownConfigurableReference(scoped_selector, evaluate)", "    if self._skip_unknown:\n      return _UnknownConfigurableReference(scoped_selector, evaluate)"),
  S('placeholder-returns-itself', 'C15.placeholder', C, "    addl_msg = '\\n\\n    To catch this earlier, ensure gin.finalize() is called.'\n    _raise_unknown_reference_error(self, addl_msg)", "    return self"),
  S('finalize-hook-top-level-only', 'C15.placeholder', C, "      for maybe_unknown in _iterate_flattened_values(param_value):", "      for maybe_unknown in [param_value]:"),
  S('delegate-loses-option', 'C15.forward', C, "  parser = config_parser.ConfigParser(bindings, ParserDelegate(skip_unknown))", "  parser = config_parser.ConfigParser(bindings, ParserDelegate())"),
  S('references-use-scoped-name', 'C15.placeholder', C, "    unscoped_selector = scoped_selector.rsplit('/', 1)[-1]", "    unscoped_selector = scoped_selector"),
]
