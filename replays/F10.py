from _common import *
cfg = """
from __gin__ import dynamic_registration
from gin.testdata import import_test_configurables as itc
itc.identity.param = 5
"""
gin.parse_config(cfg, skip_unknown=True)
s = gin.config_str()
done('param = 5' not in s, "dynamic registration + skip_unknown=True: binding of an importable, not yet registered name %s" %
     ('dropped' if 'param = 5' not in s else 'applied'))
