from _common import *
gin.bind_parameter(('M', 'gin.macro', 'value'), object())
s = gin.config_str()
gin.clear_config()
try:
  gin.parse_config(s)
  done(False, "config_str with a non-literal macro re-parses")
except Exception as e:
  done(True, "config_str() emitted a non-literal macro value; re-parse fails: %s" % type(e).__name__)
