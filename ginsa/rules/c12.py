"""C12 Finalize locks the configuration; unlock_config always restores the lock."""
import ast

from ..cfg import describe_path, pair_leaks, witness
from ..core import AnalysisError, u, walk_local, enclosing_stmt
from ..lib import (construct, std_facts, calls_of_node, facts_at, def_of,
                   terminates_in_raise, in_subtree)
from ..resolve import store_accesses
from .common import (LOCK_SETTER, hasheq, lock_facts, lock_model, nodes_calling,
                     unlocked_at, finalize_conflict_guard)

GUARDED_STORES = ['_CONFIG', '_CONFIG_PROVENANCE', '_REGISTRY', '_INVERSE_REGISTRY']

# Call edges through which the registry may be touched without a lock guard,
# with the reason (DESIGN.md appendix C): one named edge, nothing wider.
ALLOWED_UNGUARDED_EDGES = {
    ('config._decorate_with_scope', 'config._decorate_fn_or_cls'):
        'scope decoration re-homes already re-homed methods idempotently; it is reached from reference '
        'construction / get_configurable, which are not mutating entry points',
}


def is_public(f):
  if f.outer is not None:
    return False
  if f.cls is not None:
    return not f.name.startswith('_') or f.name in ('__init__', '__call__')
  return not f.name.startswith('_')


def run(ctx):
  prog = ctx.prog
  ctx.assume('T1', 'T6')
  atoms, writers, flag, other_writers = lock_model(ctx)
  ctx.check(not other_writers, 'C12.guarded', 'gin/config.py::' + flag,
            'the lock flag is written only by its setter',
            'the lock flag is rebound outside its setter in %s' % [f.qual for f in other_writers],
            other_writers[0].loc() if other_writers else 'gin/config.py', instance='flag-writers')

  # ---- C12.guarded
  stores, acc = store_accesses(prog, 'config', GUARDED_STORES)
  writes = [a for a in acc if a.kind in ('write', 'rebind') and a.func is not None]
  ctx.expect_at_least('write sites of the binding store / registries', len(writes), 5)
  fact_cache = {}

  def facts_for(f):
    if f.qual not in fact_cache:
      fact_cache[f.qual] = lock_facts(ctx, f, atoms, writers)
    return fact_cache[f.qual]

  def guarded_at(f, astnode):
    g, facts = facts_for(f)
    st = enclosing_stmt(astnode)
    fs = facts_at(g, facts, st)
    if fs is None:  # inside a compound header (test / for iter / with item)
      for n in g.live_nodes():
        if n.ast is not None and in_subtree(astnode, n.ast) and n.kind in ('test', 'for', 'with_enter'):
          fs = facts[n.id] if fs is None else fs & facts[n.id]
    return fs is not None and unlocked_at(fs, atoms)

  def is_reset(f, store):
    mine = [a for a in writes if a.func is f and a.store == store]
    unlocks = [c for c in walk_local(f.node) if isinstance(c, ast.Call)
               and prog.resolve_call(f, c) == LOCK_SETTER and c.args
               and isinstance(c.args[0], ast.Constant) and c.args[0].value is False]
    return bool(unlocks) and all(a.method == 'clear' for a in mine)

  def exposed_path(f, seen):
    """A chain of unguarded call sites from a public function down to f."""
    if is_public(f):
      return [f.qual]
    if f.qual in seen:
      return None
    seen = seen | {f.qual}
    target = f.qual
    sites = prog.call_sites_of(target)
    if f.cls is not None and f.name == '__init__':
      sites = sites + prog.call_sites_of(f.cls.qual)
    # a nested function is "called" where its enclosing function passes it on
    if f.outer is not None and not sites:
      return exposed_path(f.outer, seen)
    for cf, cn in sites:
      if (cf.qual, target) in ALLOWED_UNGUARDED_EDGES:
        continue
      if guarded_at(cf, cn):
        continue
      p = exposed_path(cf, seen)
      if p:
        return p + [f.qual]
    return None

  for a in writes:
    f = a.func
    con = construct(f)
    inst = '%s.%s' % (a.store, a.method or 'rebind')
    if is_reset(f, a.store):
      ctx.hold('C12.guarded', con, '%s is a pure reset (clears the store and unlocks)' % f.name, f.loc(a.node), instance=inst)
      continue
    if guarded_at(f, a.node):
      ctx.hold('C12.guarded', con, 'write to %s is reached only with the lock flag tested false on every path' % a.store,
               f.loc(a.node), instance=inst)
      continue
    p = exposed_path(f, frozenset())
    if p:
      ctx.fail('C12.guarded', con,
               'write to %s (%s) is reachable from the public API without passing a lock guard: %s -- a finalized '
               'configuration could be modified' % (a.store, a.method, ' -> '.join(p)), f.loc(a.node), instance=inst,
               path=p)
    else:
      ctx.hold('C12.guarded', con, 'write to %s: every call chain from the public API passes a lock guard '
               '(or the documented idempotent scope-decoration edge)' % a.store, f.loc(a.node), instance=inst)
  for edge, why in ALLOWED_UNGUARDED_EDGES.items():
    ctx.note('C12.guarded exception: %s -> %s: %s' % (edge[0], edge[1], why))

  # ---- C12.restore
  uf = ctx.func('config.unlock_config')
  ucon = construct(uf)
  g = prog.cfg(uf)
  sets = nodes_calling(prog, uf, g, LOCK_SETTER)
  acq, rel = [], []
  for n in sets:
    c = [c for c in calls_of_node(n) if prog.resolve_call(uf, c) == LOCK_SETTER][0]
    if c.args and isinstance(c.args[0], ast.Constant) and c.args[0].value is False:
      acq.append(n)
    else:
      rel.append((n, c))
  if not acq:
    ctx.fail('C12.restore', ucon, 'unlock_config no longer clears the lock flag', uf.loc())
  else:
    leaks = pair_leaks(g, [n.id for n in acq], [n.id for n, _ in rel])
    if leaks:
      for a, name, w in leaks:
        ctx.fail('C12.restore', ucon,
                 'the saved lock state is not restored on the path to the %s: an exception in the body of '
                 '`with unlock_config():` leaves the configuration unlocked' % name,
                 uf.loc(g.nodes[a].ast), sites=len(g.live_nodes()), instance=name, path=describe_path(g, w))
    else:
      ctx.hold('C12.restore', ucon, 'every exit after the unlock (normal, exception at the yield) passes the restore',
               uf.loc(), sites=len(g.live_nodes()))
    # the restored value is the state read on entry
    g2, facts = std_facts(prog, uf)
    # `saved = _set_config_is_locked(False)` is the same read when the setter returns the state it replaced
    swap_forms = set()
    st_fn = ctx.func(LOCK_SETTER)
    g_s, f_s = std_facts(prog, st_fn)
    wr = [n for n in g_s.live_nodes() if n.kind == 'stmt' and isinstance(n.ast, ast.Assign) and u(n.ast.targets[0]) == flag]
    rts = [n for n in g_s.live_nodes() if n.kind == 'return' and isinstance(n.ast.value, ast.Name)]
    def saved_before_write(r):
      reads = [x for x in g_s.live_nodes() if x.kind == 'stmt' and isinstance(x.ast, ast.Assign) and u(x.ast.targets[0]) == r.ast.value.id]
      return len(reads) == 1 and u(reads[0].ast.value) == flag and \
          all(witness(g_s, g_s.entry.id, [w_.id], avoid=[reads[0].id]) is None and not g_s.reaches(w_.id, reads[0].id) for w_ in wr)
    if wr and rts and all(saved_before_write(r) for r in rts):
      swap_forms.add('%s(False)' % LOCK_SETTER.split('.')[-1])
    ok = bool(rel)
    for n, c in rel:
      arg = c.args[0] if c.args else None
      d = None
      if isinstance(arg, ast.Name):
        fs = facts_at(g2, facts, enclosing_stmt(c))
        d = def_of(fs or (), arg.id)
      if d not in ('config_is_locked()', flag) and not (d in swap_forms):
        ok = False
    # and it was read before the flag was cleared
    if ok and acq:
      fs = facts_at(g2, facts, acq[0].ast) or ()
      ok = any(fct[0] == 'def' and fct[2] in ('config_is_locked()', flag) for fct in fs) or \
          any(isinstance(acq[0].ast, ast.Assign) and u(acq[0].ast.value) in swap_forms for _ in [0])
    ctx.check(ok, 'C12.restore', ucon, 'the value restored is the lock state read before unlocking',
              'the value restored is not the lock state read on entry', uf.loc(), instance='saved-value')

  # ---- C12.finalize-order
  ff = ctx.func('config.finalize')
  fcon = construct(ff)
  g, facts = lock_facts(ctx, ff, atoms, writers)
  body = [s for s in ff.node.body if not (isinstance(s, ast.Expr) and isinstance(s.value, ast.Constant))]
  first = body[0] if body else None
  ok = isinstance(first, ast.If) and terminates_in_raise(prog, ff, first.body) and \
      u(first.test) in atoms
  ctx.check(ok, 'C12.finalize-order', fcon, 'finalizing twice raises before anything else runs',
            'the double-finalize guard is no longer the first statement of finalize', ff.loc(first) if first else ff.loc(),
            instance='double-finalize')
  lock_nodes = []
  for n in nodes_calling(prog, ff, g, LOCK_SETTER):
    c = [c for c in calls_of_node(n) if prog.resolve_call(ff, c) == LOCK_SETTER][0]
    if c.args and isinstance(c.args[0], ast.Constant) and c.args[0].value is True:
      lock_nodes.append(n)
  bind_nodes = nodes_calling(prog, ff, g, 'config.bind_parameter')
  parse_nodes = nodes_calling(prog, ff, g, 'config.ParsedBindingKey.parse')
  hook_loops = [n for n in g.live_nodes() if n.kind == 'for' and '_FINALIZE_HOOKS' in u(n.ast.iter)]
  ctx.check(bool(hook_loops), 'C12.finalize-order', fcon, 'finalize iterates the registered hook list',
            'finalize no longer iterates _FINALIZE_HOOKS', ff.loc(), instance='runs-hooks')
  ctx.check(len(lock_nodes) >= 1, 'C12.finalize-order', fcon, 'finalize sets the lock',
            'finalize no longer sets the lock flag', ff.loc(), instance='locks')
  if lock_nodes and hook_loops:
    later = []
    ln = lock_nodes[0]
    for cand in lock_nodes:
      after = g.reachable_from(cand.id) - {cand.id}
      lt = [g.nodes[i] for i in after if g.nodes[i].ast is not None and
            (g.nodes[i].kind in ('raise_stmt', 'for') or calls_of_node(g.nodes[i]))]
      if lt:
        later, ln = lt, cand
    ctx.check(not later, 'C12.finalize-order', fcon,
              'the lock is set last: no hook, validation, raise or bind can run after it',
              'statement `%s` (line %d) can run after the lock is set (line %d): a rejection would leave the configuration locked'
              % (later[0].text(), later[0].lineno, ln.lineno) if later else '', ff.loc(ln.ast), instance='lock-last')
    # every path to the lock passes the hook loop exhausted
    hl = hook_loops[0]
    w = None
    for cand in lock_nodes:
      w = w or witness(g, g.entry.id, [cand.id], avoid=[hl.id])
    ctx.check(w is None, 'C12.finalize-order', fcon, 'the lock is reached only after the hook loop',
              'the lock can be set without running the hooks', ff.loc(ln.ast), instance='hooks-before-lock',
              path=describe_path(g, w) if w else None)
    hooks_atomic(ctx, 'C12.finalize-order')
    loop_st = hl.ast
    # hooks see the configuration as parsed
    hook_calls = [c for n in g.live_nodes() if in_subtree(n.ast, loop_st) for c in calls_of_node(n)
                  if isinstance(c.func, ast.Name) and isinstance(loop_st.target, ast.Name) and c.func.id == loop_st.target.id]
    ok = bool(hook_calls) and all(len(c.args) == 1 and u(c.args[0]) == '_CONFIG' for c in hook_calls)
    ctx.check(ok, 'C12.finalize-order', fcon, 'each hook is called with the binding store itself (configuration as parsed)',
              'hooks are not called with the binding store', ff.loc(loop_st), instance='hook-arg')
  finalize_conflict_guard(ctx, 'C12.finalize-order')

  # ---- C12.conflict
  hasheq(ctx, 'C12.conflict')

  # ---- C12.clear
  cf = ctx.func('config.clear_config')
  g, facts = std_facts(prog, cf)
  unl = [n for n in nodes_calling(prog, cf, g, LOCK_SETTER)
         if any(prog.resolve_call(cf, c) == LOCK_SETTER and c.args and isinstance(c.args[0], ast.Constant)
                and c.args[0].value is False for c in calls_of_node(n))]
  ok = bool(unl) and witness(g, g.entry.id, [g.exit.id], avoid=[n.id for n in unl]) is None
  ctx.check(ok, 'C12.clear', construct(cf), 'clear_config unlocks on every path to its normal exit',
            'clear_config can return without unlocking the configuration', cf.loc(), instance='unlocks')

  from .common import loop_examines_all
  loop_examines_all(ctx, 'C12.hooks', 'config.find_unknown_references_hook',
                    lambda f_, n_: n_.kind == 'for' and '_iterate_flattened_values' in u(n_.ast.iter), 'unknown-reference hook')
  loop_examines_all(ctx, 'C12.hooks', 'config.find_missing_overrides_hook',
                    lambda f_, n_: n_.kind == 'test' and 'isinstance(' in u(n_.ast) and 'ConfigurableReference' in u(n_.ast), '%gin.REQUIRED hook')
  from .common import loop_source_unfiltered
  loop_source_unfiltered(ctx, 'C12.hooks', 'config.validate_macros_hook', 'config.iterate_references', 'macro reference')
  # ---- C12.hooks
  reg = ctx.func('config.register_finalize_hook')
  app = [c for c in walk_local(reg.node) if isinstance(c, ast.Call) and u(c.func) == '_FINALIZE_HOOKS.append']
  ctx.check(bool(app), 'C12.hooks', construct(reg), 'register_finalize_hook appends to the hook list finalize iterates',
            'register_finalize_hook no longer appends to _FINALIZE_HOOKS', reg.loc())
  # every registration adds one hook: the append is reached on every path, and nobody replaces or removes an entry
  g_r = prog.cfg(reg)
  app_nodes = [n for n in g_r.live_nodes() if any(u(c.func) == '_FINALIZE_HOOKS.append' and len(c.args) == 1 and reg.params and u(c.args[0]) == reg.params[0]
                                                 for c in calls_of_node(n))]
  w_r = witness(g_r, g_r.entry.id, [g_r.exit.id], avoid=[n.id for n in app_nodes]) if app_nodes else [g_r.entry.id, g_r.exit.id]
  ctx.check(w_r is None, 'C12.hooks', construct(reg), 'every call of register_finalize_hook appends the hook it was given',
            'register_finalize_hook can return without appending the hook (a hook that looks like one already registered replaces it or is dropped): '
            'finalize then does not run every registered hook, and two hooks updating the same parameter are no longer both seen',
            reg.loc(), instance='always-appends', path=describe_path(g_r, w_r) if w_r and app_nodes else None)
  from ..resolve import store_accesses as _sa
  _, acc_h = _sa(prog, 'config', ['_FINALIZE_HOOKS'])
  edits = [a for a in acc_h if a.kind in ('write', 'rebind') and a.func is not None and not (a.method == 'append' and a.func is reg)]
  ctx.check(not edits, 'C12.hooks', 'gin/config.py::_FINALIZE_HOOKS', 'the hook list is only ever appended to, by register_finalize_hook',
            'the hook list is also changed at %s (`%s`): registered hooks can be replaced or removed'
            % ((edits[0].loc(), edits[0].method or edits[0].kind) if edits else ('', '')),
            edits[0].loc() if edits else reg.loc(), sites=len(acc_h), instance='append-only')
  hooks = [f for f in ctx.ix.all_funcs(['config']) if 'register_finalize_hook' in f.decorator_names()]
  ctx.expect_at_least('built-in finalize hooks', len(hooks), 0)
  want = {
      'config.validate_macros_hook': 'unbound / unevaluated macros',
      'config.find_unknown_references_hook': 'references to unknown configurables',
      'config.find_missing_overrides_hook': 'parameters still set to %gin.REQUIRED',
  }
  for q, what in want.items():
    hf = ctx.ix.get(q)
    if hf is None:
      ctx.fail('C12.hooks', 'gin/config.py::' + q.split('.', 1)[1], 'built-in hook rejecting %s no longer exists' % what, 'gin/config.py')
      continue
    registered = hf in hooks
    raises = any(isinstance(n, ast.Raise) for n in walk_local(hf.node)) or \
        any(prog.resolve_call(hf, c) in prog.noreturn or prog.resolve_call(hf, c) == 'config.validate_reference'
            for c in walk_local(hf.node) if isinstance(c, ast.Call))
    ctx.check(registered and raises, 'C12.hooks', construct(hf),
              'built-in hook rejecting %s is registered and raises' % what,
              'built-in hook rejecting %s is %s' % (what, 'not registered with finalize' if not registered else 'unable to raise'),
              hf.loc())


def hooks_atomic(ctx, rule):
  """finalize collects and validates every hook result before any is applied."""
  prog = ctx.prog
  atoms, writers, flag, _ = lock_model(ctx)
  ff = ctx.func('config.finalize')
  fcon = construct(ff)
  g, facts = lock_facts(ctx, ff, atoms, writers)
  hook_loops = [n for n in g.live_nodes() if n.kind == 'for' and '_FINALIZE_HOOKS' in u(n.ast.iter)]
  if not hook_loops:
    ctx.fail(rule, fcon, 'finalize no longer iterates the registered hooks', ff.loc(), instance='collect-then-apply')
    return
  loop_st = hook_loops[0].ast
  bind_nodes = nodes_calling(prog, ff, g, 'config.bind_parameter')
  parse_nodes = nodes_calling(prog, ff, g, 'config.ParsedBindingKey.parse')
  # no store write inside the hook/validation loop
  inside = [n for n in bind_nodes if in_subtree(n.ast, loop_st)]
  ctx.check(not inside and bind_nodes, rule, fcon,
            'hook results are collected and validated first; bindings are applied in a separate later loop '
            '(a rejection leaves the configuration unmodified)',
            'bind_parameter is called inside the hook loop (line %d): a later hook rejecting would leave earlier '
            'updates applied' % (inside[0].lineno if inside else 0) if inside else 'finalize no longer applies hook results',
            ff.loc(inside[0].ast) if inside else ff.loc(), instance='collect-then-apply')
  # no hook / key validation can run after the first bind
  for bn in bind_nodes:
    reach = g.reachable_from(bn.id)
    late = [n for n in parse_nodes if n.id in reach] + \
           [n for n in g.live_nodes() if n.id in reach and n.kind == 'raise_stmt']
    ctx.check(not late, rule, fcon, 'no key validation or rejection follows the first applied binding',
              'validation `%s` (line %d) can run after a binding has been applied' %
              (late[0].text(), late[0].lineno) if late else '', ff.loc(bn.ast), instance='apply-after-validate')
