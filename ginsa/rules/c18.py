"""C18 Shared records stay consistent under threads; singletons constructed once."""
import ast

from ..core import AnalysisError, u, walk_local, enclosing_stmt, ancestors, FuncNode
from ..lib import construct, in_subtree, copy_kind, single_reaching_value
from ..resolve import store_accesses, enclosing_withs, in_with_body, module_stores


def lock_names(ctx):
  """Module-level threading locks of config.py: name -> 'Lock' | 'RLock'."""
  m = ctx.ix.module('config')
  out = {}
  for name, lst in m.assigns.items():
    v = lst[0][1]
    if isinstance(v, ast.Call) and u(v.func) in ('threading.Lock', 'threading.RLock'):
      out[name] = u(v.func).split('.')[1]
  return out


def _lock_call(st, locks, attr):
  if isinstance(st, ast.Expr) and isinstance(st.value, ast.Call) and isinstance(st.value.func, ast.Attribute) and st.value.func.attr == attr \
      and isinstance(st.value.func.value, ast.Name) and st.value.func.value.id in locks:
    return st.value.func.value.id
  return None


def held_locks(node, locks):
  held = []
  for w in enclosing_withs(node):
    if in_with_body(node, w):
      for it in w.items:
        if isinstance(it.context_expr, ast.Name) and it.context_expr.id in locks:
          held.append((it.context_expr.id, w))
  # explicit L.acquire() ... L.release() in a statement list around the node (whether the release is reached on every path
  # is the business of the `acquire-released` obligation)
  cur = node
  while cur is not None and not isinstance(cur, FuncNode):
    par = getattr(cur, 'parent', None)
    if isinstance(cur, ast.stmt) and par is not None:
      for fld in ('body', 'orelse', 'finalbody'):
        lst = getattr(par, fld, None)
        if isinstance(lst, list) and any(x is cur for x in lst):
          idx = [i for i, x in enumerate(lst) if x is cur][0]
          for prev in reversed(lst[:idx]):
            if _lock_call(prev, locks, 'release'):
              break
            nm = _lock_call(prev, locks, 'acquire')
            if nm:
              held.append((nm, prev))
              break
    cur = par
  return held


def in_section(n, w):
  """n lies in the critical section opened by w: the body of a `with`, or the statements between an explicit acquire() and the release()."""
  if not isinstance(w, ast.Expr):
    return in_subtree(n, w)
  par = getattr(w, 'parent', None)
  for fld in ('body', 'orelse', 'finalbody'):
    lst = getattr(par, fld, None)
    if isinstance(lst, list) and any(x is w for x in lst):
      idx = [i for i, x in enumerate(lst) if x is w][0]
      for st in lst[idx + 1:]:
        if isinstance(st, ast.Expr) and isinstance(st.value, ast.Call) and isinstance(st.value.func, ast.Attribute) and st.value.func.attr == 'release' \
            and u(st.value.func.value) == u(w.value.func.value):
          return False
        if in_subtree(n, st):
          return True
  return False


def explicit_acquires(ctx, locks, rule):
  """A lock taken with L.acquire() is released on every path out of the function, exceptions included."""
  from ..cfg import witness, describe_path
  prog = ctx.prog
  n_acq = 0
  for f in ctx.ix.all_funcs(['config']):
    if not hasattr(f, 'node') or isinstance(f.node, ast.ClassDef):
      continue
    acqs = [c for c in walk_local(f.node) if isinstance(c, ast.Call) and isinstance(c.func, ast.Attribute) and c.func.attr == 'acquire'
            and isinstance(c.func.value, ast.Name) and c.func.value.id in locks]
    if not acqs:
      continue
    g = prog.cfg(f, may_raise=lambda n_: any(isinstance(x_, ast.Call) for x_ in ast.walk(n_)), cache_key='any-call-raises')
    from ..lib import calls_of_node
    for c in acqs:
      n_acq += 1
      L = c.func.value.id
      an = [n for n in g.live_nodes() if any(x is c for x in calls_of_node(n))]
      rel = [n.id for n in g.live_nodes() if any(isinstance(x.func, ast.Attribute) and x.func.attr == 'release' and u(x.func.value) == L for x in calls_of_node(n))]
      leak = None
      for a in an:
        for b, k in g.succ[a.id]:
          if k == 'exc':
            continue          # acquire() itself failing leaves nothing held
          for goal, name in ((g.exit.id, 'a normal exit'), (g.raise_exit.id, 'an exception')):
            w = witness(g, b, [goal], avoid=rel) if b not in rel else None
            if w and leak is None:
              leak = (name, w)
      is_gen = any(isinstance(x, (ast.Yield, ast.YieldFrom)) for x in walk_local(f.node))
      ctx.check(leak is None, rule, construct(f), '%s.acquire() is followed by a release on every path, exceptions included' % L,
                '%s is taken with acquire() and not released when the function is left by %s%s: every later configurable call or '
                'read of the record, in any thread, then blocks for ever' % (L, leak[0] if leak else '', ' (the body of the `with` block run at `yield` raising)' if is_gen else ''),
                f.loc(c), instance='acquire-released:' + f.name, path=describe_path(g, leak[1]) if leak else None)
  return n_acq


def run(ctx):
  prog = ctx.prog
  ctx.assume('T2', 'T8')
  locks = lock_names(ctx)
  stores, acc = store_accesses(prog, 'config', ['_OPERATIVE_CONFIG', '_SINGLETONS'])

  from .common import factory_state_rule
  factory_state_rule(ctx, 'C18.lockset')
  ctx.section(explicit_acquires, ctx, locks, 'C18.lockset')
  # ---- C18.lockset
  op = [a for a in acc if a.store == '_OPERATIVE_CONFIG' and a.kind != 'init']
  ctx.expect_at_least('access sites of the operative record', len(op), 2)
  rec_lock = None
  for a in op:
    if a.func is None:
      continue
    f = a.func
    held = held_locks(a.node, locks)
    inst = '%s@%s' % (a.method or a.kind, f.name)
    if not held:
      ctx.fail('C18.lockset', construct(f),
               'the operative record is accessed (%s) without its lock: a concurrent call can update it while it is '
               'being iterated / cleared (RuntimeError: dictionary changed size, or a half-updated entry is read)'
               % (a.method or a.kind), f.loc(a.node), instance=inst)
      continue
    name, w = held[-1]
    if rec_lock is None:
      rec_lock = name
    ok = name == rec_lock
    # aliases of the record (or of an entry) must not be used outside the with
    leaks = []
    st = enclosing_stmt(a.node)
    if isinstance(st, ast.Assign) and len(st.targets) == 1 and isinstance(st.targets[0], ast.Name) \
        and copy_kind(st.value) in ('ALIAS', 'CALL') and a.kind != 'escape' or \
        (isinstance(st, ast.Assign) and isinstance(st.targets[0], ast.Name) and a.method in ('setdefault', '__getitem__', 'get')):
      alias = st.targets[0].id
      for n in walk_local(f.node):
        if isinstance(n, ast.Name) and n.id == alias and n is not st.targets[0] and not in_section(n, w):
          leaks.append(n)
    # passed to a callee: the result must be a fresh str, the callee must not store the argument
    if a.kind == 'escape' and a.method and a.method.startswith('arg:'):
      call = a.node.parent
      q = prog.resolve_call(f, call)
      if q != 'config._config_str':
        leaks.append(a.node)
    ctx.check(ok and not leaks, 'C18.lockset', construct(f),
              'access (%s) under `with %s`; no alias of the record is used outside the critical section' % (a.method or a.kind, name),
              'access (%s) %s' % (a.method or a.kind, 'under a different lock (%s vs %s)' % (name, rec_lock) if not ok else
                                  'leaks an alias of the record out of the critical section at line %s' % (leaks[0].lineno if leaks else '?')),
              f.loc(a.node), instance=inst)
  # _config_str hands back a str, and nothing reachable from it re-takes the lock
  cs = ctx.func('config._config_str')
  rets = [n for n in walk_local(cs.node) if isinstance(n, ast.Return) and n.value is not None]
  ok = bool(rets) and all(copy_kind(r.value) == 'FRESH' for r in rets)
  ctx.check(ok, 'C18.lockset', construct(cs), 'the value leaving the critical section is a freshly built str',
            '_config_str returns `%s`, not a fresh string' % [u(r.value) for r in rets], cs.loc(), instance='result')
  if rec_lock:
    takers = set()
    for f in ctx.ix.all_funcs(['config']):
      for n in walk_local(f.node):
        if isinstance(n, ast.With) and any(isinstance(i.context_expr, ast.Name) and i.context_expr.id == rec_lock for i in n.items):
          takers.add(f.qual)
    reach = prog.reachable(['config._config_str'])
    re = sorted(takers & reach)
    ctx.check(not re or locks.get(rec_lock) == 'RLock', 'C18.lockset', construct(cs),
              'no repository function reachable from the serialiser re-takes the (non re-entrant) record lock',
              'serialising under the lock reaches %s which takes the same non re-entrant lock: self-deadlock' % re,
              cs.loc(), sites=len(reach), instance='no-reentry')
  # the serialiser, when handed the shared record, is called under the lock at every call site
  for cf, cn in prog.call_sites_of('config._config_str'):
    if cn.args and u(cn.args[0]) == '_OPERATIVE_CONFIG':
      pass  # covered by the escape access above
  ctx.note('user-defined __repr__/__eq__ executed while the record lock is held are outside the analysis')

  from .common import record_before_call
  record_before_call(ctx, 'C18.lockset')
  # ---- C18.once
  sv = ctx.func('config.singleton_value')
  sa = [a for a in acc if a.store == '_SINGLETONS' and a.func is sv]
  ctx.expect_at_least('accesses to the singleton cache in singleton_value', len(sa), 2)
  ctor_calls = [c for c in walk_local(sv.node) if isinstance(c, ast.Call) and isinstance(c.func, ast.Name)
                and c.func.id in sv.params and c.func.id != sv.params[0]]
  tests = [a for a in sa if a.method == 'compare' or a.method in ('get', '__getitem__')]
  stores_ = [a for a in sa if a.kind == 'write']
  crit = tests[:1] + stores_
  sections = []
  for a in crit:
    h = held_locks(a.node, locks)
    sections.append(h[-1] if h else None)
  for c in ctor_calls:
    h = held_locks(c, locks)
    sections.append(h[-1] if h else None)
  one = bool(sections) and all(s is not None for s in sections) and len({id(s[1]) for s in sections}) == 1
  lname = sections[0][0] if one else None
  if one and locks.get(lname) != 'RLock':
    ctx.fail('C18.once', construct(sv),
             'the critical section uses a non re-entrant lock while calling the user constructor: a constructor that itself '
             'uses a singleton deadlocks', sv.loc(), instance='reentrant')
  elif one and lname == rec_lock:
    ctx.fail('C18.once', construct(sv), 'the singleton section holds the operative-record lock while running user code', sv.loc(),
             instance='separate-lock')
  else:
    ctx.check(one, 'C18.once', construct(sv),
              'the membership test, the constructor call and the store form one critical section (`with %s`)' % lname,
              'the membership test, the constructor call and the store of the singleton cache are not one critical section '
              '(no lock is held): two threads that use a singleton for the first time can both pass the test and both construct, '
              'and each receives a different object', sv.loc(sa[0].node), sites=len(sections), instance='check-then-act')

  # ---- C18.key
  sg = ctx.func('config.singleton')
  calls = [c for c in walk_local(sg.node) if isinstance(c, ast.Call) and prog.resolve_call(sg, c) == sv.qual]
  ok = len(calls) == 1 and calls[0].args and isinstance(calls[0].args[0], ast.Call) and \
      prog.resolve_call(sg, calls[0].args[0]) == 'config.current_scope_str'
  ctx.check(ok, 'C18.key', construct(sg), 'the singleton key is the active scope string', 'the singleton key is no longer the active scope string',
            sg.loc())
  rets = [r for r in walk_local(sv.node) if isinstance(r, ast.Return) and r.value is not None]
  ok = bool(rets) and all(u(r.value) == '_SINGLETONS[%s]' % sv.params[0] for r in rets)
  ctx.check(ok, 'C18.key', construct(sv), 'every use returns the cached object under the key it was stored with',
            'singleton_value returns %s' % [u(r.value) for r in rets], sv.loc(), instance='returns-cached')
  cc = ctx.func('config.clear_config')
  cl = [a for a in acc if a.store == '_SINGLETONS' and a.func is cc and a.method == 'clear']
  from ..cfg import witness as _wit
  gcc = prog.cfg(cc)
  cln = [n for a in cl for n in gcc.nodes_for(enclosing_stmt(a.node))]
  always = bool(cln) and _wit(gcc, gcc.entry.id, [gcc.exit.id], avoid=[n.id for n in cln]) is None
  ctx.check(always, 'C18.key', construct(cc), 'clear_config forgets cached singletons on every path',
            'clear_config does not clear the singleton cache on every path (e.g. only with clear_constants, or only when bindings exist): a later '
            'configuration receives the old object', cc.loc(), instance='cleared')
  from .common import lock_order
  lock_order(ctx, 'C18.lock-order')
