"""Semantics-preserving AST normalisation run before any rule (robustness to
behaviour-preserving restructuring; DESIGN.md 11.6).

  inline_new_helpers   calls to functions that do not exist on the reference
                       tree (helpers *extracted* from a function the rules know)
                       are inlined back at their call sites
  idioms               a few equivalent spellings are rewritten to the one the
                       rules are written against:
                         with ExitStack() as s: s.callback(f, *a); BODY   -> try: BODY finally: f(*a)
                         with ExitStack() as s: [x =] s.enter_context(cm); BODY -> with cm [as x]: BODY
                         L.acquire(); try: BODY finally: L.release()        -> with L: BODY
                         x = {**a, **b}                                     -> x = a.copy(); x.update(b)
                         if k not in d: d[k] = v ; x = d[k]                 -> x = d.setdefault(k, v)

Everything here produces ordinary Python AST, so the rest of the engine is
unaware of it.  Nothing is executed.
"""
import ast
import copy
import json
import os

FN = (ast.FunctionDef, ast.AsyncFunctionDef)
TABLE = os.path.join(os.path.dirname(os.path.abspath(__file__)), 'canon_names.json')
_ref_cache = None


def reference_functions():
  global _ref_cache
  if _ref_cache is None:
    try:
      with open(TABLE) as f:
        t = json.load(f)
      _ref_cache = {m: set(v) for m, v in t.items()}
    except Exception:
      _ref_cache = {}
  return _ref_cache


# ----------------------------------------------------------------------------
# helpers


def _bodies(node):
  """Yields (owner, fieldname, list) for every statement list under node."""
  for n in ast.walk(node):
    for fld in ('body', 'orelse', 'finalbody'):
      b = getattr(n, fld, None)
      if isinstance(b, list) and b and isinstance(b[0], ast.stmt):
        yield n, fld, b
    if isinstance(n, ast.Try):
      for h in n.handlers:
        yield h, 'body', h.body


def _names_stored(node):
  out = set()
  for n in ast.walk(node):
    if isinstance(n, ast.Name) and isinstance(n.ctx, (ast.Store, ast.Del)):
      out.add(n.id)
    elif isinstance(n, ast.ExceptHandler) and n.name:
      out.add(n.name)
    elif isinstance(n, FN + (ast.ClassDef,)):
      out.add(n.name)
  return out


def _all_names(node):
  return {n.id for n in ast.walk(node) if isinstance(n, ast.Name)}


def _simple(e):
  if isinstance(e, (ast.Name, ast.Constant)):
    return True
  if isinstance(e, ast.Attribute):
    return _simple(e.value)
  return False


def _returns_in_loops(fn):
  def rec(stmts, in_loop):
    for st in stmts:
      if isinstance(st, ast.Return) and in_loop:
        return True
      if isinstance(st, FN + (ast.ClassDef,)):
        continue
      loop = in_loop or isinstance(st, (ast.For, ast.While))
      for fld in ('body', 'orelse', 'finalbody'):
        if rec(getattr(st, fld, []) or [], loop if fld == 'body' else in_loop):
          return True
      for h in getattr(st, 'handlers', []) or []:
        if rec(h.body, in_loop):
          return True
    return False
  return rec(fn.body, False)


def _has_yield(fn):
  for n in ast.walk(fn):
    if isinstance(n, (ast.Yield, ast.YieldFrom)):
      return True
  return False


class _Subst(ast.NodeTransformer):

  def __init__(self, mapping, renames):
    self.mapping = mapping      # param -> expr (substituted)
    self.renames = renames      # local -> new name

  def visit_Name(self, n):
    if n.id in self.mapping and isinstance(n.ctx, ast.Load):
      return copy.deepcopy(self.mapping[n.id])
    if n.id in self.renames:
      return ast.copy_location(ast.Name(id=self.renames[n.id], ctx=n.ctx), n)
    return n

  def visit_FunctionDef(self, n):
    return n     # do not descend into nested defs of the helper

  def visit_Lambda(self, n):
    return n


def _can_fall_through(stmts):
  if not stmts:
    return True
  last = stmts[-1]
  if isinstance(last, (ast.Return, ast.Raise)):
    return False
  if isinstance(last, ast.If):
    return _can_fall_through(last.body) or _can_fall_through(last.orelse)
  return True


def _replace_returns(stmts, make):
  """Replaces `return e` by make(e) (a list of statements), not inside nested defs."""
  out = []
  for st in stmts:
    if isinstance(st, ast.Return):
      out.extend(make(st.value, st))
      continue
    if not isinstance(st, FN + (ast.ClassDef,)):
      for fld in ('body', 'orelse', 'finalbody'):
        b = getattr(st, fld, None)
        if isinstance(b, list):
          setattr(st, fld, _replace_returns(b, make))
      for h in getattr(st, 'handlers', []) or []:
        h.body = _replace_returns(h.body, make)
    out.append(st)
  return out


def _count_returns(stmts):
  n = 0
  for st in stmts:
    for x in ast.walk(st):
      if isinstance(x, ast.Return):
        n += 1
  return n


# ----------------------------------------------------------------------------
# inlining


class Inliner:

  def __init__(self, tree, modname):
    self.tree = tree
    self.modname = modname
    ref = reference_functions().get(modname)
    self.ref = ref
    self.funcs = {}       # name -> FunctionDef (module level)
    self.methods = {}     # class name -> {name: FunctionDef}
    for st in tree.body:
      if isinstance(st, ast.FunctionDef):
        self.funcs[st.name] = st
      elif isinstance(st, ast.ClassDef):
        self.methods[st.name] = {m.name: m for m in st.body if isinstance(m, ast.FunctionDef)}
    self.count = 0

  def is_new(self, qual):
    return self.ref is not None and qual not in self.ref

  def _callee(self, call, cls):
    f = call.func
    if isinstance(f, ast.Name) and f.id in self.funcs:
      q = '%s.%s' % (self.modname, f.id)
      if self.is_new(q):
        return self.funcs[f.id], None
    if isinstance(f, ast.Attribute) and isinstance(f.value, ast.Name) and f.value.id in ('self', 'cls') and cls is not None:
      m = self.methods.get(cls.name, {}).get(f.attr)
      if m is not None and self.is_new('%s.%s.%s' % (self.modname, cls.name, f.attr)):
        return m, f.value
    return None, None

  def _inlinable(self, fn):
    a = fn.args
    if a.vararg or a.kwarg or _has_yield(fn) or isinstance(fn, ast.AsyncFunctionDef):
      return False
    decs = [ast.unparse(d) for d in fn.decorator_list]
    if any(d not in ('staticmethod',) for d in decs):
      return False
    if _returns_in_loops(fn):
      return False
    for n in ast.walk(fn):
      if isinstance(n, ast.Call) and isinstance(n.func, ast.Name) and n.func.id == fn.name:
        return False
      if isinstance(n, (ast.Global, ast.Nonlocal)):
        return False
    return True

  def _bind(self, fn, call, selfexpr, caller_names):
    a = fn.args
    params = [x.arg for x in a.posonlyargs + a.args]
    is_static = any(ast.unparse(d) == 'staticmethod' for d in fn.decorator_list)
    argv = list(call.args)
    if selfexpr is not None and not is_static:
      argv = [selfexpr] + argv
    if any(isinstance(x, ast.Starred) for x in argv) or any(k.arg is None for k in call.keywords):
      return None
    if len(argv) > len(params):
      return None
    bound = dict(zip(params, argv))
    kwonly = [x.arg for x in a.kwonlyargs]
    for k in call.keywords:
      if k.arg in params or k.arg in kwonly:
        if k.arg in bound:
          return None
        bound[k.arg] = k.value
      else:
        return None
    defaults = dict(zip(params[len(params) - len(a.defaults):], a.defaults))
    defaults.update({n: d for n, d in zip(kwonly, a.kw_defaults) if d is not None})
    for p in params + kwonly:
      if p not in bound:
        if p in defaults:
          bound[p] = defaults[p]
        else:
          return None
    stored = _names_stored(ast.Module(body=fn.body, type_ignores=[]))
    mapping, pre, renames = {}, [], {}
    for p, e in bound.items():
      if _simple(e) and p not in stored:
        mapping[p] = e
      else:
        nm = p if (p not in caller_names or (isinstance(e, ast.Name) and e.id == p)) else p + '__in'
        if isinstance(e, ast.Name) and e.id == nm:
          pass      # x = x : nothing to do, same name
        else:
          pre.append(ast.Assign(targets=[ast.Name(id=nm, ctx=ast.Store())], value=copy.deepcopy(e)))
        if nm != p:
          renames[p] = nm
    for loc in stored:
      if loc in bound:
        continue
      if loc in caller_names:
        renames[loc] = loc + '__in'
    return mapping, pre, renames

  def _expand(self, st, cls, caller_fn):
    """Returns replacement statement list for st, or None."""
    call = None
    kind = None
    if isinstance(st, ast.Expr) and isinstance(st.value, ast.Call):
      call, kind = st.value, 'expr'
    elif isinstance(st, ast.Assign) and len(st.targets) == 1 and isinstance(st.value, ast.Call):
      call, kind = st.value, 'assign'
    elif isinstance(st, ast.Return) and isinstance(st.value, ast.Call):
      call, kind = st.value, 'return'
    if call is None:
      return None
    fn, selfexpr = self._callee(call, cls)
    if fn is None or fn is caller_fn or not self._inlinable(fn):
      return None
    caller_names = _all_names(caller_fn) if caller_fn is not None else set()
    b = self._bind(fn, call, selfexpr, caller_names)
    if b is None:
      return None
    mapping, pre, renames = b
    body = copy.deepcopy(fn.body)
    if body and isinstance(body[0], ast.Expr) and isinstance(body[0].value, ast.Constant) and isinstance(body[0].value.value, str):
      body = body[1:]
    sub = _Subst(mapping, renames)
    body = [sub.visit(s) for s in body]
    if kind == 'return':
      new = pre + body
      if _can_fall_through(body):
        new.append(ast.Return(value=ast.Constant(value=None)))
    else:
      target = st.targets[0] if kind == 'assign' else None
      nret = _count_returns(body)
      single_tail = nret == 0 or (nret == 1 and isinstance(body[-1], ast.Return))

      def make(value, orig, loop):
        out = []
        if target is not None:
          out.append(ast.Assign(targets=[copy.deepcopy(target)], value=value if value is not None else ast.Constant(value=None)))
        elif value is not None and not isinstance(value, (ast.Constant, ast.Name)):
          out.append(ast.Expr(value=value))
        if loop:
          out.append(ast.Break())
        return out or ([ast.Pass()] if not loop else [])

      if single_tail:
        body = _replace_returns(body, lambda v, o: make(v, o, False))
        if nret == 0 and target is not None:
          body.append(ast.Assign(targets=[copy.deepcopy(target)], value=ast.Constant(value=None)))
        new = pre + (body or [ast.Pass()])
      else:
        body = _replace_returns(body, lambda v, o: make(v, o, True))
        if _can_fall_through(body):
          body.extend(make(None, None, True))
        new = pre + [ast.While(test=ast.Constant(value=True), body=body, orelse=[])]
    for s in new:
      ast.copy_location(s, st)
      for x in ast.walk(s):
        if not hasattr(x, 'lineno'):
          ast.copy_location(x, st)
    self.count += 1
    return new

  def run(self, rounds=4):
    for _ in range(rounds):
      changed = False
      for owner_fn, cls in self._functions():
        for node, fld, body in list(_bodies(owner_fn)):
          # do not touch bodies of nested function definitions here (handled as their own owner)
          i = 0
          while i < len(body):
            st = body[i]
            if isinstance(st, FN + (ast.ClassDef,)):
              i += 1
              continue
            # hoist `if H(...):` / `if not H(...):`
            if isinstance(st, ast.If):
              t = st.test.operand if isinstance(st.test, ast.UnaryOp) and isinstance(st.test.op, ast.Not) else st.test
              if isinstance(t, ast.Call):
                fn, _s = self._callee(t, cls)
                if fn is not None and fn is not owner_fn and self._inlinable(fn):
                  tmp = ast.Name(id='__t_%s' % fn.name.lstrip('_'), ctx=ast.Store())
                  asg = ast.copy_location(ast.Assign(targets=[tmp], value=t), st)
                  load = ast.Name(id=tmp.id, ctx=ast.Load())
                  st.test = ast.UnaryOp(op=ast.Not(), operand=load) if t is not st.test else load
                  body.insert(i, asg)
                  st = asg
            new = self._expand(st, cls, owner_fn)
            if new is not None:
              body[i:i + 1] = new
              changed = True
              i += len(new)
            else:
              i += 1
      if not changed:
        break
    return self.count

  def _functions(self):
    out = []
    for st in self.tree.body:
      if isinstance(st, ast.FunctionDef):
        out.append((st, None))
        for n in ast.walk(st):
          if isinstance(n, ast.FunctionDef) and n is not st:
            out.append((n, None))
      elif isinstance(st, ast.ClassDef):
        for m in st.body:
          if isinstance(m, ast.FunctionDef):
            out.append((m, st))
            for n in ast.walk(m):
              if isinstance(n, ast.FunctionDef) and n is not m:
                out.append((n, st))
    # only functions that exist on the reference tree get helpers inlined into them
    return out


# ----------------------------------------------------------------------------
# idioms


def _is_exitstack(item):
  ce = item.context_expr
  return isinstance(ce, ast.Call) and ast.unparse(ce.func) in ('contextlib.ExitStack', 'ExitStack') and not ce.args \
      and isinstance(item.optional_vars, ast.Name)


def _rewrite_exitstack(body_list):
  changed = 0
  i = 0
  while i < len(body_list):
    st = body_list[i]
    if isinstance(st, ast.With) and len(st.items) == 1 and _is_exitstack(st.items[0]):
      s = st.items[0].optional_vars.id
      inner = list(st.body)
      # the stack variable must only be used by leading callback / enter_context statements
      lead = []
      while inner:
        x = inner[0]
        c = x.value if isinstance(x, (ast.Expr, ast.Assign)) else None
        if isinstance(c, ast.Call) and isinstance(c.func, ast.Attribute) and isinstance(c.func.value, ast.Name) and c.func.value.id == s \
            and c.func.attr in ('callback', 'enter_context') and not c.keywords and c.args:
          lead.append(inner.pop(0))
        else:
          break
      still = any(isinstance(n, ast.Name) and n.id == s for x in inner for n in ast.walk(x))
      if lead and not still:
        new = inner or [ast.Pass()]
        for x in reversed(lead):
          c = x.value
          if c.func.attr == 'callback':
            call = ast.Call(func=c.args[0], args=list(c.args[1:]), keywords=[])
            new = [ast.Try(body=new, handlers=[], orelse=[], finalbody=[ast.Expr(value=call)])]
          else:
            var = x.targets[0] if isinstance(x, ast.Assign) else None
            new = [ast.With(items=[ast.withitem(context_expr=c.args[0], optional_vars=var)], body=new)]
        for n in new:
          ast.copy_location(n, st)
          ast.fix_missing_locations(n)
        body_list[i:i + 1] = new
        changed += 1
        continue
    i += 1
  return changed


def _rewrite_acquire(body_list):
  changed = 0
  i = 0
  while i + 1 < len(body_list):
    a, t = body_list[i], body_list[i + 1]
    if isinstance(a, ast.Expr) and isinstance(a.value, ast.Call) and isinstance(a.value.func, ast.Attribute) and a.value.func.attr == 'acquire' \
        and not a.value.args and not a.value.keywords and isinstance(t, ast.Try) and not t.handlers and not t.orelse and len(t.finalbody) == 1:
      f = t.finalbody[0]
      if isinstance(f, ast.Expr) and isinstance(f.value, ast.Call) and isinstance(f.value.func, ast.Attribute) and f.value.func.attr == 'release' \
          and ast.unparse(f.value.func.value) == ast.unparse(a.value.func.value):
        w = ast.With(items=[ast.withitem(context_expr=a.value.func.value, optional_vars=None)], body=t.body)
        ast.copy_location(w, a)
        ast.fix_missing_locations(w)
        body_list[i:i + 2] = [w]
        changed += 1
        continue
    i += 1
  return changed


def _rewrite_dict_merge(body_list):
  changed = 0
  i = 0
  while i < len(body_list):
    st = body_list[i]
    if isinstance(st, ast.Assign) and len(st.targets) == 1 and isinstance(st.targets[0], ast.Name) and isinstance(st.value, ast.Dict) \
        and len(st.value.keys) == 2 and all(k is None for k in st.value.keys) and all(_simple(v) for v in st.value.values):
      x = st.targets[0].id
      a, b = st.value.values
      if not (isinstance(a, ast.Name) and a.id == x) and not (isinstance(b, ast.Name) and b.id == x):
        s1 = ast.Assign(targets=[ast.Name(id=x, ctx=ast.Store())],
                        value=ast.Call(func=ast.Attribute(value=a, attr='copy', ctx=ast.Load()), args=[], keywords=[]))
        s2 = ast.Expr(value=ast.Call(func=ast.Attribute(value=ast.Name(id=x, ctx=ast.Load()), attr='update', ctx=ast.Load()), args=[b], keywords=[]))
        for s in (s1, s2):
          ast.copy_location(s, st)
          ast.fix_missing_locations(s)
        body_list[i:i + 1] = [s1, s2]
        changed += 1
        i += 2
        continue
    i += 1
  return changed


def _rewrite_setdefault(body_list):
  changed = 0
  i = 0
  while i + 1 < len(body_list):
    a, b = body_list[i], body_list[i + 1]
    if isinstance(a, ast.If) and not a.orelse and len(a.body) == 1 and isinstance(a.test, ast.Compare) and len(a.test.ops) == 1 \
        and isinstance(a.test.ops[0], ast.NotIn) and isinstance(a.body[0], ast.Assign) and len(a.body[0].targets) == 1 \
        and isinstance(a.body[0].targets[0], ast.Subscript):
      k, d = a.test.left, a.test.comparators[0]
      sub = a.body[0].targets[0]
      if ast.unparse(sub.value) == ast.unparse(d) and ast.unparse(sub.slice) == ast.unparse(k) \
          and isinstance(b, ast.Assign) and len(b.targets) == 1 and isinstance(b.value, ast.Subscript) \
          and ast.unparse(b.value.value) == ast.unparse(d) and ast.unparse(b.value.slice) == ast.unparse(k):
        call = ast.Call(func=ast.Attribute(value=d, attr='setdefault', ctx=ast.Load()), args=[k, a.body[0].value], keywords=[])
        new = ast.Assign(targets=b.targets, value=call)
        ast.copy_location(new, a)
        ast.fix_missing_locations(new)
        body_list[i:i + 2] = [new]
        changed += 1
        continue
    i += 1
  return changed


def idioms(tree):
  n = 0
  for _ in range(3):
    c = 0
    for owner, fld, body in list(_bodies(tree)):
      c += _rewrite_exitstack(body)
      c += _rewrite_acquire(body)
      c += _rewrite_dict_merge(body)
      c += _rewrite_setdefault(body)
    n += c
    if not c:
      break
  return n


def normalize(tree, modname):
  """Returns (helpers_inlined, idioms_rewritten)."""
  if os.environ.get('GINSA_NO_NORMALIZE'):
    return 0, 0
  a = Inliner(tree, modname).run()
  b = idioms(tree)
  ast.fix_missing_locations(tree)
  return a, b
