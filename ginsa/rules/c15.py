"""C15 skip_unknown drops exactly the statements that target unknown names."""
import ast

from ..cfg import witness
from ..core import AnalysisError, u, walk_local, enclosing_stmt
from ..lib import (construct, std_facts, def_of, facts_at, calls_of_node,
                   returns_of, in_subtree, kwarg)

from .common import allowed_stores, instance_state

SKIP = 'config._should_skip'
RESOLVER = 'config.ParseContext.get_configurable'


def run(ctx):
  prog = ctx.prog
  ss = ctx.func(SKIP)
  con = construct(ss)
  allowed_stores(ctx, 'C15.known-first', {SKIP: {'_REGISTRY'}, 'config._validate_skip_unknown': set()},
                 '"known" must be decided against the registry as it is now; a remembered "unknown" verdict drops bindings of configurables registered later')
  instance_state(ctx, 'C15.forward', 'config.ParserDelegate', {'_skip_unknown'}, 'the delegate only carries the option')
  g, facts = std_facts(prog, ss)
  rets = [n for n in g.live_nodes() if n.kind == 'return']
  ctx.expect_at_least('returns of _should_skip', len(rets), 1)
  # the "known" test: the condition under which False is returned
  known_test = None
  for n in g.live_nodes():
    if n.kind == 'test':
      t_succ = [b for b, k in g.succ[n.id] if k == 'T']
      if t_succ and g.nodes[t_succ[0]].kind == 'return' and isinstance(g.nodes[t_succ[0]].ast.value, ast.Constant) \
          and g.nodes[t_succ[0]].ast.value.value is False:
        known_test = n
        break
  # ---- C15.known-first
  if known_test is None:
    ctx.fail('C15.known-first', con, 'no "known configurable => never skip" return is left in _should_skip', ss.loc(), instance='known')
    return
  kt = u(known_test.ast)
  others = [n for n in rets if not (isinstance(n.ast.value, ast.Constant) and n.ast.value.value is False)]
  ok = bool(others) and all(('c', kt, False) in facts[n.id] for n in others)
  ctx.check(ok, 'C15.known-first', con, 'the list / boolean decision is reached only for names that are not known: a known configurable is never skipped',
            'a skip decision (`%s`) can be taken before / without the known-name test: bindings of known configurables could be dropped'
            % [u(n.ast.value) for n in others if ('c', kt, False) not in facts[n.id]][:1], ss.loc(), instance='known')
  # after validation the option is a bool or a list/tuple/set: either type test, either way round, separates the two decisions
  def type_facts(n):
    is_bool = is_coll = None
    for fct in facts[n.id]:
      if fct[0] != 'c' or not fct[1].replace(' ', '').startswith('isinstance(%s,' % ss.params[1]):
        continue
      arg = fct[1].replace(' ', '')[len('isinstance(%s,' % ss.params[1]):-1]
      names = set(arg.strip('()').split(',')) - {''}
      if names == {'bool'}:
        is_bool = fct[2]
      elif names and names <= {'list', 'tuple', 'set', 'frozenset'}:
        is_coll = fct[2]
    return is_bool, is_coll
  member = '%sin%s' % (ss.params[0], ss.params[1])
  lists = [n for n in others if u(n.ast.value).replace(' ', '') == member]
  bools = [n for n in others if u(n.ast.value) == ss.params[1]]
  odd = [n for n in others if n not in lists and n not in bools]
  def as_coll(n):
    b, c = type_facts(n)
    return (c is True or b is False) and b is not True
  def as_bool(n):
    b, c = type_facts(n)
    return (b is True or c is False) and c is not True
  okl = bool(lists) and not odd and all(as_coll(n) for n in lists)
  ctx.check(okl, 'C15.known-first', con, 'with a list, an unknown name is skipped iff it is listed',
            'list-valued skip_unknown is no longer a membership test of the selector', ss.loc(), instance='list')
  ctx.check(bool(bools) and not odd and all(as_bool(n) for n in bools), 'C15.known-first', con, 'with a boolean, the flag decides for unknown names',
            'boolean skip_unknown is no longer returned as is', ss.loc(), instance='bool')
  val = [n for n in g.live_nodes() if any(prog.resolve_call(ss, c) == 'config._validate_skip_unknown' for c in calls_of_node(n))]
  okv = bool(val)
  where = 'in _should_skip itself'
  if not okv:
    # ... or by every caller, on every path to its call of _should_skip
    sites = prog.call_sites_of(ss.qual) if hasattr(prog, 'call_sites_of') else []
    okv = bool(sites)
    where = 'by every caller before it asks'
    for cf, call in sites:
      gc_, fc_ = std_facts(prog, cf)
      st_ = enclosing_stmt(call)
      fs_ = facts_at(gc_, fc_, st_)
      if fs_ is None:
        # the call sits in a branch condition: use the facts of the test node that contains it
        fs_ = frozenset()
        for cn in gc_.live_nodes():
          if cn.ast is not None and cn.kind == 'test' and in_subtree(call, cn.ast):
            fs_ = fc_[cn.id]
      if ('call', 'config._validate_skip_unknown') not in fs_:
        okv = False
  ctx.check(okv, 'C15.known-first', con, 'the option value is validated (%s)' % where,
            'skip_unknown is no longer validated (neither in _should_skip nor on every path of every caller)', ss.loc(), instance='validated')

  # ---- C15.same-notion
  known_calls = [c for c in ast.walk(known_test.ast) if isinstance(c, ast.Call)]
  via = [prog.resolve_call(ss, c) for c in known_calls]
  direct_registry = [c for c in known_calls if u(c.func).startswith('_REGISTRY.')]
  bp = ctx.func('config.ParsedBindingKey.parse')
  binder = [prog.resolve_call(bp, c) for c in walk_local(bp.node) if isinstance(c, ast.Call)]
  binder_uses_resolver = RESOLVER in binder
  same = RESOLVER in via or any(q and RESOLVER in prog.reachable([q]) for q in via if q and q.startswith('config.'))
  ctx.check(same or not binder_uses_resolver, 'C15.same-notion', con,
            'the "known" test used for skipping goes through the same resolver as binding (ParseContext.get_configurable)',
            'skipping decides "known" with `%s` (the static registry) while binding resolves names through ParseContext.get_configurable, '
            'which under dynamic registration resolves through the file\'s imports: with dynamic registration and skip_unknown=True a binding '
            'whose target is importable but not registered *yet* is silently dropped, and whether it is depends on what was parsed before' % kt,
            ss.loc(known_test.ast), instance='resolver')

  # ---- C15.consumer
  pc = ctx.func('config.parse_config')
  g2, facts2 = std_facts(prog, pc)
  binds = [n for n in g2.live_nodes() if any(prog.resolve_call(pc, c) == 'config.bind_parameter' for c in calls_of_node(n))]
  ctx.expect_at_least('bind sites in the statement consumer', len(binds), 1)
  for n in binds:
    fs = facts2[n.id]
    macro = ('c', 'arg_name', False) in fs
    skip_f = [fct for fct in fs if fct[0] == 'c' and fct[1].startswith('_should_skip(')]
    if macro:
      ctx.check(not skip_f, 'C15.consumer', construct(pc), 'macro definitions are always applied (never subject to skipping)',
                'macro definitions are applied only under %s' % skip_f, pc.loc(n.ast), instance='macro')
      n_macro = True
    else:
      ok = any(fct[2] is False and fct[1].replace(' ', '') == '_should_skip(selector,skip_unknown)' for fct in skip_f)
      ctx.check(ok, 'C15.consumer', construct(pc), 'a binding is applied iff its target is not skipped',
                'a parameter binding is applied without consulting _should_skip(selector, skip_unknown)', pc.loc(n.ast), instance='binding')
  blocks = [n for n in g2.live_nodes() if any(prog.resolve_call(pc, c) == RESOLVER for c in calls_of_node(n))]
  ok = bool(blocks) and all(any(fct[0] == 'c' and fct[2] is False and fct[1].replace(' ', '') == '_should_skip(statement.selector,skip_unknown)' for fct in facts2[n.id]) for n in blocks)
  ctx.check(ok, 'C15.consumer', construct(pc), 'a block header is checked iff its target is not skipped', 'block headers are checked regardless of skip_unknown (or never)', pc.loc(), instance='block')
  hs = [n for n in walk_local(pc.node) if isinstance(n, ast.ExceptHandler) and n.type is not None and 'ImportError' in u(n.type)]
  ok = bool(hs) and any(isinstance(s, ast.If) and u(s.test) == 'not skip_unknown' and isinstance(s.body[-1], ast.Raise) and s.body[-1].exc is None for s in hs[0].body)
  ctx.check(ok, 'C15.consumer', construct(pc), 'a failing import is swallowed only when skip_unknown is set', 'ImportError is swallowed unconditionally (or never)', pc.loc(hs[0]) if hs else pc.loc(), instance='import')

  # a skipped (missing) import leaves no trace in the configuration
  from ..resolve import store_accesses as _sa
  _, acc_i = _sa(prog, 'config', ['_IMPORTS'])
  for a_ in [x for x in acc_i if x.func is pc and x.kind == 'write' and x.method in ('add', 'update')]:
    fs_ = facts_at(g2, facts2, enclosing_stmt(a_.node)) or frozenset()
    ctx.check(('call', 'config.ParseContext.process_import') in fs_, 'C15.consumer', construct(pc), 'an import is recorded only after it was processed successfully',
              'an import statement is recorded before / without having been processed: the import of a missing module that skip_unknown skips is still '
              'recorded, so the result differs from the text without that import (config_str() then fails to import it)', pc.loc(a_.node), instance='skipped-import-untraced')
  # ---- C15.placeholder
  reference_delegate(ctx, 'C15.placeholder')
  uk = ctx.cls('config._UnknownConfigurableReference')
  dc = uk.methods.get('__deepcopy__')
  ctx.check(dc is not None and dc.qual in prog.noreturn, 'C15.placeholder', 'gin/config.py::_UnknownConfigurableReference.__deepcopy__',
            'using a placeholder (deep-copying it for a call) always raises', 'a placeholder can be deep-copied without raising: an unknown reference would be silently delivered',
            dc.loc() if dc else 'gin/config.py', instance='raises-on-use')
  hk = ctx.func('config.find_unknown_references_hook')
  g_hk, f_hk = std_facts(prog, hk)
  raises_on_placeholder = False
  for n in g_hk.live_nodes():
    if not any(prog.resolve_call(hk, c) in prog.noreturn for c in calls_of_node(n)) and n.kind != 'raise_stmt':
      continue
    for lp in [l for l in n.loops if isinstance(l, ast.For) and isinstance(l.target, ast.Name)]:
      flat = isinstance(lp.iter, ast.Call) and prog.resolve_call(hk, lp.iter) == 'config._iterate_flattened_values'
      if flat and ('c', 'isinstance(%s, _UnknownConfigurableReference)' % lp.target.id, True) in f_hk[n.id]:
        raises_on_placeholder = True
  ok = 'register_finalize_hook' in hk.decorator_names() and raises_on_placeholder
  ctx.check(ok, 'C15.placeholder', construct(hk), 'finalize rejects a placeholder at any nesting depth, naming the binding', 'the unknown-reference finalize hook no longer raises on placeholders at any depth', hk.loc(), instance='finalize')

  from .common import loop_examines_all
  loop_examines_all(ctx, 'C15.placeholder', 'config.find_unknown_references_hook',
                    lambda f_, n_: n_.kind == 'test' and '_UnknownConfigurableReference' in u(n_.ast) or
                    (n_.kind == 'for' and '_iterate_flattened_values' in u(n_.ast.iter)),
                    'placeholders are looked for in every binding, macros included')
  # ---- C15.forward
  cons = [c for c in walk_local(pc.node) if isinstance(c, ast.Call) and prog.resolve_call(pc, c) == 'config.ParserDelegate']
  ok = bool(cons) and all(len(c.args) == 1 and u(c.args[0]) == 'skip_unknown' for c in cons)
  ctx.check(ok, 'C15.forward', construct(pc), 'the parser delegate receives skip_unknown', 'the delegate is constructed without skip_unknown', pc.loc(), instance='delegate')
  di = ctx.func('config.ParserDelegate.__init__')
  ok = any(isinstance(n, ast.Assign) and u(n.targets[0]) == 'self._skip_unknown' and u(n.value) == di.params[1] for n in walk_local(di.node))
  ctx.check(ok, 'C15.forward', construct(di), 'the delegate stores it unchanged', 'the delegate no longer stores skip_unknown', di.loc(), instance='stored')
  norm = [n for n in g2.live_nodes() if n.kind == 'stmt' and isinstance(n.ast, ast.Assign) and u(n.ast.targets[0]) == 'skip_unknown']
  ok = all(u(n.ast.value) == 'set(skip_unknown)' and any(f[0] == 'c' and f[2] is True and f[1].startswith('isinstance(skip_unknown') for f in facts2[n.id]) for n in norm)
  ctx.check(ok, 'C15.forward', construct(pc), 'the only rewrite of the option is list/tuple -> set', 'skip_unknown is rewritten as %s' % [u(n.ast.value) for n in norm], pc.loc(), instance='normalised')


def reference_delegate(ctx, rule):
  """The parser delegate builds a placeholder iff the reference's *unscoped* selector is skipped."""
  prog = ctx.prog
  dr = ctx.func('config.ParserDelegate.configurable_reference')
  g3, facts3 = std_facts(prog, dr)
  okp = True
  n_r = 0
  for n in g3.live_nodes():
    if n.kind != 'return' or not isinstance(n.ast.value, ast.Call):
      continue
    n_r += 1
    q = prog.resolve_call(dr, n.ast.value)
    sk = [fct for fct in facts3[n.id] if fct[0] == 'c' and fct[1].startswith('_should_skip(')]
    if q == 'config._UnknownConfigurableReference':
      okp = okp and any(f[2] is True for f in sk)
    elif q == 'config.ConfigurableReference':
      okp = okp and any(f[2] is False for f in sk)
    else:
      okp = False
  ctx.check(okp and n_r >= 2, rule, construct(dr), 'the delegate builds a placeholder iff the reference target is skipped, a real reference otherwise',
            'the delegate no longer returns placeholder iff skipped', dr.loc(), instance='iff')
  sk_calls = [c for c in walk_local(dr.node) if isinstance(c, ast.Call) and prog.resolve_call(dr, c) == SKIP]
  ok = bool(sk_calls) and all(u(c.args[1]) == 'self._skip_unknown' for c in sk_calls)
  tests_ = [n for n in g3.live_nodes() if n.kind == 'test']
  uns = def_of(facts3[tests_[0].id], u(sk_calls[0].args[0])) if sk_calls and tests_ else None
  from ..lib import last_component_of
  whole = last_component_of(dr, facts3[tests_[0].id], sk_calls[0].args[0]) if sk_calls and tests_ else None
  if whole is not None and whole == dr.params[1]:
    uns = "scoped_selector.rsplit('/',1)[-1]"      # any spelling of "the last '/'-component of the reference text"
  ctx.check(ok and uns is not None and uns.replace(' ', '') == "scoped_selector.rsplit('/',1)[-1]", rule, construct(dr),
            'the decision uses the unscoped selector and the parser\'s skip_unknown', 'the skip decision for references uses `%s`' % uns, dr.loc(), instance='args')


def macro_always_applied(ctx, rule):
  """A valueless binding `name = v` (macro definition) is applied whatever skip_unknown says."""
  prog = ctx.prog
  pc = ctx.func('config.parse_config')
  g2, facts2 = std_facts(prog, pc)
  binds = [n for n in g2.live_nodes() if any(prog.resolve_call(pc, c) == 'config.bind_parameter' for c in calls_of_node(n))]
  macros = [n for n in binds if ('c', 'arg_name', False) in facts2[n.id]]
  if not macros:
    ctx.fail(rule, construct(pc), 'no bind site for valueless bindings (macro definitions) is left', pc.loc(), instance='macro-always')
  for n in macros:
    skip_f = [fct for fct in facts2[n.id] if fct[0] == 'c' and fct[1].startswith('_should_skip(')]
    ctx.check(not skip_f, rule, construct(pc), 'macro definitions are always applied (never subject to skipping)',
              'a macro definition is applied only when `%s` is %s: under skip_unknown=True the definition is silently dropped and %%name keeps an '
              'older value or is unbound' % (skip_f[0][1], skip_f[0][2]) if skip_f else '', pc.loc(n.ast), instance='macro-always')
