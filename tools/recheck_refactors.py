#!/venv/bin/python
"""Re-run all checks against every kept refactoring; print alarms."""
import concurrent.futures, glob, json, os, subprocess, sys
sys.path.insert(0, os.path.dirname(os.path.abspath(__file__)))
from scratch import scratch
def sh(c): return subprocess.run(c, shell=True, capture_output=True, text=True)
def run(a):
  p, wt = a
  r = subprocess.run(['/verif/check', p, '--no-write', '--repo', wt], capture_output=True, text=True)
  rules = sorted({l.split('rule=')[1].split()[0] for l in r.stdout.splitlines() if 'rule=' in l})
  err = [l.strip()[:110] for l in r.stdout.splitlines() if 'ANALYSIS-ERROR' in l][:1]
  return p, r.returncode, rules, err
only = sys.argv[1:]
tot = bad = 0
for d in sorted(glob.glob('/verif/refactors/C*')):
  rid = os.path.basename(d)
  if only and not any(rid.startswith(o) for o in only): continue
  with scratch(d + '/patch.diff') as (wt, applied):
    if not applied: print(rid, 'APPLY-FAIL'); continue
    with concurrent.futures.ThreadPoolExecutor(16) as ex:
      res = {p: (c, r, e) for p, c, r, e in ex.map(run, [('C%02d' % i, wt) for i in range(1, 21)]) if c != 0}
  tot += 1; bad += bool(res)
  meta = json.load(open(d + '/meta.json')); meta['alarms_now'] = {p: {'exit': c, 'rules': r, 'err': e} for p, (c, r, e) in res.items()}
  json.dump(meta, open(d + '/meta.json', 'w'), indent=1)
  print(rid, {p: (c, r or e) for p, (c, r, e) in res.items()} or 'clean')
print('refactorings: %d, with alarms: %d' % (tot, bad))
