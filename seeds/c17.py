from ._h import S
C = 'config.py'
U = 'utils.py'
SEEDS = [
  S('proxy-base-exception', 'C17.subclass', U, "  class ExceptionProxy(type(exception)):", "  class ExceptionProxy(Exception):"),
  S('proxy-loses-name', 'C17.subclass', U, "  ExceptionProxy.__name__ = type(exception).__name__\n", ""),
  S('traceback-dropped', 'C17.traceback', U, "  raise proxy.with_traceback(exception.__traceback__)", "  raise proxy"),
  S('message-replaced', 'C17.traceback', U, "      return str(exception) + message", "      return message"),
  S('wrapper-catches-baseexception', 'C17.exception-only', C, "    except Exception as e:  # pylint: disable=broad-except\n      err_str = ''", "    except BaseException as e:  # pylint: disable=broad-except\n      err_str = ''"),
  S('location-wrapper-catches-everything', 'C17.exception-only', U, "  except Exception as exception:  # pylint: disable=broad-except", "  except BaseException as exception:  # pylint: disable=broad-except"),
]
