from _common import *
@gin.configurable
def f(x=None): return x
gin.parse_config("f.x = %UNDEF")
try: f()
except Exception: pass
try:
  gin.operative_config_str()
  done(False, "operative_config_str() works after a failed call using an unbound macro")
except KeyError as e:
  done(True, "operative_config_str() raises KeyError(%s) after a failed call using an unbound macro" % e)
