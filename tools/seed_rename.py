#!/venv/bin/python
"""Robustness probe: every seeded variant must still be reported after all locals of the mutated copy were renamed."""
import ast, concurrent.futures, os, shutil, sys, importlib.util
sys.path.insert(0, '/verif')
from ginsa.selftest import load_seeds, apply_seed
from ginsa.report import run_property
spec = importlib.util.spec_from_file_location('alpha', '/verif/tools/alpha.py')
src = open('/verif/tools/alpha.py').read().replace('\nmain()\n', '\n')
alpha = {}
exec(compile(src, 'alpha', 'exec'), alpha)

def one(args):
  pid, seed = args
  tmp = apply_seed(seed)
  if tmp is None:
    return (pid, seed['name'], 'skipped')
  try:
    for f in alpha['CORE']:
      p = os.path.join(tmp, 'gin', f)
      tree = ast.parse(open(p).read())
      alpha['do_rename'](tree)
      open(p, 'w').write(ast.unparse(ast.fix_missing_locations(tree)) + '\n')
    code, obs, out = run_property(pid, 'quick', 0, tmp, write=False, quiet=True)
    hit = [o for o in obs if not o.ok and o.rule == seed['rule']]
    return (pid, seed['name'], 'reported' if hit else 'MISSED(exit %d; %s)' % (code, sorted({o.rule for o in obs if not o.ok}) or out[-1:]))
  finally:
    shutil.rmtree(tmp, ignore_errors=True)

jobs = [(p, s) for p in ['C%02d' % i for i in range(1, 21)] for s in load_seeds(p)]
with concurrent.futures.ProcessPoolExecutor(16) as ex:
  res = list(ex.map(one, jobs))
bad = [r for r in res if r[2] != 'reported']
print(len(res), 'seeds;', len(bad), 'not reported after renaming')
for r in bad: print(' ', r)
