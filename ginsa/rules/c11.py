"""C11 Only configurable parameters of registered configurables can be bound."""
import ast

from ..core import AnalysisError, u, walk_local, enclosing_stmt
from ..lib import (construct, std_facts, facts_at, def_of, facts_imply,
                   returns_of, in_subtree, expand_expr)
from ..resolve import store_accesses
from .common import allowed_stores

PARSE = 'config.ParsedBindingKey.parse'


def _atom_parse(e):
  """Maps sub-expressions of ParsedBindingKey.parse guards to named atoms."""
  t = u(e)
  if isinstance(e, ast.Name) and e.id == 'configurable_':
    return 'found'
  if isinstance(e, ast.Attribute) and isinstance(e.value, ast.Name) and e.value.id == 'configurable_':
    if e.attr == 'allowlist':
      return 'allow'
    if e.attr == 'denylist':
      return 'deny'
    if e.attr == 'is_method':
      return 'is_method'
  if isinstance(e, ast.Compare) and len(e.ops) == 1 and isinstance(e.ops[0], ast.In):
    l, r = u(e.left), u(e.comparators[0])
    if l == 'arg_name' and r == 'configurable_.allowlist':
      return 'in_allow'
    if l == 'arg_name' and r == 'configurable_.denylist':
      return 'in_deny'
    if l == "'.'" and r == 'selector':
      return 'has_dot'
  if isinstance(e, ast.Call) and u(e.func) == '_might_have_parameter':
    if len(e.args) == 2 and u(e.args[1]) == 'arg_name' and u(e.args[0]).startswith('configurable_.'):
      return 'might_have'
  return None


def run(ctx):
  prog = ctx.prog
  ctx.assume('T3')
  allowed_stores(ctx, 'C11.guards', {PARSE: set(), 'config._might_have_parameter': set(),
                                     'config.bind_parameter': {'_CONFIG', '_CONFIG_PROVENANCE'},
                                     'config.ParseContext.get_configurable': {'_REGISTRY'}},
                 'whether a key is acceptable must be decided against the registry as it is now; a remembered verdict survives '
                 're-registration, method re-homing and interactive redefinition')
  # ---- C11.validate-first
  stores, acc = store_accesses(prog, 'config', ['_CONFIG', '_CONFIG_PROVENANCE'])
  writes = [a for a in acc if a.kind in ('write', 'rebind') and a.func is not None]
  ctx.expect_at_least('writers of the binding / provenance stores', len(writes), 2)
  for a in writes:
    f = a.func
    con = construct(f)
    inst = '%s.%s' % (a.store, a.method or 'rebind')
    mine = [x for x in writes if x.func is f and x.store == a.store]
    if all(x.method == 'clear' for x in mine):
      ctx.hold('C11.validate-first', con, 'pure reset of %s' % a.store, f.loc(a.node), instance=inst)
      continue
    g, facts = std_facts(prog, f)
    st = enclosing_stmt(a.node)
    fs = facts_at(g, facts, st) or frozenset()
    # the key expression used at the write
    call_or_sub = a.node.parent
    keyexpr = None
    if isinstance(call_or_sub, ast.Attribute) and isinstance(call_or_sub.parent, ast.Call) and call_or_sub.parent.args:
      keyexpr = call_or_sub.parent.args[0]
    elif isinstance(call_or_sub, ast.Subscript):
      keyexpr = call_or_sub.slice
    ok = False
    why = 'key expression not recognised'
    if keyexpr is not None:
      roots = [n.id for n in ast.walk(keyexpr) if isinstance(n, ast.Name)]
      if len(roots) == 1:
        ex = expand_expr(fs, keyexpr)
        base = ex
        while isinstance(base, (ast.Attribute, ast.Subscript)):
          base = base.value
        ok = isinstance(base, ast.Call) and u(base.func) == 'ParsedBindingKey.parse' and ('call', PARSE) in fs
        why = 'key `%s` comes from `%s`' % (u(keyexpr), u(ex))
    ctx.check(ok, 'C11.validate-first', con,
              'write to %s uses a key produced by ParsedBindingKey.parse, which has completed on every path to the write' % a.store,
              'write to %s is not dominated by key validation (%s): a rejected binding could leave the store modified, '
              'or an unvalidated parameter could be bound' % (a.store, why), f.loc(a.node), instance=inst)
  # nothing else hands out a writable alias that is then written: alias writes
  # are in the function that obtained the alias
  bp = ctx.func('config.bind_parameter')
  g, facts = std_facts(prog, bp)
  alias_writes = 0
  for n in g.live_nodes():
    a = n.ast
    if n.kind == 'stmt' and isinstance(a, ast.Assign) and isinstance(a.targets[0], ast.Subscript):
      base = a.targets[0].value
      d = def_of(facts[n.id], base.id) if isinstance(base, ast.Name) else (u(base) if isinstance(base, ast.Call) else None)
      if d is not None:
        if d and ('_CONFIG.setdefault' in d or '_CONFIG_PROVENANCE.setdefault' in d):
          alias_writes += 1
          ex = expand_expr(facts[n.id], a.targets[0].slice)
          kb = ex
          while isinstance(kb, (ast.Attribute, ast.Subscript)):
            kb = kb.value
          dd = u(kb) if isinstance(kb, ast.Call) else None
          ctx.check(dd is not None and dd.startswith('ParsedBindingKey.parse('), 'C11.validate-first', construct(bp),
                    'entry write `%s` uses the validated parameter name' % u(a.targets[0]),
                    'entry write `%s` uses a parameter name that did not come from the validated key' % u(a.targets[0]),
                    bp.loc(a), instance='alias:' + u(a.targets[0]))
  ctx.expect_at_least('entry writes through setdefault aliases in bind_parameter', alias_writes, 1)

  # ---- C11.guards
  pf = ctx.func(PARSE)
  pcon = construct(pf)
  g, facts = std_facts(prog, pf)
  rets = [n for n in g.live_nodes() if n.kind == 'return' and n.ast.value is not None]
  ctx.expect_at_least('returns of ParsedBindingKey.parse', len(rets), 2)
  required = [
      ('unknown configurable rejected', 'found'),
      ('method addressed without its class rejected', '(not is_method) or has_dot'),
      ('parameter the signature cannot accept rejected', 'might_have'),
      ('parameter outside a non-empty allowlist rejected', '(not allow) or in_allow'),
      ('parameter inside the denylist rejected', '(not deny) or (not in_deny)'),
  ]
  checked = 0
  for n in rets:
    fs = facts[n.id]
    # passthrough of an already validated key
    if any(f[0] == 'c' and f[1].startswith('isinstance(binding_key, ParsedBindingKey)') and f[2] for f in fs):
      ctx.hold('C11.guards', pcon, 'pass-through of an already parsed key (constructed only by parse, see C11.construct)',
               pf.loc(n.ast), instance='passthrough')
      continue
    checked += 1
    missing = facts_imply(fs, required, _atom_parse)
    if missing:
      for label, env in missing:
        ctx.fail('C11.guards', pcon,
                 'the validated key is returned although: %s is not enforced on every path (counter-example over guard atoms: %s)'
                 % (label, env), pf.loc(n.ast), sites=len(fs), instance=label)
    else:
      for label, _ in required:
        ctx.hold('C11.guards', pcon, label + ' before the key is returned', pf.loc(n.ast), sites=len(fs), instance=label)
    # complete selector recorded
    kw = {k.arg: u(k.value) for k in n.ast.value.keywords} if isinstance(n.ast.value, ast.Call) else {}
    ok = kw.get('complete_selector') == 'configurable_.selector' and kw.get('arg_name') == 'arg_name' and kw.get('scope') == 'scope'
    ctx.check(ok, 'C11.guards', pcon, 'the returned key carries the registry\'s complete selector, the scope and the parameter name',
              'the returned key fields are %s' % kw, pf.loc(n.ast), instance='key-fields')
  ctx.expect_at_least('validating returns of ParsedBindingKey.parse', checked, 1)
  # configurable lookup goes through the parse context's resolver
  cdef = None
  for n in g.live_nodes():
    if n.kind == 'stmt' and isinstance(n.ast, ast.Assign) and u(n.ast.targets[0]) == 'configurable_':
      cdef = n.ast.value
  ok = isinstance(cdef, ast.Call) and prog.resolve_call(pf, cdef) == 'config.ParseContext.get_configurable' \
      and len(cdef.args) == 1 and u(cdef.args[0]) == 'selector'
  ctx.check(ok, 'C11.guards', pcon, 'the configurable is looked up by the given selector through ParseContext.get_configurable',
            'configurable lookup changed to `%s`' % (u(cdef) if cdef is not None else None), pf.loc(), instance='lookup')

  # ---- C11.construct
  c = ctx.cls('config.ParsedBindingKey')
  sites = []
  for fn in ctx.ix.all_funcs():
    for call in walk_local(fn.node):
      if isinstance(call, ast.Call) and (prog.resolve_call(fn, call) == c.qual or
                                         (fn.qual == PARSE and u(call.func) == 'cls')):
        sites.append((fn, call))
  outside = [(fn, call) for fn, call in sites if fn.qual != PARSE]
  ctx.check(not outside and sites, 'C11.construct', '%s::%s' % (c.module.relpath, c.name),
            'ParsedBindingKey is constructed only inside parse (%d sites): a pass-through key has always been validated' % len(sites),
            'ParsedBindingKey is constructed outside parse at %s: bind_parameter accepts such keys without validation'
            % [fn.loc(call) for fn, call in outside], outside[0][0].loc(outside[0][1]) if outside else pf.loc(), sites=len(sites))

  # ---- C11.signature
  mf = ctx.func('config._might_have_parameter')
  g, facts = std_facts(prog, mf)

  spec_names = {u(a.targets[0]) for a in walk_local(mf.node) if isinstance(a, ast.Assign) and len(a.targets) == 1 and isinstance(a.value, ast.Call)
                and prog.resolve_call(mf, a.value) == 'config._get_cached_arg_spec'} | {'arg_spec'}

  def spec_field(x):
    """'varkw' / 'args' / 'kwonlyargs' when x reads that field of the inspected signature (through a local, or from the call itself)."""
    if isinstance(x, ast.Attribute) and (u(x.value) in spec_names or
                                         (isinstance(x.value, ast.Call) and prog.resolve_call(mf, x.value) == 'config._get_cached_arg_spec')):
      return x.attr
    return None

  def atom_sig(e):
    if spec_field(e) == 'varkw':
      return 'varkw'
    if isinstance(e, ast.Compare) and len(e.ops) == 1 and isinstance(e.ops[0], ast.In) and u(e.left) == mf.params[1]:
      r = spec_field(e.comparators[0])
      if r == 'args':
        return 'in_args'
      if r == 'kwonlyargs':
        return 'in_kwonly'
    return None

  rets = [n for n in g.live_nodes() if n.kind == 'return']
  ctx.expect_at_least('returns of _might_have_parameter', len(rets), 1)
  bad = []
  for n in rets:
    fs = {f for f in facts[n.id] if f[0] == 'c'}
    val = u(n.ast.value) if n.ast.value is not None else 'False'
    # facts /\ not (value <-> spec) must be unsatisfiable
    both = set(fs) | {('c', val, True)}
    m1 = facts_imply(both, [('ret=>spec', 'varkw or in_args or in_kwonly')], atom_sig)
    neg = set(fs) | {('c', val, False)}
    m2 = facts_imply(neg, [('spec=>ret', 'not (varkw or in_args or in_kwonly)')], atom_sig)
    if m1 or m2:
      bad.append((n, (m1 or m2)[0][1]))
  ctx.check(not bad, 'C11.signature', construct(mf),
            'a parameter is accepted iff the signature has **kwargs, or names it as a positional-or-keyword or keyword-only parameter',
            'the signature test differs from `**kwargs or named positional or keyword-only` (e.g. at line %d for %s)'
            % (bad[0][0].lineno, bad[0][1]) if bad else '', mf.loc(bad[0][0].ast) if bad else mf.loc(), sites=len(rets))
  spec_calls = [c_ for c_ in walk_local(mf.node) if isinstance(c_, ast.Call) and prog.resolve_call(mf, c_) == 'config._get_cached_arg_spec']
  ok = bool(spec_calls) and len({u(c_) for c_ in spec_calls}) == 1
  ctx.check(ok, 'C11.signature', construct(mf), 'the signature inspected is that of the (unwrapped) callable / class constructor',
            'arg_spec is no longer obtained from _get_cached_arg_spec', mf.loc(), instance='argspec')

  # ---- C11.lists
  mk = ctx.func('config._make_configurable')
  g, facts = std_facts(prog, mk)
  _, racc = store_accesses(prog, 'config', ['_REGISTRY', '_INVERSE_REGISTRY'])
  rw = [a for a in racc if a.func is mk and a.kind == 'write']
  ctx.expect_at_least('registry writes in _make_configurable', len(rw), 2)
  vcalls = [c for c in walk_local(mk.node) if isinstance(c, ast.Call)
            and prog.resolve_call(mk, c) == 'config._validate_parameters']
  validated = {u(c.args[1]) for c in vcalls if len(c.args) >= 2}
  for a in rw:
    fs = facts_at(g, facts, enclosing_stmt(a.node)) or frozenset()
    both = ('c', 'allowlist and denylist', False) in fs
    val = ('call', 'config._validate_parameters') in fs and {'allowlist', 'denylist'} <= validated
    ctx.check(both and val, 'C11.lists', construct(mk),
              'registration validates allowlist and denylist names against the signature and rejects both-given before writing %s' % a.store,
              'registration reaches the write of %s without %s' % (a.store, 'rejecting both lists' if not both else 'validating both lists against the signature'),
              mk.loc(a.node), instance=a.store)
  vp = ctx.func('config._validate_parameters')
  g_vp, f_vp = std_facts(prog, vp)
  raising = False
  for n in g_vp.live_nodes():
    if n.kind == 'raise_stmt' and n.loops and isinstance(n.loops[-1], ast.For):
      lp = n.loops[-1]
      it = u(lp.iter).replace(' ', '')
      covers = it in (vp.params[1], '%sor[]' % vp.params[1], '%sor()' % vp.params[1])
      unknown = ('c', '_might_have_parameter(%s, %s)' % (vp.params[0], u(lp.target)), False) in f_vp[n.id]
      raising = raising or (covers and unknown)
  ctx.check(raising, 'C11.lists', construct(vp), 'an unknown name in a list raises',
            '_validate_parameters no longer raises for a name the signature cannot accept', vp.loc())

  # ---- C11.method
  fm = ctx.func('config._find_registered_methods')
  repl = [c for c in walk_local(fm.node) if isinstance(c, ast.Call) and isinstance(c.func, ast.Attribute)
          and c.func.attr == '_replace']
  ok = any(any(k.arg == 'is_method' and isinstance(k.value, ast.Constant) and k.value.value is True for k in c.keywords)
           and any(k.arg == 'selector' for k in c.keywords) for c in repl)
  ctx.check(ok, 'C11.method', construct(fm), 'methods re-homed under their class are flagged is_method (the flag the addressing guard reads)',
            're-homed methods are no longer flagged is_method: a method becomes addressable without its class name', fm.loc())

  # ---- C11.hooks-atomic: bindings returned by finalize hooks obey "a rejected binding leaves the configuration as it was"
  from .c12 import hooks_atomic
  hooks_atomic(ctx, 'C11.hooks-atomic')

  # ---- C11.signature: the signature inspected is that of the fully unwrapped callable
  unwrap_loops = [n for n in walk_local(mf.node) if isinstance(n, ast.While) and u(n.test).replace(' ', '') == "hasattr(fn,'__wrapped__')"
                  and any(isinstance(b, ast.Assign) and u(b.targets[0]) == 'fn' and u(b.value) == 'fn.__wrapped__' for b in n.body)]
  full_unwrap = [c for c in walk_local(mf.node) if isinstance(c, ast.Call) and u(c.func) == 'inspect.unwrap' and not c.keywords and len(c.args) == 1]
  ctx.check(bool(unwrap_loops) or bool(full_unwrap), 'C11.signature', construct(mf),
            'decorators are unwrapped completely (to the innermost __wrapped__) before the signature is read',
            'the callable is no longer unwrapped completely before its signature is read: for a function that already carries a '
            'functools.wraps pass-through decorator (*args, **kwargs) every parameter name is accepted', mf.loc(), instance='full-unwrap')
  # which attributes count as registered methods of a class (shared with C13 / C19): `Class.method` addressing depends on it
  from .c13 import method_detection
  method_detection(ctx, 'C11.methods')
  ctx.borrow('C13', 'C13.atomic', 'C11.lists', instances={'allowlist of wrong type', 'denylist of wrong type', 'both lists given'})
