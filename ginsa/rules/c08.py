"""C08 Names resolve by unique dotted suffix, identically through every API."""
import ast

from ..core import AnalysisError, u, walk_local, enclosing_stmt
from ..lib import (construct, std_facts, def_of, copy_kind, at_least, facts_at,
                   calls_of_node, stored_names, in_subtree, returns_of, card_cases, is_recursive_copier, expand_expr)
from ..resolve import store_accesses
from .common import hasheq, dunder_sweep, instance_state, finalize_conflict_guard, method_selector_rule

SM = 'selector_map.SelectorMap'


def field_aliases(prog, m, field, _depth=0):
  """(g, facts, is_alias(node, name), target) for method m wrt self.<field>.

  Levels: 0 = the expression denotes (part of) the field's live structure,
  1 = a fresh container *holding* references to live parts (a list of tree
  nodes, a shallow copy of a node), None = unrelated.  Only a mutation of a
  level-0 value changes the field."""
  g, facts = std_facts(prog, m)
  selfn = m.params[0] if m.params else 'self'
  target = '%s.%s' % (selfn, field)
  defs = {}
  for n in walk_local(m.node):
    if isinstance(n, ast.Assign) and len(n.targets) == 1 and isinstance(n.targets[0], ast.Name):
      defs.setdefault(n.targets[0].id, []).append(('=', n.value))
    elif isinstance(n, ast.Assign) and len(n.targets) == 1 and isinstance(n.targets[0], (ast.Tuple, ast.List)):
      # unpacking: a plain target is an element of the value, a starred one a list of its elements
      for e_ in n.targets[0].elts:
        if isinstance(e_, ast.Name):
          defs.setdefault(e_.id, []).append(('in', n.value))
        elif isinstance(e_, ast.Starred) and isinstance(e_.value, ast.Name):
          defs.setdefault(e_.value.id, []).append(('=', n.value))
    elif isinstance(n, ast.For):
      for x in ast.walk(n.target):
        if isinstance(x, ast.Name):
          defs.setdefault(x.id, []).append(('in', n.iter))

  def lmin(ls):
    ls = [l for l in ls if l is not None]
    return min(ls) if ls else None

  def level(e, seen):
    if u(e) == target:
      return 0
    if isinstance(e, ast.Call):
      fn = e.func
      # a helper method of the same class: what it returns, seen from its own body (a path of tree nodes, a node, ...)
      if isinstance(fn, ast.Attribute) and isinstance(fn.value, ast.Name) and fn.value.id == selfn and m.cls is not None \
          and fn.attr in m.cls.methods and m.cls.methods[fn.attr] is not m and _depth < 2:
        m2 = m.cls.methods[fn.attr]
        lv2 = field_aliases(prog, m2, field, _depth + 1)[4]
        rl = [lv2(r.value, frozenset()) for r in walk_local(m2.node) if isinstance(r, ast.Return) and r.value is not None
              and not (isinstance(r.value, ast.Constant) and r.value.value is None)]
        got = lmin(rl)
        if got is not None:
          return got
      if isinstance(fn, ast.Attribute):
        base = level(fn.value, seen)
        if fn.attr in ('copy', 'values', 'items'):
          return None if base is None else 1
        if fn.attr in ('setdefault', 'get', 'pop', '__getitem__'):
          return None if base is None else 0
        if fn.attr in ('keys',):
          return None
      if u(fn) in ('copy.deepcopy', 'len', 'str', 'sorted', 'enumerate') and u(fn) != 'enumerate':
        return None
      if u(fn) in ('copy.copy', 'dict', 'list', 'tuple'):
        base = lmin([level(a, seen) for a in e.args])
        return None if base is None else 1
      base = lmin([level(a, seen) for a in e.args])      # zip(...), reversed(...), enumerate(...)
      return None if base is None else max(base, 1)
    if isinstance(e, ast.Subscript):
      base = level(e.value, seen)
      return None if base is None else 0
    if isinstance(e, (ast.List, ast.Tuple)):
      base = lmin([level(x, seen) for x in e.elts])
      return None if base is None else 1
    if isinstance(e, ast.Name):
      if e.id in seen:
        return None
      out = []
      for kind, d in defs.get(e.id, []):
        l = level(d, seen | {e.id})
        if kind == 'in' and l is not None:
          l = max(l - 1, 0)
        out.append(l)
      return lmin(out)
    return None

  def is_alias(node, name):
    d = def_of(facts[node.id], name)
    if d is not None and not d.startswith(('unpack[', 'iter(', 'with(')):
      try:
        e = ast.parse(d, mode='eval').body
        return level(e, frozenset({name}) if name not in {x.id for x in ast.walk(e) if isinstance(x, ast.Name)} else frozenset()) == 0
      except SyntaxError:
        pass
    return level(ast.Name(id=name, ctx=ast.Load()), frozenset()) == 0

  return g, facts, is_alias, target, level


def field_writes(prog, m, field):
  """CFG nodes of method m that mutate self.<field> (directly or via alias)."""
  g, facts, is_alias, target, _lv = field_aliases(prog, m, field)
  out = []
  for n in g.live_nodes():
    a = n.ast
    if a is None or n.kind in ('with_exit', 'dispatch', 'finally_end'):
      continue
    roots = [a] if n.kind in ('stmt', 'return', 'raise_stmt') else ([a] if n.kind == 'test' else [])
    for r in roots:
      for x in ast.walk(r):
        base = None
        if isinstance(x, ast.Call) and isinstance(x.func, ast.Attribute) and x.func.attr in (
            'setdefault', 'pop', 'clear', 'update', 'popitem', '__setitem__'):
          base = x.func.value
        elif isinstance(x, ast.Subscript) and isinstance(x.ctx, (ast.Store, ast.Del)):
          base = x.value
        elif isinstance(x, ast.Attribute) and isinstance(x.ctx, ast.Store) and x.attr == field:
          out.append(n)
          continue
        if base is None:
          continue
        while isinstance(base, ast.Subscript):
          base = base.value
        if u(base) == target or (isinstance(base, ast.Name) and is_alias(n, base.id)):
          out.append(n)
  return out


def values_in_order(x, M):
  """Is `x` an iterable that yields `self._selector_map[s]` for the elements `s` of the list named M, in order and unfiltered?
  (map over the bound __getitem__ or a one-argument lambda, a generator / list comprehension, iter()/list()/tuple() around one)"""
  def lookup_of(e, var):
    return isinstance(e, ast.Subscript) and u(e.value) == 'self._selector_map' and isinstance(e.slice, ast.Name) and e.slice.id == var
  if isinstance(x, ast.Call) and isinstance(x.func, ast.Name) and not x.keywords:
    if x.func.id in ('iter', 'list', 'tuple') and len(x.args) == 1:
      return values_in_order(x.args[0], M)
    if x.func.id == 'map' and len(x.args) == 2 and u(x.args[1]) == M:
      f = x.args[0]
      if u(f) == 'self._selector_map.__getitem__':
        return True
      if isinstance(f, ast.Lambda):
        a = f.args
        if len(a.args) == 1 and not (a.posonlyargs or a.kwonlyargs or a.vararg or a.kwarg or a.defaults):
          return lookup_of(f.body, a.args[0].arg)
    return False
  if isinstance(x, (ast.GeneratorExp, ast.ListComp)) and len(x.generators) == 1:
    gen = x.generators[0]
    return not gen.ifs and not gen.is_async and isinstance(gen.target, ast.Name) and u(gen.iter) == M and lookup_of(x.elt, gen.target.id)
  return False


def first_or_default(e, M):
  """`next(<values of the matches M in order>, <fallback>)`: returns the fallback expression, else None"""
  if isinstance(e, ast.Call) and isinstance(e.func, ast.Name) and e.func.id == 'next' and len(e.args) == 2 and not e.keywords \
      and values_in_order(e.args[0], M):
    return e.args[1]
  return None


def run(ctx):
  prog = ctx.prog
  ctx.assume('T3', 'T6', 'T7')
  sm = ctx.cls(SM)
  smc = 'gin/selector_map.py::SelectorMap'
  init = sm.methods.get('__init__')
  fields = sorted({n.attr for n in walk_local(init.node) if isinstance(n, ast.Attribute) and isinstance(n.ctx, ast.Store)
                   and isinstance(n.value, ast.Name) and n.value.id == 'self'})
  ctx.expect_at_least('SelectorMap fields', len(fields), 2)

  # nestedness: a field is nested when a method inserts a dict display into it
  nested = set()
  for name, m in sm.methods.items():
    for fld in fields:
      g, facts, is_alias, target, _lv = field_aliases(prog, m, fld)
      for n in g.live_nodes():
        if n.ast is None:
          continue
        for x in ast.walk(n.ast) if n.kind == 'stmt' else []:
          if isinstance(x, ast.Call) and isinstance(x.func, ast.Attribute) and x.func.attr == 'setdefault' \
              and len(x.args) == 2 and isinstance(x.args[1], ast.Dict):
            b = x.func.value
            if u(b) == target or (isinstance(b, ast.Name) and is_alias(n, b.id)):
              nested.add(fld)
  ctx.note('nested SelectorMap fields (dict values are inserted into them): %s' % sorted(nested))

  # ---- C08.copy
  cp = sm.methods.get('copy')
  if cp is None:
    raise AnalysisError('SelectorMap.copy vanished')
  assigns = {}
  new_obj = None
  for n in walk_local(cp.node):
    if isinstance(n, ast.Assign) and isinstance(n.value, ast.Call) and prog.resolve_call(cp, n.value) == SM:
      new_obj = u(n.targets[0])
  for n in walk_local(cp.node):
    if isinstance(n, ast.Assign) and isinstance(n.targets[0], ast.Attribute) and u(n.targets[0].value) == new_obj:
      assigns[n.targets[0].attr] = n
  rebuild = [n for n in walk_local(cp.node) if isinstance(n, ast.Assign) and isinstance(n.targets[0], ast.Subscript)
             and u(n.targets[0].value) == new_obj]
  for fld in fields:
    need = 'DEEP' if fld in nested else 'SHALLOW'
    if fld in assigns:
      v = assigns[fld].value
      deep_funcs = {fn_.name for fn_ in ctx.ix.module('selector_map').funcs.values() if is_recursive_copier(fn_.node)}
      k = copy_kind(v, deep_funcs)
      ok = at_least(k, need)
      if fld not in nested and k == 'DEEP':
        ctx.fail('C08.copy', smc + '.copy',
                 'the copy\'s %s is deep-copied (`%s`) although its values are the caller\'s objects: a copied map (clear_config keeps the constants '
                 'through one) hands out *copies* of the stored objects -- `%%name` no longer yields that very object, gin.REQUIRED loses its identity, '
                 'and a value that cannot be deep-copied makes the copy raise' % (fld, u(v)), cp.loc(assigns[fld]), instance=fld + ':values-by-identity')
        continue
      ctx.check(ok, 'C08.copy', smc + '.copy',
                'the copy\'s %s is un-shared to the depth of the structure (%s)' % (fld, k),
                'the copy\'s %s is `%s` (%s) but the structure is %s: the copy shares %s with its original, so a later insert '
                'into (or removal from) one changes what the other matches' %
                (fld, u(v), k, 'a nested dict-of-dicts' if fld in nested else 'a dict', 'its inner tree nodes' if fld in nested else 'the dict'),
                cp.loc(assigns[fld]), instance=fld)
    elif rebuild:
      ctx.hold('C08.copy', smc + '.copy', 'the copy is rebuilt through its own insert operation (fresh %s)' % fld, cp.loc(), instance=fld)
    else:
      ctx.fail('C08.copy', smc + '.copy', 'copy() does not populate %s of the new map' % fld, cp.loc(), instance=fld)
  dcp = sm.methods.get('__copy__')
  if dcp is not None:
    ok = any(isinstance(r.value, ast.Call) and prog.resolve_call(dcp, r.value) == cp.qual for r in returns_of(dcp) if r.value is not None)
    ctx.check(ok, 'C08.copy', smc + '.__copy__', '__copy__ delegates to copy()', '__copy__ no longer delegates to copy()', dcp.loc(), instance='__copy__')

  # ---- C08.hasheq
  hasheq(ctx, 'C08.hasheq')
  dunder_sweep(ctx, 'C08.hasheq', ['config', 'selector_map', 'config_parser'])

  # ---- C08.minimal
  ms = sm.methods.get('minimal_selector')
  if ms is None:
    raise AnalysisError('SelectorMap.minimal_selector vanished')
  slices = [n for n in walk_local(ms.node) if isinstance(n, ast.Subscript) and isinstance(n.slice, ast.Slice) and n.slice.lower is not None
            and isinstance(n.slice.lower, ast.Name)]
  n_inst = 0
  for sl in slices:
    var = sl.slice.lower.id
    for a in walk_local(ms.node):
      if isinstance(a, ast.Assign) and u(a.targets[0]) == var and isinstance(a.value, ast.UnaryOp) and isinstance(a.value.op, ast.USub) \
          and isinstance(a.value.operand, ast.Name):
        idx = a.value.operand.id
        # interval of idx: an enumerate() index starts at its start argument (default 0)
        lo = None
        for lp in walk_local(ms.node):
          if isinstance(lp, ast.For) and isinstance(lp.iter, ast.Call) and u(lp.iter.func) == 'enumerate' \
              and isinstance(lp.target, ast.Tuple) and u(lp.target.elts[0]) == idx and in_subtree(a, lp):
            start = lp.iter.args[1] if len(lp.iter.args) > 1 else next((k.value for k in lp.iter.keywords if k.arg == 'start'), None)
            lo = 0 if start is None else (start.value if isinstance(start, ast.Constant) else None)
        n_inst += 1
        ctx.check(lo is not None and lo > 0, 'C08.minimal', smc + '.minimal_selector',
                  'the slice start -%s is never -0' % idx,
                  'the slice start `%s = -%s` is the negation of a loop index whose range includes 0: -0 == 0, so `%s` is the whole '
                  'component list -- when the tree root has a single child the full name is returned as "minimal" although a '
                  'shorter suffix resolves to the entry' % (var, idx, u(sl)), ms.loc(a), instance='slice-start')
  if n_inst == 0:
    ctx.hold('C08.minimal', smc + '.minimal_selector', 'no slice bound is computed as the negation of a zero-based index', ms.loc(), sites=len(slices))
  # competitors are counted on the suffix tree itself: the matching API answers `[name]` for a name that is stored as it is
  # (exact match first, C08.exact-first), which hides every longer stored name that ends in it
  via_api = [c for c in walk_local(ms.node) if isinstance(c, ast.Call) and prog.resolve_call(ms, c) in
             (sm.qual + '.matching_selectors', sm.qual + '.get_match', sm.qual + '.get_all_matches')]
  reads_tree = any(isinstance(n, ast.Attribute) and n.attr == '_selector_tree' for n in walk_local(ms.node))
  if not reads_tree:
    # ... or through a helper method of the class that walks the tree (not one of the matching APIs)
    api = {'matching_selectors', 'get_match', 'get_all_matches'}
    for c_ in walk_local(ms.node):
      if isinstance(c_, ast.Call) and isinstance(c_.func, ast.Attribute) and u(c_.func.value) == ms.params[0] and c_.func.attr in sm.methods \
          and c_.func.attr not in api:
        if any(isinstance(n, ast.Attribute) and n.attr == '_selector_tree' for n in walk_local(sm.methods[c_.func.attr].node)):
          reads_tree = True
  ctx.check(not via_api and reads_tree, 'C08.minimal', smc + '.minimal_selector',
            'the shortest unambiguous suffix is computed on the suffix tree (all stored names that end in a component are seen)',
            'minimal_selector counts its competitors through `%s`: that API gives an exactly stored name precedence, so for a stored one-component '
            'name `load` every longer name ending in it (`data.load`) is reported as `load`, which resolves to a different entry'
            % (u(via_api[0].func) if via_api else 'something other than the tree'), ms.loc(via_api[0]) if via_api else ms.loc(), instance='tree-walk')
  # the selector must be stored (else KeyError) and a name that is a suffix of another is returned whole
  ok = any(isinstance(n, ast.If) and isinstance(n.body[-1], ast.Raise) and 'not in self._selector_map' in u(n.test) for n in walk_local(ms.node))
  ctx.check(ok, 'C08.minimal', smc + '.minimal_selector', 'an unknown complete name raises KeyError', 'minimal_selector no longer rejects unknown names', ms.loc(), instance='unknown')

  # the one place where Gin tells the user which name to bind: the missing-binding error of the wrapper uses the minimal selector
  gw = ctx.func('config._make_gin_wrapper').nested.get('gin_wrapper')
  if gw is not None:
    msc = [c_ for c_ in walk_local(gw.node) if isinstance(c_, ast.Call) and u(c_.func) == '_REGISTRY.minimal_selector']
    rte = [r_ for r_ in walk_local(gw.node) if isinstance(r_, ast.Raise) and r_.exc is not None and 'RuntimeError' in u(r_.exc)]
    ctx.check(bool(msc) or not rte, 'C08.minimal', construct(gw), 'the name reported for a configurable with missing bindings is its minimal selector',
              'the missing-binding error names the configurable without _REGISTRY.minimal_selector: the reported name can be ambiguous and does not '
              'resolve back to the entry', gw.loc(rte[0]) if rte else gw.loc(), instance='error-names')
  # ---- C08.sync
  wr = {}
  for name, m in sorted(sm.methods.items()):
    for fld in fields:
      ws = field_writes(prog, m, fld)
      if ws:
        wr.setdefault(name, {})[fld] = ws
  # copy(): writes to the *new* object's fields
  for name, m in sorted(sm.methods.items()):
    if name in ('__init__',):
      continue
    got = set(wr.get(name, {}))
    if name == 'copy':
      got = set(assigns) or (set(fields) if rebuild else set())
    if not got:
      continue
    ctx.check(got == set(fields), 'C08.sync', smc + '.' + name,
              '%s writes both the suffix tree and the flat map' % name,
              '%s writes %s but not %s: the tree and the map go out of step, so suffix matching and exact lookup disagree'
              % (name, sorted(got), sorted(set(fields) - got)), m.loc(), sites=sum(len(v) for v in wr.get(name, {}).values()) or 1, instance=name)
  ctx.expect_at_least('SelectorMap methods that mutate the map', len([n for n in wr if n != '__init__']), 3)
  if not any(not o.ok and o.rule == 'C08.sync' for o in ctx.obs):
    ctx.expect_at_least('nested fields of SelectorMap (the suffix tree)', len(nested), 1)

  # ---- C08.prune: a child link is removed from the tree only when the child is empty
  pm = sm.methods.get('pop')
  g, facts, is_alias, target, _lv = field_aliases(prog, pm, [f_ for f_ in fields if f_ in nested][0] if nested else fields[0])
  removals = 0
  for n in g.live_nodes():
    if n.ast is None or n.kind != 'stmt':
      continue
    for x in ast.walk(n.ast):
      base = key = None
      if isinstance(x, ast.Call) and isinstance(x.func, ast.Attribute) and x.func.attr == 'pop' and x.args:
        base, key = x.func.value, x.args[0]
      elif isinstance(x, ast.Subscript) and isinstance(x.ctx, ast.Del):
        base, key = x.value, x.slice
      if base is None:
        continue
      root = base
      while isinstance(root, ast.Subscript):
        root = root.value
      if not (u(root) == target or (isinstance(root, ast.Name) and is_alias(n, root.id))):
        continue
      if isinstance(key, ast.Name) and key.id.isupper():
        continue   # the terminal marker itself
      removals += 1
      child = '%s[%s]' % (u(base), u(key))
      empty = ('c', child, False) in facts[n.id] or ('c', 'len(%s) == 0' % child, True) in facts[n.id]
      ctx.check(empty, 'C08.prune', smc + '.pop',
                'link `%s` is removed only when the child node is empty' % child,
                'pop removes the link `%s` without checking that the child node is empty: popping a name that is a dotted suffix of '
                'another stored name detaches the longer name\'s subtree, which then no longer matches by suffix (and minimal_selector / pop on it fail)'
                % child, pm.loc(n.ast), instance='prune:' + child)
  if removals == 0:
    ctx.note('SelectorMap.pop removes no interior link (no pruning)')

  instance_state(ctx, 'C08.sync', SM, set(fields), 'a third field must be kept in step with the tree and the map by every mutator')
  finalize_conflict_guard(ctx, 'C08.hook-keys')
  method_selector_rule(ctx, 'C08.minimal')
  from .common import rehoming_rules
  rehoming_rules(ctx, 'C08.sync', 'C08.funnel')

  # ---- C08.exact-first
  mt = sm.methods.get('matching_selectors')
  g, facts = std_facts(prog, mt)
  p = mt.params[1]
  walk_start = [n for n in g.live_nodes() if n.kind == 'stmt' and isinstance(n.ast, ast.Assign) and u(n.ast.value) == 'self._selector_tree']
  if not walk_start:
    # the walk may live in a helper method of the map: then the call of that helper is the start of the walk
    for n in g.live_nodes():
      for cc in calls_of_node(n):
        q_ = prog.resolve_call(mt, cc)
        hf = prog.ix.get(q_) if q_ else None
        if hf is not None and q_.startswith(sm.qual + '.') and hasattr(hf, 'node') and hasattr(hf, 'params') \
            and any(isinstance(x, ast.Attribute) and x.attr == '_selector_tree' for x in walk_local(hf.node)):
          walk_start.append(n)
  ok = bool(walk_start) and all(('c', '%s in self._selector_map' % p, False) in facts[n.id] for n in walk_start)
  exact = [n for n in g.live_nodes() if n.kind == 'return' and ('c', '%s in self._selector_map' % p, True) in facts[n.id]]
  ok = ok and bool(exact) and all(u(n.ast.value) == '[%s]' % p for n in exact)
  ctx.check(ok, 'C08.exact-first', smc + '.matching_selectors',
            'a name equal to a complete stored name returns exactly that entry before the suffix walk starts',
            'exact-match precedence is gone: a name that equals a stored name and is also a suffix of others is reported ambiguous', mt.loc(), instance='exact')
  gm = sm.methods.get('get_match')
  g, facts = std_facts(prog, gm)
  # the list of matches, and the exits classified by how many matches are consistent with their guards
  M = None
  for n in g.live_nodes():
    if n.kind == 'stmt' and isinstance(n.ast, ast.Assign) and isinstance(n.ast.value, ast.Call) \
        and prog.resolve_call(gm, n.ast.value) == sm.qual + '.matching_selectors' and isinstance(n.ast.targets[0], ast.Name):
      M = n.ast.targets[0].id
  if M is None:
    raise AnalysisError('get_match no longer takes its candidates from matching_selectors')
  rets = [n for n in g.live_nodes() if n.kind == 'return' and n.ast.value is not None and u(n.ast.value).replace(' ', '') == 'self._selector_map[%s[0]]' % M]
  ok = all(card_cases(facts[n.id], M) == {1} for n in rets)
  amb = [n for n in g.live_nodes() if n.kind == 'raise_stmt' and card_cases(facts[n.id], M) == {2, 3}]
  dflt = [n for n in g.live_nodes() if n.kind == 'return' and u(n.ast.value) == gm.params[2] and card_cases(facts[n.id], M) == {0}]
  # `next(<the stored values of the matches, in order>, default)`: the first match's value, or the default when there is
  # none -- right for no match and for one match, wrong (first of several, silently) wherever several matches can arrive
  fod, fod_ok = [], []
  for n in g.live_nodes():
    fb = first_or_default(n.ast.value, M) if n.kind == 'return' and n.ast.value is not None else None
    if fb is None:
      continue
    cases = card_cases(facts[n.id], M)
    if 0 in cases and not (isinstance(fb, ast.Name) and fb.id == gm.params[2]):
      if not isinstance(fb, ast.Constant):
        continue     # the fallback is neither the default parameter nor a constant: unreadable below
      fod.append(n)  # a constant is answered instead of the caller's default when nothing matches: wrong
      continue
    fod.append(n)
    if cases and cases <= {0, 1}:
      fod_ok.append(n)
  other = [n for n in g.live_nodes() if n.kind in ('return', 'raise_stmt') and n not in rets and n not in amb and n not in dflt and n not in fod_ok]
  unreadable = [n for n in other if n.kind == 'return' and n.ast.value is not None and n not in fod
                and u(n.ast.value).replace(' ', '') not in ('self._selector_map[%s[0]]' % M, gm.params[2])]
  if unreadable:
    raise AnalysisError('get_match returns `%s`: a result expression this rule cannot classify by the number of matches' % u(unreadable[0].ast.value))
  one = bool(rets) or any(1 in card_cases(facts[n.id], M) for n in fod_ok)
  none = bool(dflt) or any(0 in card_cases(facts[n.id], M) for n in fod_ok)
  ok = ok and one and not other
  dflt = none
  ctx.check(ok and amb and dflt, 'C08.exact-first', smc + '.get_match',
            'one match returns its value, several raise (ambiguous), none returns the default',
            'get_match no longer implements one / several=raise / none=default', gm.loc(), instance='get_match')

  # ---- C08.complete-keys
  pbk = ctx.cls('config.ParsedBindingKey')
  for prop in ('config_key', 'scope_selector_arg'):
    m = pbk.methods.get(prop)
    if m is None:
      continue
    rv = [u(r.value) for r in returns_of(m) if r.value is not None]
    ok = bool(rv) and all('complete_selector' in x and 'given_selector' not in x for x in rv)
    ctx.check(ok, 'C08.complete-keys', 'gin/config.py::ParsedBindingKey.' + prop,
              '%s is built from the complete selector' % prop, '%s is built from %s: stores would be indexed by the spelling the user happened to use' % (prop, rv),
              m.loc(), instance=prop)
  cr = ctx.cls('config.ConfigurableReference')
  m = cr.methods.get('config_key')
  rv = [u(r.value) for r in returns_of(m) if r.value is not None]
  ctx.check(bool(rv) and all('self._configurable.selector' in x for x in rv), 'C08.complete-keys', 'gin/config.py::ConfigurableReference.config_key',
            'a reference\'s key uses the registry\'s complete selector', 'a reference\'s key is %s' % rv, m.loc(), instance='reference')
  asf = ctx.func('config._as_scope_and_selector')
  g, facts = std_facts(prog, asf)
  okk = True
  for r in [n for n in g.live_nodes() if n.kind == 'return' and n.ast.value is not None]:
    v = r.ast.value
    if isinstance(v, ast.Name):
      v = expand_expr(facts[r.id], v)
    sel = v.elts[1] if isinstance(v, ast.Tuple) and len(v.elts) == 2 else None
    if sel is None:
      okk = False
      continue
    defs = [a.value for a in walk_local(asf.node) if isinstance(a, ast.Assign) and u(a.targets[0]) == u(sel)] if isinstance(sel, ast.Name) else [sel]
    finals = [d for d in defs if not (isinstance(d, ast.Call) and u(d.func).endswith('get_match'))]
    okk = okk and bool(finals) and all(u(d).endswith('.selector') or 'selector if' in u(d) for d in finals if not isinstance(d, ast.Constant))
  ctx.check(okk, 'C08.complete-keys', construct(asf), 'selector-or-object lookup returns the registry\'s complete selector',
            'selector-or-object lookup can return the selector as given', asf.loc(), instance='lookup')
  # store key expressions
  stores, acc = store_accesses(prog, 'config', ['_CONFIG', '_CONFIG_PROVENANCE', '_OPERATIVE_CONFIG'])
  nsite = 0
  for a in acc:
    if a.func is None:
      continue
    par = a.node.parent
    key = None
    if isinstance(par, ast.Subscript):
      key = par.slice
    elif isinstance(par, ast.Attribute) and isinstance(par.parent, ast.Call) and par.attr in ('get', 'setdefault', 'pop') and par.parent.args:
      key = par.parent.args[0]
    elif isinstance(par, ast.Compare) and a.node in par.comparators:
      key = par.left
    if key is None:
      continue
    nsite += 1
    txt = u(key)
    bad = 'given_selector' in txt
    if isinstance(key, ast.Tuple) and len(key.elts) == 2:
      s = key.elts[1]
      if isinstance(s, ast.Attribute) and s.attr in ('given_selector',):
        bad = True
    ctx.check(not bad, 'C08.complete-keys', construct(a.func), 'store %s indexed by `%s`' % (a.store, txt),
              'store %s is indexed by `%s`, which carries the spelling as given, not the complete selector: two spellings of one '
              'parameter become different keys' % (a.store, txt), a.func.loc(a.node), instance='%s[%s]' % (a.store, txt))
  ctx.expect_at_least('keyed accesses to the binding/provenance/operative stores', nsite, 4)

  # ---- C08.funnel: every API that accepts a possibly partial name resolves it through the map's matcher
  funnel = [
      ('config.ParseContext.get_configurable', '_REGISTRY.get_match'),
      ('config._as_scope_and_selector', '_REGISTRY.get_match'),
      ('config.ParserDelegate.macro', '_CONSTANTS.matching_selectors'),
      ('config.query_parameter', '_CONSTANTS.matching_selectors'),
      ('config.constant', '_CONSTANTS.matching_selectors'),
  ]
  for q, call in funnel:
    fn = ctx.func(q)
    ok = any(isinstance(c, ast.Call) and u(c.func) == call for c in walk_local(fn.node))
    ctx.check(ok, 'C08.funnel', construct(fn), 'resolves names through %s' % call,
              '%s no longer resolves names through %s' % (fn.name, call), fn.loc(), instance=call)
  adhoc = []
  for fn in ctx.ix.all_funcs(['config', 'selector_map']):
    for c in walk_local(fn.node):
      if isinstance(c, ast.Call) and isinstance(c.func, ast.Attribute) and c.func.attr == 'endswith' \
          and any('selector' in u(x).lower() for x in [c.func.value] + list(c.args)):
        adhoc.append(fn.loc(c))
  ctx.check(not adhoc, 'C08.funnel', 'gin/config.py', 'no ad-hoc suffix matching on selectors outside SelectorMap',
            'ad-hoc suffix matching on selectors at %s' % adhoc, adhoc[0] if adhoc else 'gin/config.py', instance='no-endswith')
  ctx.borrow('C15', 'C15.known-first', 'C08.exact-first')     # a known name is never skipped, however it is spelled
