#!/venv/bin/python
"""Regenerates ginsa/canon_names.json (reference local names per function) from /repo/gin."""
import ast, json, os, sys
sys.path.insert(0, '/verif')
from ginsa.canon import table_for, TABLE
root = '/repo/gin'
out = {}
for dp, dn, fn in os.walk(root):
  for f in sorted(fn):
    if f.endswith('.py'):
      p = os.path.join(dp, f)
      mod = os.path.relpath(p, root)[:-3].replace(os.sep, '.')
      if mod.endswith('__init__'):
        mod = mod[:-len('.__init__')] if '.' in mod else '__init__'
      out[mod] = table_for(ast.parse(open(p).read()), mod)
json.dump(out, open(TABLE, 'w'), indent=0)
print('functions:', sum(len(v) for v in out.values()))
# who references whom (by simple name / self.method), for rename detection
from ginsa.canon import _functions
calls = {}
for dp, dn, fn in os.walk(root):
  for f in sorted(fn):
    if f.endswith('.py'):
      p = os.path.join(dp, f)
      mod = os.path.relpath(p, root)[:-3].replace(os.sep, '.')
      if mod.endswith('__init__'):
        mod = mod[:-len('.__init__')] if '.' in mod else '__init__'
      tree = ast.parse(open(p).read())
      m = {}
      for q, fnode in _functions(tree, mod):
        refs = set()
        for n in ast.walk(fnode):
          if isinstance(n, ast.Name) and isinstance(n.ctx, ast.Load):
            refs.add(n.id)
          elif isinstance(n, ast.Attribute) and isinstance(n.value, ast.Name) and n.value.id in ('self', 'cls'):
            refs.add('.' + n.attr)
        m[q] = sorted(refs)
      calls[mod] = m
json.dump(calls, open(os.path.join(os.path.dirname(TABLE), 'canon_refs.json'), 'w'), indent=0)

# identifiers the reference tree uses at all (names and attribute names): constructs outside this vocabulary are unfamiliar to the rules
vocab = set()
for dp, dn, fn in os.walk(root):
  for f in sorted(fn):
    if f.endswith('.py'):
      tree = ast.parse(open(os.path.join(dp, f)).read())
      for n in ast.walk(tree):
        if isinstance(n, ast.Name):
          vocab.add(n.id)
        elif isinstance(n, ast.Attribute):
          vocab.add(n.attr)
        elif isinstance(n, (ast.FunctionDef, ast.ClassDef)):
          vocab.add(n.name)
json.dump(sorted(vocab), open(os.path.join(os.path.dirname(TABLE), 'canon_vocab.json'), 'w'), indent=0)
print('vocabulary:', len(vocab))

# which reference functions are generators (a non-generator that became one, drained at once by all callers, is read back as a list builder)
gens = {}
for dp, dn, fn in os.walk(root):
  for f in sorted(fn):
    if f.endswith('.py'):
      p = os.path.join(dp, f)
      mod = os.path.relpath(p, root)[:-3].replace(os.sep, '.')
      if mod.endswith('__init__'):
        mod = mod[:-len('.__init__')] if '.' in mod else '__init__'
      tree = ast.parse(open(p).read())
      from ginsa.normalize import _own_walk
      gens[mod] = sorted(q for q, fnode in _functions(tree, mod)
                         if any(isinstance(n, (ast.Yield, ast.YieldFrom)) for n in _own_walk(fnode)))
json.dump(gens, open(os.path.join(os.path.dirname(TABLE), 'canon_shape.json'), 'w'), indent=0)
print('generators:', sum(len(v) for v in gens.values()))

# how the reference tree spells each argument of calls to its own functions / classes (positional or keyword), per callee simple name
spell = {}
for dp, dn, fn in os.walk(root):
  for f in sorted(fn):
    if f.endswith('.py'):
      p = os.path.join(dp, f)
      mod = os.path.relpath(p, root)[:-3].replace(os.sep, '.')
      if mod.endswith('__init__'):
        mod = mod[:-len('.__init__')] if '.' in mod else '__init__'
      tree = ast.parse(open(p).read())
      from ginsa.normalize import callee_signatures, bind_call
      sigs = callee_signatures(tree)
      m = {}
      for n in ast.walk(tree):
        if isinstance(n, ast.Call):
          b = bind_call(n, sigs)
          if b is None:
            continue
          name, params, bound, how = b
          for p_, h in how.items():
            m.setdefault(name, {}).setdefault(p_, {'pos': 0, 'kw': 0})[h] += 1
      spell[mod] = {k: {p_: ('pos' if c['pos'] >= c['kw'] else 'kw') for p_, c in v.items()} for k, v in m.items()}
json.dump(spell, open(os.path.join(os.path.dirname(TABLE), 'canon_calls.json'), 'w'), indent=0, sort_keys=True)
print('call spellings:', sum(len(v) for v in spell.values()))

# attributes each reference class stores on its instances (self.X = ...), for attribute rename detection
attrs = {}
for dp, dn, fn in os.walk(root):
  for f in sorted(fn):
    if f.endswith('.py'):
      p = os.path.join(dp, f)
      mod = os.path.relpath(p, root)[:-3].replace(os.sep, '.')
      if mod.endswith('__init__'):
        mod = mod[:-len('.__init__')] if '.' in mod else '__init__'
      tree = ast.parse(open(p).read())
      from ginsa.normalize import class_attrs
      attrs[mod] = class_attrs(tree)
json.dump(attrs, open(os.path.join(os.path.dirname(TABLE), 'canon_attrs.json'), 'w'), indent=0, sort_keys=True)
print('classes with attributes:', sum(len(v) for v in attrs.values()))

# attribute names in use anywhere on the reference tree (a "new" attribute name must not collide with one of these)
av = set()
for dp, dn, fn in os.walk(root):
  for f in sorted(fn):
    if f.endswith('.py'):
      for n in ast.walk(ast.parse(open(os.path.join(dp, f)).read())):
        if isinstance(n, ast.Attribute):
          av.add(n.attr)
attrs['__all__'] = sorted(av)
json.dump(attrs, open(os.path.join(os.path.dirname(TABLE), 'canon_attrs.json'), 'w'), indent=0, sort_keys=True)

# phase 2: the local-name table is taken from the reference tree *in normal form* (spelling passes applied: argument spelling,
# f-strings, annotations ...), because that is the form in which the current tree is compared with it
import importlib, ginsa.normalize as _N, ginsa.canon as _C
importlib.reload(_N)
out2 = {}
iface = {}
for dp, dn, fn in os.walk(root):
  for f in sorted(fn):
    if f.endswith('.py'):
      p = os.path.join(dp, f)
      mod = os.path.relpath(p, root)[:-3].replace(os.sep, '.')
      if mod.endswith('__init__'):
        mod = mod[:-len('.__init__')] if '.' in mod else '__init__'
      tree = ast.parse(open(p).read())
      try:
        _N.normalize(tree, mod)
        _N.post_canon(tree, mod)
      except Exception as e:
        print('normal form of reference', mod, 'failed:', e)
        tree = ast.parse(open(p).read())
      out2[mod] = table_for(tree, mod)
      iface[mod] = _C.interface_table(tree, mod)
changed = sum(1 for m in out2 for q in out2[m] if out2[m][q] != out.get(m, {}).get(q))
json.dump(out2, open(TABLE, 'w'), indent=0)
print('functions whose fingerprints differ in normal form:', changed)
json.dump(iface, open(os.path.join(os.path.dirname(TABLE), 'canon_iface.json'), 'w'), indent=0, sort_keys=True)
print('interfaces:', sum(len(v) for v in iface.values()))
