from _common import *
@gin.configurable(module='mod')
def fn(x=None): return x
def h1(cfg): return {'fn.x': 1}
def h2(cfg): return {'mod.fn.x': 2}
config.register_finalize_hook(h1); config.register_finalize_hook(h2)
try:
  gin.finalize()
  done(True, "two hooks updating fn.x / mod.fn.x: no conflict raised")
except ValueError as e:
  done('conflicting' not in str(e), "conflict detected: %s" % e)
