from ._h import S
C = 'config.py'
M = 'selector_map.py'
SEEDS = [
  S('singletons-not-cleared', 'C20.complete', C, "  _SINGLETONS.clear()\n", ""),
  S('imports-not-cleared', 'C20.complete', C, "  _IMPORTS.clear()\n", ""),
  S('imports-cleared-only-with-constants', 'C20.complete', C, "      _CONSTANTS[name] = value\n  _IMPORTS.clear()", "      _CONSTANTS[name] = value\n    _IMPORTS.clear()"),
  S('operative-not-cleared', 'C20.complete', C, "  with _OPERATIVE_CONFIG_LOCK:\n    _OPERATIVE_CONFIG.clear()", "  pass"),
  S('lock-kept', 'C20.complete', C, "  _set_config_is_locked(False)\n  _CONFIG.clear()", "  _CONFIG.clear()"),
  S('required-not-readded', 'C20.complete', C, "    _CONSTANTS.clear()\n    _CONSTANTS['gin.REQUIRED'] = REQUIRED", "    _CONSTANTS.clear()"),
  S('constants-lost-without-flag', 'C20.complete', C, "    for name, value in saved_constants.items():\n      # Re-insert directly: `constant` would reject names it accepted before\n      # (e.g. suffix-sharing constants defined in interactive mode).\n      _CONSTANTS[name] = value\n", "    _CONSTANTS['gin.REQUIRED'] = REQUIRED\n"),
  S('map-clear-one-field', 'C20.complete', M, "    self._selector_tree.clear()\n    self._selector_map.clear()", "    self._selector_map.clear()"),
  S('restore-through-constant', 'C20.total', C, "      _CONSTANTS[name] = value\n  _IMPORTS.clear()", "      constant(name, value)\n  _IMPORTS.clear()", 'F15 re-introduced'),
  S('clear-refuses-when-locked', 'C20.total', C, "  _set_config_is_locked(False)\n  _CONFIG.clear()", "  if config_is_locked() and _INTERACTIVE_MODE:\n    raise RuntimeError('locked')\n  _set_config_is_locked(False)\n  _CONFIG.clear()"),
  S('new-uncleared-cache', 'C20.classified', C, "def current_scope_str():\n  return '/'.join(current_scope())", "_SCOPE_STR_CACHE = {}\n\n\ndef current_scope_str():\n  key = tuple(current_scope())\n  if key not in _SCOPE_STR_CACHE:\n    _SCOPE_STR_CACHE[key] = '/'.join(key)\n  return _SCOPE_STR_CACHE[key]"),
]
