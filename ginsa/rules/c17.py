"""C17 Exceptions from configurables keep their type, data and traceback."""
import ast

from ..core import AnalysisError, u, walk_local
from ..lib import construct, returns_of
from .wrapper import WrapperModel
from .common import module_has_no_state

AUG = 'utils.augment_exception_message_and_reraise'


def run(ctx):
  prog = ctx.prog
  ctx.assume('T5')
  au = ctx.func(AUG)
  con = construct(au)
  module_has_no_state(ctx, 'C17.subclass', 'utils', 'the proxy class must be derived from the class of *this* exception; proxies remembered per '
                      'class name are wrong for a second class with the same qualified name')
  exc = au.params[0]
  proxy = au.nested.get('ExceptionProxy')
  raises = [n for n in walk_local(au.node) if isinstance(n, ast.Raise)]
  if proxy is None:
    # re-raising the original object itself satisfies every clause
    same = all(n.exc is None or u(n.exc) == exc or u(n.exc).startswith(exc + '.with_traceback') for n in raises)
    ctx.check(same and raises, 'C17.forward-all', con, 'the original exception object itself is re-raised',
              'no proxy class and the raised object is not the original exception', au.loc())
    return
  pcon = con + '.ExceptionProxy'
  # ---- C17.subclass
  ctx.check(proxy.base_names() == ['type(%s)' % exc], 'C17.subclass', pcon, 'the raised object\'s class derives from the class of the original exception',
            'the proxy derives from %s: `except OriginalClass` no longer catches it' % proxy.base_names(), au.loc(proxy.node), instance='base')
  assigned = {}
  for n in walk_local(au.node):
    if isinstance(n, ast.Assign) and isinstance(n.targets[0], ast.Attribute) and u(n.targets[0].value) == proxy.name:
      assigned[n.targets[0].attr] = u(n.value)
  for name, v, st in proxy.class_level_assigns():
    assigned[name] = u(v)
  want = {'__name__': 'type(%s).__name__' % exc, '__qualname__': 'type(%s).__qualname__' % exc, '__module__': 'type(%s).__module__' % exc}
  ctx.check(all(assigned.get(k) == v for k, v in want.items()), 'C17.subclass', pcon, 'the proxy class takes the original class\'s name, qualname and module',
            'proxy class metadata is %s' % {k: assigned.get(k) for k in want}, au.loc(proxy.node), instance='metadata')
  # nothing else is defined on the proxy class: a class attribute is found before __getattr__ forwards, and hides the original's
  # attribute of that name
  extra = [name for name, v, st in proxy.class_level_assigns() if name not in ('__module__', '__qualname__', '__name__', '__doc__', '__slots__')]
  extra += [m_ for m_ in proxy.methods if m_ not in ('__init__', '__new__', '__getattr__', '__getattribute__', '__str__', '__repr__', '__reduce__', '__reduce_ex__',
                                                     '__setattr__', '__delattr__', '__dir__')]
  ctx.check(not extra, 'C17.forward-all', pcon, 'the proxy class defines nothing that could shadow an attribute of the original exception',
            'the proxy class defines %s: a raised exception that carries data under that name shows Gin\'s value instead of its own' % sorted(extra),
            au.loc(proxy.node), instance='no-shadowing')
  # ---- C17.traceback
  ok = bool(raises) and all(isinstance(n.exc, ast.Call) and isinstance(n.exc.func, ast.Attribute) and n.exc.func.attr == 'with_traceback'
                            and len(n.exc.args) == 1 and u(n.exc.args[0]) == exc + '.__traceback__' for n in raises)
  ctx.check(ok, 'C17.traceback', con, 'the raise carries the original traceback', 'the re-raise drops the original traceback (`%s`)' % [u(n) for n in raises],
            au.loc(raises[0]) if raises else au.loc(), instance='with_traceback')
  strm = proxy.methods.get('__str__')
  rv = [u(r.value).replace(' ', '') for r in returns_of(strm)] if strm else []
  ctx.check(rv == ['str(%s)+%s' % (exc, au.params[1])], 'C17.traceback', pcon, 'only the message is extended (str(original) + location text)',
            '__str__ of the proxy is %s' % rv, strm.loc() if strm else au.loc(), instance='message')

  # ---- C17.exception-only
  w = WrapperModel(ctx)
  tw = ctx.func('utils.try_with_location')
  for f in (w.f, tw):
    hs = [n for n in walk_local(f.node) if isinstance(n, ast.ExceptHandler)]
    callers = [h for h in hs if any(isinstance(c, ast.Call) and prog.resolve_call(f, c) == AUG for c in ast.walk(h))]
    ctx.expect_at_least('handlers that augment and re-raise in %s' % f.name, len(callers), 1)
    ok = all(h.type is not None and u(h.type) == 'Exception' for h in callers)
    ctx.check(ok, 'C17.exception-only', construct(f), 'only Exception subclasses are intercepted; KeyboardInterrupt / SystemExit pass through untouched',
              'the handler catches %s' % [u(h.type) if h.type is not None else 'everything' for h in callers], f.loc(callers[0]), instance='except-Exception')
    passed = all(any(isinstance(c, ast.Call) and prog.resolve_call(f, c) == AUG and c.args and u(c.args[0]) == h.name for c in ast.walk(h)) for h in callers)
    ctx.check(passed, 'C17.exception-only', construct(f), 'the caught exception object itself is handed to the re-raiser', 'the handler no longer passes the caught exception', f.loc(callers[0]), instance='passes-exception')

  # no other handler on the way converts or swallows what a configurable raises: a handler around a call through a *value*
  # (the wrapped function, a reference's configurable, a hook, the body of a `with` block) hands the caught exception on itself
  import builtins
  n_handlers = 0
  for f in ctx.ix.all_funcs(['config', 'utils']):
    if not hasattr(f, 'node') or isinstance(f.node, ast.ClassDef):
      continue
    locs = f.local_names() | set(f.params)
    o_ = f.outer
    while o_ is not None:
      locs |= o_.local_names() | set(o_.params)
      o_ = o_.outer
    imps = f.module.imports
    for tr in [t for t in walk_local(f.node) if isinstance(t, ast.Try) and t.handlers]:
      value_calls = []
      for st in tr.body:
        for x in ast.walk(st):
          if isinstance(x, (ast.Yield, ast.YieldFrom)):
            value_calls.append('the block run at `yield`')
          if not isinstance(x, ast.Call) or prog.resolve_call(f, x):
            continue
          root = x.func
          while isinstance(root, (ast.Attribute, ast.Subscript, ast.Call)):
            root = root.value if not isinstance(root, ast.Call) else root.func
          if not isinstance(root, ast.Name):
            continue
          if isinstance(x.func, ast.Name):
            if root.id in locs and root.id not in imps:
              value_calls.append(u(x.func))
          elif root.id in ('self', 'cls') or (root.id in locs and root.id not in imps):
            # a method of a builtin container / string is not user code
            if isinstance(x.func, ast.Attribute) and x.func.attr in dir(dict) + dir(list) + dir(str) + dir(set) + dir(tuple) and \
                not x.func.attr.startswith('_'):
              continue
            value_calls.append(u(x.func))
      if not value_calls:
        continue
      for h in tr.handlers:
        n_handlers += 1
        nm = h.name
        rs = [r for r in ast.walk(h) if isinstance(r, ast.Raise)]
        aug = any(isinstance(c, ast.Call) and prog.resolve_call(f, c) == AUG and c.args and u(c.args[0]) == nm for c in ast.walk(h))
        same = bool(rs) and all(r.exc is None or (nm and (u(r.exc) == nm or u(r.exc).startswith(nm + '.with_traceback'))) for r in rs)
        # the handler must end in one of them on every path: its last statement re-raises
        last = h.body[-1]
        ends = isinstance(last, ast.Raise) or (isinstance(last, ast.Expr) and isinstance(last.value, ast.Call) and prog.resolve_call(f, last.value) == AUG)
        ctx.check((aug or same) and ends, 'C17.exception-only', construct(f),
                  '`except %s` around %s hands the caught exception on itself' % (u(h.type) if h.type else '', value_calls[0]),
                  '`except %s` around the call through `%s` %s: an exception raised by the configurable (or the reference / hook / block run there) reaches '
                  'the caller as a different class, or not at all' % (u(h.type) if h.type else '(bare)', value_calls[0],
                                                                    'raises `%s` instead of the caught exception' % u(rs[-1].exc) if rs and rs[-1].exc is not None else 'does not re-raise'),
                  f.loc(h), instance='handler:%s:%s' % (f.name, u(h.type) if h.type else 'bare'))
  ctx.expect_at_least('handlers around calls through values in config.py / utils.py', n_handlers, 2)

  # ---- C17.forward-all
  has_gattr = '__getattr__' in proxy.methods
  has_gattribute = '__getattribute__' in proxy.methods
  init = proxy.methods.get('__init__')
  copies_state = False
  for n in walk_local(au.node):
    if isinstance(n, ast.Call) and u(n.func).endswith('__dict__.update'):
      copies_state = True
    if isinstance(n, ast.Assign) and isinstance(n.targets[0], ast.Attribute) and n.targets[0].attr == 'args':
      copies_state = True
  if init is not None:
    for n in walk_local(init.node):
      if isinstance(n, ast.Call) and isinstance(n.func, ast.Attribute) and n.func.attr == '__init__':
        copies_state = copies_state or bool(n.args)
  ok = has_gattribute or copies_state
  ctx.check(ok, 'C17.forward-all', pcon, 'every attribute read on the proxy is forwarded to (or copied from) the original',
            'the proxy forwards attribute reads through __getattr__ only, which runs only when normal lookup fails: `args` and the type-specific '
            'fields of builtin exceptions (errno, filename, value, name, ...) are data descriptors of the base class and are found by normal '
            'lookup on the freshly created, argument-less proxy, so they read () / None instead of the original\'s values',
            au.loc(proxy.methods['__getattr__'].node) if has_gattr else au.loc(proxy.node), instance='__getattr__-only')
  ga = proxy.methods.get('__getattr__') or proxy.methods.get('__getattribute__')
  if ga is not None:
    rv = [r.value for r in returns_of(ga) if r.value is not None]
    name_p = ga.params[1] if len(ga.params) > 1 else None
    okf = bool(rv) and all(isinstance(v, ast.Call) and u(v.func) == 'getattr' and len(v.args) == 2 and u(v.args[0]) == exc and u(v.args[1]) == name_p for v in rv)
    ctx.check(okf, 'C17.forward-fallback', pcon, 'attributes not found on the proxy are read from the original with getattr(original, name)',
              'the fallback lookup is `%s`, not getattr(original, name): attributes kept in __slots__, properties, class attributes and the '
              'attributes of an already proxied (nested) exception are no longer readable' % [u(v) for v in rv], ga.loc(), instance='getattr')
  # ---- C17.constructible
  ctor = [c for c in walk_local(au.node) if isinstance(c, ast.Call) and u(c.func) == proxy.name]
  zero = [c for c in ctor if not c.args and not c.keywords]
  overrides_new = '__new__' in proxy.methods
  uses_new = any(isinstance(c, ast.Call) and u(c.func).endswith('.__new__') for c in walk_local(au.node))
  ok = not zero or overrides_new or uses_new
  overrides_init = '__init__' in proxy.methods
  rerun = [c for c in ctor if (c.args or c.keywords)] if not overrides_new else []
  if ctor and (not overrides_init or rerun) and not uses_new:
    ctx.fail('C17.constructible', pcon,
             'the proxy is created by calling `%s` %s: the original class\'s constructor is re-run on e.args, which fails (TypeError instead of the '
             'original exception) for every class whose constructor signature differs from its args, e.g. __init__(self, resource, limit) calling '
             'super().__init__(message)' % (u(ctor[0]), 'with the original\'s __init__ not overridden' if not overrides_init else 'with arguments'),
             au.loc(ctor[0]), instance='ctor-rerun')
  ctx.check(ok, 'C17.constructible', pcon, 'the proxy is created without calling the original class\'s constructor with no arguments',
            'the proxy is created with `%s()`: only __init__ is overridden, so the original class\'s __new__ runs with no arguments and raises '
            'TypeError for classes whose __new__ requires arguments (exception groups, user classes): the caller receives a TypeError instead of the original exception'
            % proxy.name, au.loc(zero[0]) if zero else au.loc(), instance='zero-arg-new')
