"""C03 Statements are recovered exactly, whatever the layout of the config text."""
import ast

from ..cfg import witness
from ..core import AnalysisError, u, walk_local, enclosing_stmt
from ..lib import (positional_args, construct, std_facts, def_of, facts_imply, calls_of_node,
                   in_subtree, returns_of, facts_at, all_match_form)
from .c02 import eos, consuming_methods, CP, alternatives, indirect_callees, is_decline
from .common import instance_state

KINDS = ['BindingStatement', 'BlockDeclaration', 'ImportStatement', 'IncludeStatement']


def run(ctx):
  prog = ctx.prog
  ctx.assume('T12')
  # ---- C03.selector-guard
  f = ctx.func(CP + '._parse_selector')
  con = construct(f)
  g, facts = std_facts(prog, f)
  rets = [n for n in g.live_nodes() if n.kind == 'return' and n.ast.value is not None]
  ctx.expect_at_least('returns of _parse_selector', len(rets), 1)
  joined = raw = None
  for n in walk_local(f.node):
    if isinstance(n, ast.Assign) and isinstance(n.value, ast.Call) and u(n.value.func) == "''.join":
      joined = u(n.targets[0])
    if isinstance(n, ast.Assign) and isinstance(n.value, ast.Subscript) and isinstance(n.value.slice, ast.Slice) and \
        (u(n.value.value) == 'line' or u(n.value.value).endswith('.line')):
      raw = u(n.targets[0])      # a slice of the source line of a token
  # roles: the '/'-components of the joined text
  split_names, before_last, last = set(), set(), set()

  def is_split_expr(e):
    return isinstance(e, ast.Call) and isinstance(e.func, ast.Attribute) and e.func.attr == 'split' and u(e.func.value) == joined \
        and len(e.args) == 1 and isinstance(e.args[0], ast.Constant) and e.args[0].value == '/'
  for n in walk_local(f.node):
    if isinstance(n, ast.Assign) and is_split_expr(n.value):
      t = n.targets[0]
      if isinstance(t, ast.Name):
        split_names.add(t.id)
      elif isinstance(t, ast.Tuple) and len(t.elts) == 2 and isinstance(t.elts[0], ast.Starred) and isinstance(t.elts[0].value, ast.Name) \
          and isinstance(t.elts[1], ast.Name):
        before_last.add(t.elts[0].value.id)
        last.add(t.elts[1].id)

  def is_parts(e):
    return (isinstance(e, ast.Name) and e.id in split_names) or is_split_expr(e)

  def is_before_last(e):
    if isinstance(e, ast.Name) and e.id in before_last:
      return True
    return isinstance(e, ast.Subscript) and is_parts(e.value) and isinstance(e.slice, ast.Slice) and e.slice.lower is None \
        and e.slice.step is None and e.slice.upper is not None and u(e.slice.upper) == '-1'

  def is_last(e):
    if isinstance(e, ast.Name) and e.id in last:
      return True
    return isinstance(e, ast.Subscript) and is_parts(e.value) and u(e.slice) == '-1'

  def only_one(e):
    t = u(e).replace(' ', '')
    if isinstance(e, ast.Compare) and len(e.ops) == 1 and isinstance(e.ops[0], ast.Eq) and isinstance(e.left, ast.Call) and u(e.left.func) == 'len' \
        and is_parts(e.left.args[0]) and u(e.comparators[0]) == '1':
      return True
    if isinstance(e, ast.UnaryOp) and isinstance(e.op, ast.Not) and isinstance(e.operand, ast.Name) and e.operand.id in before_last:
      return True
    if isinstance(e, ast.Compare) and len(e.ops) == 1 and isinstance(e.ops[0], ast.Eq) and isinstance(e.left, ast.Call) and u(e.left.func) == 'len' \
        and isinstance(e.left.args[0], ast.Name) and e.left.args[0].id in before_last and u(e.comparators[0]) == '0':
      return True
    return False

  def re_leaves(e, depth=0):
    """Regex constants an expression can denote, with the condition under which MODULE_RE is chosen checked."""
    if depth > 4:
      return {'?'}
    if isinstance(e, ast.IfExp):
      t = u(e.test)
      if t == 'allow_periods_in_scope' and u(e.body) == 'MODULE_RE' and u(e.orelse) == 'IDENTIFIER_RE':
        return {'MODULE_RE@allow', 'IDENTIFIER_RE'}
      if t == 'not allow_periods_in_scope' and u(e.orelse) == 'MODULE_RE' and u(e.body) == 'IDENTIFIER_RE':
        return {'MODULE_RE@allow', 'IDENTIFIER_RE'}
      return {'?'}
    if isinstance(e, ast.Name) and e.id.isupper():
      return {e.id}
    if isinstance(e, ast.Name):
      out = set()
      defs = [a for a in walk_local(f.node) if isinstance(a, ast.Assign) and len(a.targets) == 1 and u(a.targets[0]) == e.id]
      if not defs:
        return {'?'}
      for a in defs:
        lv = re_leaves(a.value, depth + 1)
        fs = facts_at(g, facts, a) or frozenset()
        if lv == {'MODULE_RE'} and ('c', 'allow_periods_in_scope', True) in fs:
          lv = {'MODULE_RE@allow'}
        out |= lv
      return out
    return {'?'}

  def atom(e):
    if isinstance(e, ast.Call) and u(e.func) == 'bool' and len(e.args) == 1:
      e = e.args[0]
    if isinstance(e, ast.Compare) and len(e.ops) == 1 and isinstance(e.ops[0], ast.Eq) and {u(e.left), u(e.comparators[0])} == {raw, joined}:
      return 'raw_eq'
    am = all_match_form(e)
    if am is not None:
      fn_, xs, positive = am
      try:
        fe = ast.parse(fn_, mode='eval').body
      except SyntaxError:
        return None
      if isinstance(fe, ast.Attribute) and fe.attr == 'match' and is_before_last(xs) and re_leaves(fe.value) == {'MODULE_RE@allow', 'IDENTIFIER_RE'}:
        return 'scopes_match' if positive else ('scopes_match', True)
      return None
    # RE.match(last)  /  RE.match(last) is not None  /  RE.match(last) is None
    neg = False
    m = e
    if isinstance(e, ast.Compare) and len(e.ops) == 1 and isinstance(e.ops[0], (ast.Is, ast.IsNot)) and u(e.comparators[0]) == 'None':
      m, neg = e.left, isinstance(e.ops[0], ast.Is)
    if isinstance(m, ast.Call) and isinstance(m.func, ast.Attribute) and m.func.attr in ('match', 'fullmatch') and len(m.args) == 1 and is_last(m.args[0]) \
        and re_leaves(m.func.value) == {'MODULE_RE'}:
      return ('selector_match', True) if neg else 'selector_match'
    if u(e) == 'scoped':
      return 'scoped'
    if only_one(e):
      return 'one'
    if is_before_last(e):
      return ('one', True)        # a non-empty list of scope components: more than one component
    return None
  labels = [('inner whitespace rejected (raw text == joined tokens)', 'raw_eq'),
            ('every scope component matches the scope regex (identifier; dotted only where periods are allowed)', 'scopes_match'),
            ('the last component matches the selector regex MODULE_RE', 'selector_match'),
            ('scopes only where allowed', 'scoped or one')]
  for n in rets:
    miss = facts_imply(facts[n.id], labels, atom)
    ctx.check(not miss, 'C03.selector-guard', con,
              'the selector is returned only if the raw text between its first and last token equals the joined tokens, every scope component '
              'and the last component match their regexes, and scopes appear only where allowed',
              'the scoped-name scanner returns although `%s` is not enforced: names with internal whitespace / malformed components are '
              'silently repaired or accepted instead of rejected' % '; '.join(l for l, _ in miss), f.loc(n.ast), instance='return-guard')
  # the raw text really is the slice from the first to the last consumed token
  okraw = False
  for n in walk_local(f.node):
    if isinstance(n, ast.Assign) and u(n.targets[0]) == raw:
      sl = n.value.slice
      okraw = u(sl.lower) == 'begin_char_num' and u(sl.upper) == 'end_char_num'
  ctx.check(okraw and joined, 'C03.selector-guard', con, 'raw text = line[first token start : last token end]', 'the raw-text slice changed', f.loc(), instance='raw-slice')

  # ---- C03.kinds
  produced = set()
  c = ctx.cls(CP)
  for name, m in c.methods.items():
    for call in walk_local(m.node):
      if isinstance(call, ast.Call):
        q = prog.resolve_call(m, call)
        if q and q.split('.')[-1] in KINDS and q.startswith('config_parser.'):
          produced.add(q.split('.')[-1])
  pc = ctx.func('config.parse_config')
  consumed = set()
  loop = [n for n in walk_local(pc.node) if isinstance(n, ast.For)]
  chain_else_raises = False
  for n in walk_local(pc.node):
    if isinstance(n, ast.Call) and u(n.func) == 'isinstance' and len(n.args) == 2 and u(n.args[1]).startswith('config_parser.'):
      consumed.add(u(n.args[1]).split('.')[-1])
  g_pc, f_pc = std_facts(prog, pc)
  for n in g_pc.live_nodes():
    if n.kind == 'raise_stmt' and n.loops:
      neg = {fct[1] for fct in f_pc[n.id] if fct[0] == 'c' and fct[2] is False and fct[1].startswith('isinstance(statement, config_parser.')}
      if len(neg) >= len(KINDS):
        chain_else_raises = True
  ctx.check(produced == consumed and produced == set(KINDS), 'C03.kinds', construct(pc),
            'the statement kinds the parser produces are exactly those the consumer dispatches on: %s' % sorted(produced),
            'parser produces %s, consumer handles %s' % (sorted(produced), sorted(consumed)), pc.loc(), instance='agree')
  ctx.check(chain_else_raises, 'C03.kinds', construct(pc), 'an unrecognised statement kind raises', 'the dispatch chain no longer ends in a raising else', pc.loc(), instance='else-raises')
  # BindingStatement built from the parsed key
  ps = ctx.func(CP + '.parse_statement')
  okb = False
  unpack = False
  key_parts, key_whole = None, set()
  for n in walk_local(ps.node):
    if isinstance(n, ast.Assign) and isinstance(n.value, ast.Call) and u(n.value.func) == 'parse_binding_key' and len(n.targets) == 1:
      if isinstance(n.targets[0], ast.Tuple) and len(n.targets[0].elts) == 3:
        key_parts = [u(e) for e in n.targets[0].elts]
      elif isinstance(n.targets[0], ast.Name):
        key_whole.add(n.targets[0].id)
  for n in walk_local(ps.node):
    if isinstance(n, ast.Call) and u(n.func) == 'BindingStatement':
      a = positional_args(ctx.ix, n) if n.keywords else list(n.args)
      if a is None:
        continue
      if key_parts and len(a) >= 4 and [u(x) for x in a[:3]] == key_parts and u(a[3]) == 'value':
        okb, unpack = True, True
      # BindingStatement(*key, value, loc): the three parts in the order the key splitter returns them
      if len(a) >= 2 and isinstance(a[0], ast.Starred) and (u(a[0].value) in key_whole or u(a[0].value).startswith('parse_binding_key(')) and u(a[1]) == 'value':
        okb, unpack = True, True
  ctx.check(okb and unpack, 'C03.kinds', construct(ps), 'a binding statement carries (scope, selector, parameter, value) from the key splitter in that order',
            'BindingStatement fields are no longer (scope, selector, arg_name, value) from parse_binding_key', ps.loc(), instance='binding-fields')

  # keyword statements are recognised only when the name is followed by neither '=' nor ':' (so `include = 1` / `from: ...` stay bindings)
  g_ps, f_ps = std_facts(prog, ps)
  kw_nodes = [n for n in g_ps.live_nodes() if any(prog.resolve_call(ps, cc) == CP + '._parse_import' for cc in calls_of_node(n)) or
              (n.kind == 'stmt' and isinstance(n.ast, ast.Assign) and isinstance(n.ast.value, ast.Call) and u(n.ast.value.func) == 'IncludeStatement')]
  okd = bool(kw_nodes)
  for n in kw_nodes:
    fs = f_ps[n.id]
    okd = okd and ('c', "self._current_token.string == '='", False) in fs and ('c', "self._current_token.string == ':'", False) in fs
  ctx.check(okd, 'C03.kinds', construct(ps), "`import` / `from` / `include` are keywords only when not followed by '=' or ':'",
            "a statement whose name is import / from / include is treated as a keyword statement even when it is followed by '=' or ':': "
            "the macro definition `include = 'x'` (or a block named so) is no longer read as a binding", ps.loc(), instance='dispatch-order')

  # import grammar: `import M [as N]` / `from M import N [as N]` - M a dotted path, every N one plain identifier
  pi_ = ctx.func(CP + '._parse_import')
  g_pi, f_pi = std_facts(prog, pi_)
  ident = CP + '._parse_identifier'
  sel = CP + '._parse_selector'
  names_ok, why_i = True, ''
  n_sites = 0
  for n_ in g_pi.live_nodes():
    for cc in calls_of_node(n_):
      q_ = prog.resolve_call(pi_, cc)
      if q_ not in (ident, sel):
        continue
      n_sites += 1
      after_import = ('call', CP + '._expect') in f_pi[n_.id] or any(f_[0] == 'c' and "== 'import'" in f_[1] and "self._current_token" in f_[1] for f_ in f_pi[n_.id])
      after_as = any(f_[0] == 'c' and f_[2] is True and f_[1].replace(' ', '') == "self._current_token.string=='as'" for f_ in f_pi[n_.id])
      if (after_import or after_as) and q_ != ident:
        names_ok = False
        why_i = 'the name after `%s` is read by `%s`' % ('as' if after_as else 'import', u(cc.func))
  ctx.expect_at_least('name-reading calls in the import parser', n_sites, 3)
  ctx.check(names_ok, 'C03.kinds', construct(pi_), 'in an import statement the imported name and the alias are single identifiers',
            'import grammar changed: %s -- a dotted name there (`from a import b.c`) is accepted instead of rejected' % why_i, pi_.loc(), instance='import-names')

  def _selector_modes():
    # selector modes: a reference / macro name may carry a dotted scope (`@pkg.mod/fn`), an imported module is never scoped
    from ..lib import param_values
    self_fn = ctx.func(sel)
    sparams = [a_.arg for a_ in self_fn.node.args.args]
    if 'scoped' not in sparams or 'allow_periods_in_scope' not in sparams:
      raise AnalysisError('_parse_selector no longer takes (scoped, allow_periods_in_scope): %s' % sparams)
    WANT = {'_maybe_parse_configurable_reference': (True, True, 'a reference'), '_maybe_parse_macro': (True, True, 'a macro'),
            '_parse_import': (False, None, 'an import')}
    n_modes = 0
    for mname, (w_scoped, w_periods, what) in WANT.items():
      mf = ctx.func(CP + '.' + mname)
      for cc in walk_local(mf.node):
        if not (isinstance(cc, ast.Call) and prog.resolve_call(mf, cc) == sel):
          continue
        pv = param_values(self_fn, cc)
        if pv is None:
          raise AnalysisError('%s calls _parse_selector with arguments this rule cannot bind: `%s`' % (mname, u(cc)))
        got = {}
        for k_ in ('scoped', 'allow_periods_in_scope'):
          e_ = pv.get(k_)
          if not (isinstance(e_, ast.Constant) and isinstance(e_.value, bool)):
            raise AnalysisError('%s passes a non-constant %s to _parse_selector: `%s`' % (mname, k_, u(cc)))
          got[k_] = e_.value
        n_modes += 1
        okm = got['scoped'] == w_scoped and (w_periods is None or got['allow_periods_in_scope'] == w_periods)
        ctx.check(okm, 'C03.kinds', construct(mf), 'the name of %s is read with scoped=%s%s' % (what, w_scoped, '' if w_periods is None else ', allow_periods_in_scope=%s' % w_periods),
                  'the name of %s is read with scoped=%s, allow_periods_in_scope=%s (`%s`): %s' % (
                      what, got['scoped'], got['allow_periods_in_scope'], u(cc),
                      'a dotted scope (`@pkg.mod/fn`, `%pkg.mod/name`) is rejected instead of recovered' if w_scoped else 'a scoped module name is accepted'),
                  mf.loc(cc), instance='selector-mode:' + mname)
    ctx.expect_at_least('selector-reading calls with a fixed mode', n_modes, 3)
  ctx.section(_selector_modes)

  # ---- C03.queue
  init = c.methods.get('__init__')
  qinit = [n for n in walk_local(init.node) if isinstance(n, ast.Assign) and u(n.targets[0]) == 'self._statements_queue']
  okq = len(qinit) == 1 and u(qinit[0].value) == 'collections.deque()'
  g, facts = std_facts(prog, ps)
  cons, _ = consuming_methods(ctx)
  drains = [n for n in g.live_nodes() if n.kind == 'return' and n.ast.value is not None and 'self._statements_queue.' in u(n.ast.value)]
  okd = bool(drains) and all(u(n.ast.value) == 'self._statements_queue.popleft()' for n in drains)
  cnodes = [n for n in g.live_nodes() if any(prog.resolve_call(ps, cc) in cons for cc in calls_of_node(n))]
  qtest = [n for n in g.live_nodes() if n.kind == 'test' and u(n.ast) == 'self._statements_queue']
  okfirst = bool(qtest) and all(witness(g, g.entry.id, [cn.id], avoid=[qtest[0].id]) is None for cn in cnodes)
  fills = [cc for n in g.live_nodes() for cc in calls_of_node(n) if u(cc.func).startswith('self._statements_queue.')
           and cc.func.attr not in ('popleft',)]
  if not fills:
    # the block parser may queue its members itself (after the whole block was read)
    fills = [cc for m_ in c.methods.values() for cc in walk_local(m_.node) if isinstance(cc, ast.Call) and u(cc.func).startswith('self._statements_queue.')
             and cc.func.attr not in ('popleft',)]
  okf = bool(fills) and all(cc.func.attr == 'extend' for cc in fills)
  ctx.check(okq and okd and okf, 'C03.queue', construct(ps), 'block members are queued with extend and drained with popleft (FIFO: source order)',
            'the block queue is %s / drained by %s / filled by %s: block members would not be yielded in source order'
            % ([u(x.value) for x in qinit], [u(n.ast.value) for n in drains], [u(x.func) for x in fills]), ps.loc(), instance='fifo')
  ctx.check(okfirst, 'C03.queue', construct(ps), 'queued members are yielded before any further token is read',
            'tokens can be consumed while queued block members are pending', ps.loc(), instance='drain-first')
  bb = ctx.func(CP + '._parse_binding_block')
  apps = [cc for cc in walk_local(bb.node) if isinstance(cc, ast.Call) and isinstance(cc.func, ast.Attribute) and cc.func.attr in ('append', 'insert', 'appendleft')]
  ctx.check(bool(apps) and all(cc.func.attr == 'append' for cc in apps), 'C03.queue', construct(bb), 'members are collected in source order (append)',
            'block members are collected with %s' % [cc.func.attr for cc in apps], bb.loc(), instance='collect-order')
  hdr = [n for n in walk_local(ps.node) if isinstance(n, ast.Assign) and isinstance(n.value, ast.Call)
         and prog.resolve_call(ps, n.value) == bb.qual]
  ctx.check(bool(hdr), 'C03.queue', construct(ps), 'the block header is returned as the statement, its members follow from the queue',
            'parse_statement no longer returns the block header first', ps.loc(), instance='header-first')

  # ---- C03.split
  pk = ctx.func('config_parser.parse_binding_key')
  sp = ctx.func('config_parser.parse_scoped_selector')
  for fn, sepc, inst, good, bad_msg, spec in (
      (pk, '.', 'last-dot', "the parameter is split off at the last '.'; without a '.' the whole key is the selector",
       'binding keys are not split at the last `.`: `a/b/c.d.e` no longer means configurable c.d, parameter e (or a key without `.` is no longer a bare selector)',
       {True: (None, ('HEAD',), ('TAIL',)), False: (None, ('X',), ())}),
      (sp, '/', 'last-slash', "the scope is split off at the last '/'; without a '/' the scope is empty",
       'scoped selectors are not split at the last `/`: `a/b/c` no longer means scope a/b, selector c',
       {True: (('HEAD',), ('TAIL',)), False: ((), ('X',))})):
    got = {}
    why = ''
    for has in (True, False):
      try:
        got[has] = split_semantics(fn, sepc, has)
      except Uninterpreted as e:
        raise AnalysisError('%s: the splitting code uses a form this rule cannot interpret (%s)' % (fn.qual, e))
      want = spec[has]
      okc = got[has] is not None and len(got[has]) == len(want) and all(w is None or g_ == w for g_, w in zip(got[has], want))
      if not okc:
        why += ' [%s `%s`: returns %s, expected %s]' % ('with' if has else 'without', sepc, show(got[has]), show(want))
    ctx.check(not why, 'C03.split', construct(fn), good, bad_msg + why, fn.loc(), instance=inst)

  eos(ctx, 'C03.eos')
  normal_form(ctx)
  # membership of a token text in a *string* constant is a substring test: '' (the text of a synthesised NEWLINE/ENDMARKER token) is in every string
  n_in = 0
  for m in ctx.cls(CP).methods.values():
    for cmpn in walk_local(m.node):
      if isinstance(cmpn, ast.Compare) and len(cmpn.ops) == 1 and isinstance(cmpn.ops[0], (ast.In, ast.NotIn)) and 'string' in u(cmpn.left):
        n_in += 1
        r = cmpn.comparators[0]
        bad = isinstance(r, ast.Constant) and isinstance(r.value, str) and len(r.value) > 1 and not (m.name == '_advance_one_token')
        ctx.check(not bad, 'C03.selector-guard', construct(m), 'token text `%s` is tested against a tuple/list of alternatives' % u(cmpn)[:60],
                  'token text is tested with `%s`, a *substring* test on a string constant: the empty text of the NEWLINE/ENDMARKER token the tokenizer '
                  'synthesises at the end of a text without trailing newline also matches, so the scanner swallows the statement terminator' % u(cmpn),
                  m.loc(cmpn), instance='membership:' + u(cmpn)[:50])
  ctx.expect_at_least('token-text membership tests in the parser', n_in, 1)
  instance_state(ctx, 'C03.queue', CP, {'_token_generator', '_filename', '_current_token', '_delegate', '_within_block', '_statements_queue'},
                 'parser state beyond the token cursor, the block flag and the statement queue changes how a layout is read')
  ctx.borrow('C15', 'C15.consumer', 'C03.kinds', instances={'binding', 'block', 'macro'})     # flat and block form skip alike



def normal_form(ctx):
  """AGREE: every value alternative that succeeds leaves the cursor in the
  same normal form -- after any trailing comments / line breaks -- so that a
  comment or a line break after a value (flat, in a block or inside a
  bracket) is skipped whatever kind of value precedes it."""
  prog = ctx.prog
  cons, _ = consuming_methods(ctx)
  c = ctx.cls(CP)
  skip = CP + '._skip_whitespace_and_comments'
  if skip not in cons:
    raise AnalysisError('_skip_whitespace_and_comments no longer moves the cursor')
  enders = {skip}

  def callees_of(m, cc):
    return indirect_callees(prog, m, cc)

  def last_consumers(m):
    """For each accepting exit of m: the consuming nodes that can be the last one before it."""
    g = prog.cfg(m)
    cids = {n.id: n for n in g.live_nodes() if any(q in cons for cc in calls_of_node(n) for q in callees_of(m, cc))}
    out = []
    exits = [g.nodes[a] for a, _ in g.pred[g.exit.id]]
    for r in exits:
      v = r.ast.value if r.kind == 'return' else None
      if is_decline(prog, v):
        continue   # a decline consumed nothing (C02.backtrack)
      if r.id in cids:
        out.append((r, [r]))
        continue
      lasts = []
      seen = set()
      stack = [a for a, _ in g.pred[r.id]]
      while stack:
        x = stack.pop()
        if x in seen:
          continue
        seen.add(x)
        if x in cids:
          lasts.append(cids[x])
          continue
        stack.extend(a for a, _ in g.pred[x])
      out.append((r, lasts))
    return g, out

  def ends_skipping(m, node):
    calls = [cc for cc in calls_of_node(node) if any(q in cons for q in callees_of(m, cc))]
    calls.sort(key=lambda cc: (cc.end_lineno, cc.end_col_offset))
    return bool(calls) and all(q in enders for q in callees_of(m, calls[-1]))

  changed = True
  while changed:
    changed = False
    for name, m in c.methods.items():
      if m.qual in enders or m.qual not in cons or m.is_generator():
        continue
      g, rl = last_consumers(m)
      if rl and all(lasts and all(ends_skipping(m, n) for n in lasts) for _, lasts in rl):
        enders.add(m.qual)
        changed = True
  # before every `_expect(NEWLINE)` the last cursor movement skipped trailing comments
  def skips_comments(m, node):
    for cc in calls_of_node(node):
      q = indirect_callees(prog, m, cc)
      if any(x in enders for x in q):
        return True
      if prog.resolve_call(m, cc) == CP + '._skip' and cc.args and 'COMMENT' in u(cc.args[0]):
        return True
    return False
  for name, m in c.methods.items():
    g = prog.cfg(m)
    cids = {n.id: n for n in g.live_nodes() if any(q in cons for cc in calls_of_node(n) for q in indirect_callees(prog, m, cc))}
    for n in g.live_nodes():
      exp = [cc for cc in calls_of_node(n) if prog.resolve_call(m, cc) == CP + '._expect' and cc.args and u(cc.args[0]) == 'tokenize.NEWLINE']
      if not exp:
        continue
      lasts, seen, stack = [], set(), [a for a, _ in g.pred[n.id]]
      while stack:
        x = stack.pop()
        if x in seen:
          continue
        seen.add(x)
        if x in cids:
          lasts.append(cids[x])
          continue
        stack.extend(a for a, _ in g.pred[x])
      bad = [x for x in lasts if not skips_comments(m, x)]
      ctx.check(not bad, 'C03.normal-form', construct(m),
                'the NEWLINE expected at line %d is preceded, on every path, by a step that skips a trailing comment' % n.lineno,
                'NEWLINE is expected at line %d right after `%s` (line %d), which does not skip a trailing comment: a comment at the end of that line '
                '(after a block header `scope/name:` or after a block member) is a syntax error, although the same statements without it parse'
                % (n.lineno, bad[0].text() if bad else '', bad[0].lineno if bad else 0), m.loc(n.ast), instance='before-newline@%s:%d' % (name, len(lasts)))
  pv, alts = alternatives(ctx)
  for name in alts + ['parse_value']:
    m = ctx.func('%s.%s' % (CP, name))
    if m.qual in enders:
      ctx.hold('C03.normal-form', construct(m), 'every successful path ends by skipping trailing comments / line breaks', m.loc(), instance='trailing-skip')
      continue
    g, rl = last_consumers(m)
    bad = [(r, n) for r, lasts in rl for n in lasts if not ends_skipping(m, n)] or [(r, None) for r, lasts in rl if not lasts]
    r, n = bad[0] if bad else (None, None)
    ctx.fail('C03.normal-form', construct(m),
             'a successful path ends with `%s` (line %s), which does not skip trailing comments / line breaks like its sibling alternatives: '
             'a comment or line break after this kind of value (e.g. `@name()  # note`, or before `,` / `]` in a multi-line container) is a syntax error, '
             'so two layouts of the same statements no longer give the same configuration' % (n.text() if n else 'no consuming call', n.lineno if n else '?'),
             m.loc(n.ast) if n else m.loc(), instance='trailing-skip')


class Uninterpreted(Exception):
  pass


def show(v):
  if v is None:
    return 'None'
  return '(' + ', '.join('*' if x is None else ("''" if x == () else '+'.join(x)) if isinstance(x, tuple) else str(x) for x in v) + ')'


def split_semantics(fn, sep, has):
  """Abstractly runs the tail of `fn` starting at its (r)split / (r)partition
  statement, for a text that does (`has`) or does not contain `sep`.
  Strings are tuples of atoms: HEAD / TAIL = text before / after the *last*
  separator, HEAD1 / TAIL1 = before / after the *first* one, X = the whole
  text, SEP; () is the empty string.  Returns the returned tuple."""
  body = [st for st in fn.node.body if not (isinstance(st, ast.Expr) and isinstance(st.value, ast.Constant))]

  def split_call(n):
    return isinstance(n, ast.Call) and isinstance(n.func, ast.Attribute) and n.func.attr in ('rsplit', 'split', 'rpartition', 'partition') \
        and isinstance(n.func.value, ast.Name) and n.args and isinstance(n.args[0], ast.Constant) and n.args[0].value == sep
  start = None
  recv = None
  for i, st in enumerate(body):
    for n in ast.walk(st):
      if split_call(n) and start is None:
        start, recv = i, n.func.value.id
  if start is None:
    raise Uninterpreted('no split at %r' % sep)
  env = {recv: ('X',)}

  class Ret(Exception):
    def __init__(self, v):
      self.v = v

  def truth(v):
    if isinstance(v, bool):
      return v
    if isinstance(v, tuple) and all(isinstance(a, str) for a in v):
      if v == ():
        return False
      if 'SEP' in v:
        return True
      raise Uninterpreted('truth value of %s' % (v,))
    if isinstance(v, list):
      return bool(v)
    raise Uninterpreted('truth value')

  def ev(e):
    if isinstance(e, ast.Constant):
      if isinstance(e.value, str):
        return () if e.value == '' else (('SEP',) if e.value == sep else ('lit:' + e.value,))
      return e.value
    if isinstance(e, ast.Name):
      if e.id in env:
        return env[e.id]
      raise Uninterpreted('name %s' % e.id)
    if isinstance(e, (ast.Tuple, ast.List)):
      return [ev(x) for x in e.elts]
    if isinstance(e, ast.UnaryOp) and isinstance(e.op, ast.Not):
      return not truth(ev(e.operand))
    if isinstance(e, ast.UnaryOp) and isinstance(e.op, ast.USub) and isinstance(e.operand, ast.Constant):
      return -e.operand.value
    if isinstance(e, ast.Compare) and len(e.ops) == 1 and isinstance(e.ops[0], (ast.In, ast.NotIn)) \
        and isinstance(e.left, ast.Constant) and e.left.value == sep and ev(e.comparators[0]) == ('X',):
      return has if isinstance(e.ops[0], ast.In) else (not has)
    if isinstance(e, ast.Compare) and len(e.ops) == 1 and isinstance(e.ops[0], (ast.Eq, ast.NotEq)):
      a, b = ev(e.left), ev(e.comparators[0])
      if isinstance(a, (int, list)) and isinstance(b, (int, list)) or (a in ((), ('SEP',)) and b in ((), ('SEP',))):
        return (a == b) == isinstance(e.ops[0], ast.Eq)
      raise Uninterpreted(u(e))
    if isinstance(e, ast.BinOp) and isinstance(e.op, ast.Add):
      a, b = ev(e.left), ev(e.right)
      if isinstance(a, tuple) and isinstance(b, tuple):
        return a + b
      if isinstance(a, list) and isinstance(b, list):
        return a + b
      raise Uninterpreted(u(e))
    if isinstance(e, ast.IfExp):
      return ev(e.body) if truth(ev(e.test)) else ev(e.orelse)
    if isinstance(e, ast.Subscript):
      v = ev(e.value)
      if not isinstance(v, list):
        raise Uninterpreted(u(e))
      if isinstance(e.slice, ast.Slice):
        lo = ev(e.slice.lower) if e.slice.lower is not None else None
        hi = ev(e.slice.upper) if e.slice.upper is not None else None
        stp = ev(e.slice.step) if e.slice.step is not None else None
        return v[lo:hi:stp]
      i = ev(e.slice)
      if not isinstance(i, int) or not (-len(v) <= i < len(v)):
        raise Uninterpreted('index %s of %s' % (u(e.slice), v))
      return v[i]
    if isinstance(e, ast.Call) and u(e.func) == 'len' and len(e.args) == 1:
      v = ev(e.args[0])
      if isinstance(v, list):
        return len(v)
      raise Uninterpreted(u(e))
    if isinstance(e, ast.Call) and u(e.func) in ('tuple', 'list') and len(e.args) == 1:
      return ev(e.args[0])
    if isinstance(e, ast.Call) and isinstance(e.func, ast.Attribute) and e.func.attr == 'join' and len(e.args) == 1:
      j = ev(e.func.value)
      v = ev(e.args[0])
      if j != ():
        raise Uninterpreted(u(e))
      if isinstance(v, tuple):
        return v           # ''.join(<str>) is that str
      out = ()
      for x in v:
        if not isinstance(x, tuple):
          raise Uninterpreted(u(e))
        out += x
      return out
    if split_call(e):
      if ev(e.func.value) != ('X',):
        raise Uninterpreted(u(e))
      m = e.func.attr
      mx = [ev(a) for a in e.args[1:]] + [ev(k.value) for k in e.keywords if k.arg == 'maxsplit']
      if m in ('rsplit', 'split'):
        if mx != [1]:
          return [('PIECE',), ('PIECE2',)] if has else [('X',)]     # all pieces: not a two-way split
        if not has:
          return [('X',)]
        return [('HEAD',), ('TAIL',)] if m == 'rsplit' else [('HEAD1',), ('TAIL1',)]
      if m == 'rpartition':
        return [('HEAD',), ('SEP',), ('TAIL',)] if has else [(), (), ('X',)]
      return [('HEAD1',), ('SEP',), ('TAIL1',)] if has else [('X',), (), ()]
    raise Uninterpreted(u(e))

  def assign(t, v):
    if isinstance(t, ast.Name):
      env[t.id] = v
    elif isinstance(t, (ast.Tuple, ast.List)):
      if not isinstance(v, list):
        raise Uninterpreted('unpack of non-sequence')
      star = [i for i, x in enumerate(t.elts) if isinstance(x, ast.Starred)]
      if star:
        i = star[0]
        after = len(t.elts) - i - 1
        if len(v) < len(t.elts) - 1:
          raise Uninterpreted('unpack arity')
        for x, y in zip(t.elts[:i], v[:i]):
          assign(x, y)
        assign(t.elts[i].value, v[i:len(v) - after])
        for x, y in zip(t.elts[i + 1:], v[len(v) - after:]):
          assign(x, y)
      else:
        if len(v) != len(t.elts):
          raise Uninterpreted('unpack arity %d != %d (a text %s the separator raises here)' % (len(v), len(t.elts), 'with' if has else 'without'))
        for x, y in zip(t.elts, v):
          assign(x, y)
    else:
      raise Uninterpreted('assignment target')

  def run(stmts):
    for st in stmts:
      if isinstance(st, ast.Assign) and len(st.targets) == 1:
        assign(st.targets[0], ev(st.value))
      elif isinstance(st, ast.If):
        run(st.body if truth(ev(st.test)) else st.orelse)
      elif isinstance(st, ast.Return):
        raise Ret(ev(st.value) if st.value is not None else None)
      elif isinstance(st, ast.Pass):
        pass
      else:
        raise Uninterpreted(type(st).__name__)
  # names bound before the split (other results carried through) are opaque strings
  for st in body[:start]:
    for n in ast.walk(st):
      if isinstance(n, ast.Name) and isinstance(n.ctx, ast.Store) and n.id not in env:
        env[n.id] = ('val:' + n.id,)
  for a in fn.node.args.args:
    env.setdefault(a.arg, ('val:' + a.arg,))
  env[recv] = ('X',)
  try:
    run(body[start:])
  except Ret as r:
    v = r.v
    if not isinstance(v, list):
      raise Uninterpreted('return value')
    return [x if isinstance(x, tuple) and all(isinstance(a, str) and not a.startswith('val:') for a in x) else None for x in v]
  return None
